import TnVerif.Lemmas.Dual
import TnVerif.Lemmas.StatsDual
import TnVerif.Lemmas.ReadmeKeys
import TnVerif.Props.C02
import TnVerif.Props.C03
import TnVerif.Props.C06
import TnVerif.Props.C12
import TnVerif.Props.C20
/-!
# C07 — gradients through compressed operations equal gradients through the dense arrays

Autograd propagates, through ring operations, exactly what dual-number arithmetic propagates.
`Dual R` is a commutative ring, so the theorems of C02 (any expression tree), C03 (indexing) and C06
(inner products, sums) hold *as already proved* with `R := Dual R`: the compressed and the dense
computation agree in the value **and in the tangent**, for every assignment of tangents to the
entries of every core and factor — i.e. the gradients with respect to every parameter agree.
-/
namespace TN.C07
open TN
variable {R : Type} [CommRing R]

/-- **any expression tree** over `{+,-,*,unary -, scalar ops}`: the tangent of every entry of the
    compressed result is the tangent of the element-wise expression on the dense arrays -/
theorem expr_tangent (s : List Nat) (e : C02.Expr (Dual R)) (h : C02.wfExpr s e) (idx : List Nat) (hi : idx.length = s.length) :
    ((C02.evalT e).dense idx).d = (C02.evalD e idx).d ∧ ((C02.evalT e).dense idx).v = (C02.evalD e idx).v := by
  have := (C02.expr_dense s e h).2.2 idx hi
  rw [this]; exact ⟨rfl, rfl⟩

/-- product rule through compressed multiplication -/
theorem mul_tangent (t u : Tensor (Dual R)) (ht : t.WF) (hu : u.WF) (hs : t.shape = u.shape) (idx : List Nat) :
    ((t.mul u).dense idx).d = (t.dense idx).v * (u.dense idx).d + (t.dense idx).d * (u.dense idx).v := by
  rw [C02.mul_dense t u ht hu hs]; rfl

/-- **inner products, norms² and everything built from them** -/
theorem dot_tangent (t u : Tensor (Dual R)) (ht : t.WF) (hu : u.WF) (hs : t.shape = u.shape) :
    (t.dot u).d = (boxSum t.shape (fun idx => t.dense idx * u.dense idx)).d := by
  rw [C06.dot_eq t u ht hu hs]

/-- **indexing and slicing** (tensor-valued result) -/
theorem getitem_tangent (t : Tensor (Dual R)) (ht : t.WF) (key key1 : List RawItem) (items : List Item)
    (h1 : processKey t.length key = .ok key1) (h2 : normKey key1 t.shape = .ok items)
    (m : TMode (Dual R)) (l : Tensor (Dual R)) (hr : t.getitem key = .ok (.inl (m :: l)))
    (out : List Nat) (hf : fits (groupKey items) t.length out.length) :
    (Tensor.dense (m :: l) out).d = (t.dense (srcIdx (groupKey items) out)).d := by
  rw [C03.getitem_tensor t ht key key1 items h1 h2 m l hr out hf]

/-- a smooth scalar head (`sqrt` in `norm`, `dist`): equal duals go to equal duals, whatever the
    derivative `f'` of the head is -/
theorem smooth_head (f f' : R → R) (x y : Dual R) (h : x = y) :
    (⟨f x.v, f' x.v * x.d⟩ : Dual R) = ⟨f y.v, f' y.v * y.d⟩ := by rw [h]

/-- what `x.data *= c` does is **not** multiplication by a constant: the value is scaled but the
    tangent is not (the defect repaired by commit c1c3e4a; scalar multiplication used to bypass autograd) -/
theorem dataScale_loses_gradient : Dual.dataScale (3 : Int) ⟨1, 1⟩ ≠ (Dual.const 3) * ⟨1, 1⟩ := by
  intro h
  have := congrArg Dual.d h
  simp [Dual.dataScale, Dual.const] at this

/-- multiplication by a constant scales the tangent (what the repaired code does) -/
theorem const_mul_tangent (c : R) (x : Dual R) : ((Dual.const c) * x).d = c * x.d := by
  simp [Dual.const]

/-! ### the routines modelled in the extension round, instantiated at dual numbers -/

/-- **sums over any modes** (keepdim form; `tn.sum`, and with it the unnormalised part of `mean`): value and tangent of every
    entry are those of the dense array summed over exactly the listed modes -/
theorem sumKeep_tangent (t : Tensor (Dual R)) (dims : List Bool) (idx : List Nat) (hd : dims.length = t.length)
    (hi : idx.length = t.length) :
    ((t.sumKeep dims).dense idx).d = (sumOver dims t.shape t.dense idx).d := by
  rw [C06.sumKeep_sumOver t dims idx hd hi]

/-- the sum over all modes, as the scalar `tn.sum(t)` returns -/
theorem sum_all_tangent (t : Tensor (Dual R)) (ht : t.WF) :
    ∃ s : Dual R, t.sum (allDims t) = .ok (.inr s) ∧ s.d = (boxSum t.shape t.dense).d :=
  ⟨_, C06.sum_all t ht, rfl⟩

/-- **squared distance**: the radicand of `tn.dist` is, in value and tangent, the squared norm of the difference -/
theorem distsq_tangent (t u : Tensor (Dual R)) (ht : t.WF) (hu : u.WF) (hs : t.shape = u.shape) :
    (t.normsq + u.normsq - 2 * t.dot u).d = ((t.sub u).normsq).d := by
  rw [C06.distsq_eq_normsq_sub t u ht hu hs]

/-- **tensor-times-matrix products along any modes** (`tn.ttm`; flips, cumulative sums, paddings, finite differences are instances) -/
theorem ttm_tangent (t : Tensor (Dual R)) (maps : List (Option (Nat × (Nat → Nat → Dual R)))) (idx : List Nat)
    (hl : maps.length = t.length) (hi : idx.length = t.length) :
    ((t.ttm maps).dense idx).d = (applyMaps maps t.shape t.dense idx).d := by
  rw [C12.linModes_dense t maps idx hl hi]

/-- **concatenation**: the tangent of an entry of `tn.cat(ts, dim)` is the tangent of the entry of the operand whose block contains it -/
theorem cat_tangent (t0 : Tensor (Dual R)) (rest : List (Tensor (Dual R))) (d : Nat)
    (hwf : ∀ t ∈ t0 :: rest, t.WF) (hlen : ∀ t ∈ rest, t.length = t0.length) (hd : d < t0.length)
    (hs : ∀ t ∈ rest, ∀ k, k ≠ d → t.shape.getD k 0 = t0.shape.getD k 0)
    (idx : List Nat) (hi : idx.length = t0.length) (k : Nat) (hk : k < (t0 :: rest).length)
    (hlo : (((t0 :: rest).take k).map (catSize d)).sum ≤ idx.getD d 0)
    (hhi : idx.getD d 0 < (((t0 :: rest).take (k + 1)).map (catSize d)).sum) :
    ((Tensor.catN (t0 :: rest) d).dense idx).d =
      (((t0 :: rest)[k]).dense (idx.set d (idx.getD d 0 - (((t0 :: rest).take k).map (catSize d)).sum))).d := by
  rw [C12.catN_dense t0 rest d hwf hlen hd hs idx hi k hk hlo hhi]

/-- **finite differences** of any order along a mode -/
theorem partialN_tangent (t : Tensor (Dual R)) (d : Nat) (c : Dual R) (per : Bool) (k : Nat) (idx : List Nat)
    (hd : d < t.length) (hi : idx.length = t.length) :
    ((t.partialN d c per k).dense idx).d = ((C20.denseD t.shape d c per)^[k] t.dense idx).d := by
  rw [C20.partialN_dense t d c per hd k idx hi]

/-! ## means and variances: scalars with a division that is not a field's -/
section natdiv
variable {S : Type} [CommRing S] [Div S]

/-- **the normalised `tn.ttm` of `tn.sum(…, _normalize=True)`, scalars that need not be a field**: in every commutative
    ring whose division obeys `sdual_NatDivLaws` (every field; dual numbers over a field with the quotient-rule division of
    Model/Dual.lean) entry `idx` is the dense array summed over exactly the listed modes and divided by the product of their sizes -/
theorem meanRows_natdiv (h : sdual_NatDivLaws S) (t : Tensor S) (dims : List Bool) (idx : List Nat)
    (hd : dims.length = t.length) (hi : idx.length = t.length) :
    (t.meanRows dims).dense idx = sumOver dims t.shape t.dense idx / ((cntOver dims t.shape : Nat) : S) := by
  unfold Tensor.meanRows Tensor.ttm Tensor.dense
  rw [dense_linModes t _ idx (by simp [hd]) hi]
  have hz : List.zipWith (fun b (m : TMode S) => if b then some (1, meanL (R := S) m.n) else Option.none) dims t =
      List.zipWith (fun b n => if b then some (1, fun _ _ => (fun n => (1 / natR n : S) * 1) n) else Option.none) dims t.shape :=
    zipWith_modes (R := S) (fun b n => if b then some (1, fun _ _ => (fun n => (1 / natR n : S) * 1) n) else Option.none) dims t
  rw [hz, applyMaps_const (fun n => (1 / natR n : S) * 1) dims t.shape _ idx (by rw [hi, shape_length]), sdual_cprod_inv h,
    mul_comm, ← h.div_nat]

/-- `tn.mean(t, dims, keepdim=True)` (no listed mode empty) over such scalars: succeeds, is well formed, has the averaged
    modes set to 1, and every entry is the dense average over the listed modes (`C06.meanKeep_dense` without the `Field` hypothesis) -/
theorem meanKeep_natdiv (h : sdual_NatDivLaws S) (t : Tensor S) (ht : t.WF) (dims : List Bool) (hd : dims.length = t.length)
    (hz : flaggedZero dims t.shape = false) :
    ∃ k : Tensor S, t.meanKeep dims = .ok k ∧ k.WF ∧ k.shape = oneShape dims t.shape ∧
      ∀ idx, idx.length = t.length →
        k.dense idx = sumOver dims t.shape t.dense idx / ((cntOver dims t.shape : Nat) : S) := by
  refine ⟨t.meanRows dims, by simp [Tensor.meanKeep, hz], WF_linModes_sq t _ ht, shape_linModes_row (fun n => meanL n) t dims, ?_⟩
  intro idx hi
  exact meanRows_natdiv h t dims idx hd hi

/-- `tn.mean(t)` over such scalars is the scalar `(Σ_idx t[idx]) / numel` (`C06.mean_dense` without the `Field` hypothesis) -/
theorem mean_natdiv (h : sdual_NatDivLaws S) (t : Tensor S) (ht : t.WF) (hpos : ∀ n ∈ t.shape, 0 < n) :
    t.mean (allDims t) = .ok (.inr (boxSum t.shape t.dense / ((t.shape.prod : Nat) : S))) := by
  have hd := allDims_length t
  have hz := flaggedZero_pos (allDims t) t.shape hpos
  obtain ⟨a, _⟩ := C06.squeeze_rows (fun n => meanL n) t ht (allDims t) hd (t.meanRows (allDims t)) rfl
  simp only [Tensor.mean, Tensor.meanKeep, hz, Bool.false_eq_true, if_false, bind, Except.bind]
  rw [a (allDims_all t)]
  simp only
  rw [meanRows_natdiv h t (allDims t) (List.replicate t.length 0) hd (by simp), allDims_eq,
    sumOver_all _ _ _ (by simp [shape_length]), cntOver_all]

/-- `tn.mean(t, dims)` over a proper subset of the modes, over such scalars: the listed modes are deleted and the entries
    are the dense averages over them (`C06.mean_subset_dense` without the `Field` hypothesis) -/
theorem mean_subset_natdiv (h : sdual_NatDivLaws S) (t : Tensor S) (ht : t.WF) (dims : List Bool) (hd : dims.length = t.length)
    (hz : flaggedZero dims t.shape = false) (hnot : dims.all id = false) :
    ∃ v : Tensor S, t.mean dims = .ok (.inl v) ∧ v.WF ∧ v.shape = keepShape dims t.shape ∧
      ∀ out, out.length = v.length →
        v.dense out = sumOver dims t.shape t.dense (fillIdx dims out) / ((cntOver dims t.shape : Nat) : S) := by
  obtain ⟨_, b⟩ := C06.squeeze_rows (fun n => meanL n) t ht dims hd (t.meanRows dims) rfl
  obtain ⟨v, h1, hw, h2, h3⟩ := b hnot
  refine ⟨v, ?_, hw, h2, fun out ho => ?_⟩
  · simp only [Tensor.mean, Tensor.meanKeep, hz, Bool.false_eq_true, if_false, bind, Except.bind]
    rw [h1]
  · obtain ⟨hl, hv⟩ := h3 out ho
    rw [hv, meanRows_natdiv h t dims _ hd hl]

/-- `tn.var(t)` (no empty mode) over such scalars never fails and equals `(1/numel)·Σ_idx (t[idx] − μ)²` with
    `μ = (Σ_idx t[idx]) / numel` (`C06.var_dense` without the `Field` hypothesis) -/
theorem var_natdiv (h : sdual_NatDivLaws S) (t : Tensor S) (ht : t.WF) (hpos : ∀ n ∈ t.shape, 0 < n) :
    t.var = .ok (boxSum t.shape (fun idx =>
        (t.dense idx - boxSum t.shape t.dense / ((t.shape.prod : Nat) : S)) *
        (t.dense idx - boxSum t.shape t.dense / ((t.shape.prod : Nat) : S))) / ((t.shape.prod : Nat) : S)) := by
  unfold Tensor.var
  rw [mean_natdiv h t ht hpos]
  simp only [bind, Except.bind, pure, Except.pure]
  obtain ⟨w, s⟩ := C02.scalarAdd_wf_shape (-1 * (boxSum t.shape t.dense / ((t.shape.prod : Nat) : S))) t ht
  rw [C06.normsq_eq _ w, s, sdual_numelR_eq]
  congr 2
  apply boxSum_congr_in_st
  intro is his
  rw [C02.scalarAdd_dense _ t ht is (by rw [inShape_length is _ his, shape_length])]
  ring

/-- `t * pdf` for the rank-one tensor of normalised marginals, over a commutative ring with ANY division (no law of `/`
    is needed: the code and the dense formula divide the same things): entries are `t[idx] · Π_n w_n[idx_n] / Σ w_n` -/
theorem mul_pdf_anydiv (t : Tensor S) (ht : t.WF) (margs : List (Option (Nat × (Nat → S)))) (hm : sdual_margsFit t.shape margs) :
    (t.mul (pdfT t.shape margs)).WF ∧ (t.mul (pdfT t.shape margs)).shape = t.shape ∧
    (t.mul (pdfT t.shape margs)).length = t.length ∧
    ∀ js, js.length = t.length → (t.mul (pdfT t.shape margs)).dense js = t.dense js * sdual_margW margs js := by
  have hne : t.shape ≠ [] := by
    intro h; cases t with
    | nil => simp [Tensor.WF] at ht
    | cons _ _ => simp [Tensor.shape] at h
  have hpw := sdual_WF_pdfT t.shape margs hne
  have hps := sdual_shape_pdfT t.shape margs hm
  obtain ⟨w, s⟩ := C02.mul_wf_shape t _ ht hpw hps.symm
  refine ⟨w, s, by rw [← shape_length, s, shape_length], fun js hjs => ?_⟩
  rw [C02.mul_dense t _ ht hpw hps.symm]
  unfold Tensor.dense
  rw [sdual_dense_pdfT t.shape margs js hne (by rw [hjs, shape_length])]

/-- `tn.mean(t, marginals=…)` over all modes, any division: the scalar `Σ_idx t[idx] · Π_n w_n[idx_n] / Σ w_n`
    (`C06.mean_marginals_dense` without the `Field` hypothesis) -/
theorem mean_marginals_anydiv (t : Tensor S) (ht : t.WF) (margs : List (Option (Nat × (Nat → S))))
    (hm : sdual_margsFit t.shape margs) :
    t.meanMarg (allDims t) margs = .ok (.inr (boxSum t.shape (fun js => t.dense js * sdual_margW margs js))) := by
  obtain ⟨w, s, l, d⟩ := mul_pdf_anydiv t ht margs hm
  unfold Tensor.meanMarg
  have hall : allDims t = allDims (t.mul (pdfT t.shape margs)) := by
    rw [allDims_eq, allDims_eq, s]
  rw [hall, C06.sum_all _ w, s]
  congr 2
  exact boxSum_congr_in_st t.shape _ _ (fun js hjs => d js (by rw [inShape_length js _ hjs, shape_length]))

/-- `tn.mean(t, dims, marginals)` over a proper subset of the modes, any division (`C06.mean_marginals_subset_dense`
    without the `Field` hypothesis) -/
theorem mean_marginals_subset_anydiv (t : Tensor S) (ht : t.WF) (dims : List Bool) (margs : List (Option (Nat × (Nat → S))))
    (hm : sdual_margsFit t.shape margs) (hd : dims.length = t.length) (hnot : dims.all id = false) :
    ∃ v : Tensor S, t.meanMarg dims margs = .ok (.inl v) ∧ v.WF ∧ v.shape = keepShape dims t.shape ∧
      ∀ out, out.length = v.length →
        v.dense out = sumOver dims t.shape (fun js => t.dense js * sdual_margW margs js) (fillIdx dims out) := by
  obtain ⟨w, s, l, d⟩ := mul_pdf_anydiv t ht margs hm
  obtain ⟨v, h1, hvw, h2, h3⟩ := C06.sum_removes_modes _ w dims (by rw [l]; exact hd) hnot
  refine ⟨v, h1, hvw, by rw [h2, s], fun out ho => ?_⟩
  rw [h3 out ho, s]
  have hkl := keepShape_length dims t.shape (by rw [shape_length]; exact hd)
  have hfl : (fillIdx dims out).length = t.shape.length := by
    rw [fillIdx_length dims out (by rw [ho, ← shape_length, h2, s, hkl]), hd, shape_length]
  exact sumOver_congr_len dims t.shape _ _ _ hfl (fun js hjs => d js (by rw [hjs, shape_length]))

/-- `tn.var(t, marginals)`, any division: `Σ_idx W[idx]·(t[idx] − μ)²` with `W[idx] = Π_n w_n[idx_n] / Σ w_n` and
    `μ = Σ_idx W[idx]·t[idx]` (`C06.var_marginals_dense` without the `Field` hypothesis) -/
theorem var_marginals_anydiv (t : Tensor S) (ht : t.WF) (margs : List (Nat × (Nat → S))) (hl : margs.length = t.length)
    (hm : sdual_margsFit t.shape (margs.map some)) :
    t.varMarg margs = .ok (boxSum t.shape (fun idx =>
        (t.dense idx - boxSum t.shape (fun js => t.dense js * sdual_margW (margs.map some) js)) *
        (t.dense idx - boxSum t.shape (fun js => t.dense js * sdual_margW (margs.map some) js)) *
          sdual_margW (margs.map some) idx)) := by
  unfold Tensor.varMarg
  rw [if_neg (by simp [hl]), mean_marginals_anydiv t ht _ hm]
  simp only
  rw [← sdual_pdfT_all t.shape margs (by rw [hl, shape_length])]
  generalize boxSum t.shape (fun js => t.dense js * sdual_margW (margs.map some) js) = μ
  obtain ⟨w, s⟩ := C02.scalarAdd_wf_shape (-1 * μ) t ht
  have hm' : sdual_margsFit (t.scalarAdd (-1 * μ)).shape (margs.map some) := by rw [s]; exact hm
  obtain ⟨w2, s2, _, d2⟩ := mul_pdf_anydiv _ w (margs.map some) hm'
  rw [s] at s2 d2
  have hlen : (t.scalarAdd (-1 * μ)).length = t.length := by rw [← shape_length, s, shape_length]
  rw [s] at w2
  rw [C06.dot_eq _ _ w2 w (by rw [s2, s]), s2]
  congr 1
  apply boxSum_congr_in_st
  intro is his
  have hil : is.length = t.length := by rw [inShape_length is _ his, shape_length]
  rw [d2 is (by rw [hil, hlen]), C02.scalarAdd_dense _ t ht is hil]
  ring

end natdiv

/-! ## means and variances at dual numbers -/
section dualstats
variable {K : Type} [Field K]

/-- **gradient of `tn.mean(t)`**: with tangents on every entry of every core and factor (`t : Tensor (Dual K)`, the scalars
    and the `Div` instance the compiled driver computes with), `tn.mean(t)` returns the dense mean `(Σ_idx t[idx]) / numel`
    evaluated in dual numbers; its value is the mean of the dense values and its tangent is the mean of the dense tangents,
    i.e. every partial derivative of the compressed mean equals that of the mean of the decompressed array -/
theorem mean_tangent (t : Tensor (Dual K)) (ht : t.WF) (hpos : ∀ n ∈ t.shape, 0 < n) :
    ∃ μ : Dual K, t.mean (allDims t) = .ok (.inr μ) ∧
      μ = boxSum t.shape t.dense / ((t.shape.prod : Nat) : Dual K) ∧
      μ.v = boxSum t.shape (fun idx => (t.dense idx).v) / (t.shape.prod : K) ∧
      μ.d = boxSum t.shape (fun idx => (t.dense idx).d) / (t.shape.prod : K) := by
  refine ⟨_, mean_natdiv Dual.sdual_natDivLaws t ht hpos, rfl, ?_, ?_⟩
  · rw [Dual.sdual_div_nat_v, Dual.sdual_boxSum_v]
  · rw [Dual.sdual_div_nat_d, Dual.sdual_boxSum_d]

/-- **gradient of `tn.mean(t, dims, keepdim=True)`**, entrywise: value and tangent of every entry of the result are the
    averages over the listed modes of the dense values, resp. of the dense tangents -/
theorem meanKeep_tangent (t : Tensor (Dual K)) (ht : t.WF) (dims : List Bool) (hd : dims.length = t.length)
    (hz : flaggedZero dims t.shape = false) :
    ∃ k : Tensor (Dual K), t.meanKeep dims = .ok k ∧ k.WF ∧ k.shape = oneShape dims t.shape ∧
      ∀ idx, idx.length = t.length →
        k.dense idx = sumOver dims t.shape t.dense idx / ((cntOver dims t.shape : Nat) : Dual K) ∧
        (k.dense idx).v = sumOver dims t.shape (fun js => (t.dense js).v) idx / (cntOver dims t.shape : K) ∧
        (k.dense idx).d = sumOver dims t.shape (fun js => (t.dense js).d) idx / (cntOver dims t.shape : K) := by
  obtain ⟨k, h1, h2, h3, h4⟩ := meanKeep_natdiv Dual.sdual_natDivLaws t ht dims hd hz
  refine ⟨k, h1, h2, h3, fun idx hi => ⟨h4 idx hi, ?_, ?_⟩⟩
  · rw [h4 idx hi, Dual.sdual_div_nat_v, Dual.sdual_sumOver_v]
  · rw [h4 idx hi, Dual.sdual_div_nat_d, Dual.sdual_sumOver_d]

/-- **gradient of `tn.mean(t, dims)`** over a proper subset of the modes, entrywise: the listed modes are deleted; value and
    tangent of every entry are the averages over those modes of the dense values, resp. of the dense tangents -/
theorem mean_subset_tangent (t : Tensor (Dual K)) (ht : t.WF) (dims : List Bool) (hd : dims.length = t.length)
    (hz : flaggedZero dims t.shape = false) (hnot : dims.all id = false) :
    ∃ v : Tensor (Dual K), t.mean dims = .ok (.inl v) ∧ v.WF ∧ v.shape = keepShape dims t.shape ∧
      ∀ out, out.length = v.length →
        v.dense out = sumOver dims t.shape t.dense (fillIdx dims out) / ((cntOver dims t.shape : Nat) : Dual K) ∧
        (v.dense out).v = sumOver dims t.shape (fun js => (t.dense js).v) (fillIdx dims out) / (cntOver dims t.shape : K) ∧
        (v.dense out).d = sumOver dims t.shape (fun js => (t.dense js).d) (fillIdx dims out) / (cntOver dims t.shape : K) := by
  obtain ⟨v, h1, h2, h3, h4⟩ := mean_subset_natdiv Dual.sdual_natDivLaws t ht dims hd hz hnot
  refine ⟨v, h1, h2, h3, fun out ho => ⟨h4 out ho, ?_, ?_⟩⟩
  · rw [h4 out ho, Dual.sdual_div_nat_v, Dual.sdual_sumOver_v]
  · rw [h4 out ho, Dual.sdual_div_nat_d, Dual.sdual_sumOver_d]

/-- **gradient of `tn.var(t)`**: the result is the dense variance expression `(1/numel)·Σ_idx (t[idx] − μ)²`, `μ` the dense
    mean, evaluated in dual numbers; its value is the variance of the dense values and its tangent is
    `(1/numel)·Σ_idx 2·(v[idx] − mean v)·(d[idx] − mean d)`, the directional derivative of the variance of the decompressed
    array along the dense tangents `d` -/
theorem var_tangent (t : Tensor (Dual K)) (ht : t.WF) (hpos : ∀ n ∈ t.shape, 0 < n) :
    ∃ x : Dual K, t.var = .ok x ∧
      x = boxSum t.shape (fun idx =>
        (t.dense idx - boxSum t.shape t.dense / ((t.shape.prod : Nat) : Dual K)) *
        (t.dense idx - boxSum t.shape t.dense / ((t.shape.prod : Nat) : Dual K))) / ((t.shape.prod : Nat) : Dual K) ∧
      x.v = boxSum t.shape (fun idx =>
        ((t.dense idx).v - boxSum t.shape (fun js => (t.dense js).v) / (t.shape.prod : K)) *
        ((t.dense idx).v - boxSum t.shape (fun js => (t.dense js).v) / (t.shape.prod : K))) / (t.shape.prod : K) ∧
      x.d = boxSum t.shape (fun idx =>
        2 * (((t.dense idx).v - boxSum t.shape (fun js => (t.dense js).v) / (t.shape.prod : K)) *
             ((t.dense idx).d - boxSum t.shape (fun js => (t.dense js).d) / (t.shape.prod : K)))) / (t.shape.prod : K) := by
  refine ⟨_, var_natdiv Dual.sdual_natDivLaws t ht hpos, rfl, ?_, ?_⟩
  · rw [Dual.sdual_div_nat_v, Dual.sdual_boxSum_v]
    simp only [Dual.mul_v, Dual.sub_v, Dual.sdual_div_nat_v, Dual.sdual_boxSum_v]
  · rw [Dual.sdual_div_nat_d, Dual.sdual_boxSum_d]
    simp only [Dual.mul_d, Dual.sub_v, Dual.sub_d, Dual.sdual_div_nat_v, Dual.sdual_div_nat_d, Dual.sdual_boxSum_v,
      Dual.sdual_boxSum_d]
    congr 2
    funext idx
    ring

end dualstats

/-! ## norms, distances, standard deviation: a smooth scalar head on a proved radicand; the README loss for arbitrary keys -/

section heads
variable {R : Type} [CommRing R]

/-- `t - u` of two well-formed tensors of equal shape is well formed and has that shape -/
theorem readme_sub_wf_shape (t u : Tensor R) (ht : t.WF) (hu : u.WF) (hs : t.shape = u.shape) :
    (t.sub u).WF ∧ (t.sub u).shape = t.shape := by
  unfold Tensor.sub Tensor.neg
  exact C02.add_wf_shape t _ ht (WF_scalarMul _ _ u hu) (by rw [shape_scalarMul]; exact hs)

/-- **gradient of `tn.norm(t)`** = `sqrt(clamp(normsq(t), 0))`: for ANY scalar head `f` with derivative function `f'`, applying the
    head to the compressed `tn.normsq(t)` gives the same dual number as applying it to `Σ_idx t[idx]²` on the dense array, so
    the chain-rule factor `f'` is common to both paths; explicitly the tangent is `f'(Σ v²)·Σ 2·v[idx]·d[idx]` -/
theorem norm_tangent (f f' : R → R) (t : Tensor (Dual R)) (ht : t.WF) :
    Dual.sdual_head f f' t.normsq = Dual.sdual_head f f' (boxSum t.shape (fun idx => t.dense idx * t.dense idx)) ∧
    Dual.sdual_head f f' t.normsq =
      ⟨f (boxSum t.shape (fun idx => (t.dense idx).v * (t.dense idx).v)),
       f' (boxSum t.shape (fun idx => (t.dense idx).v * (t.dense idx).v)) *
         boxSum t.shape (fun idx => 2 * ((t.dense idx).v * (t.dense idx).d))⟩ := by
  have h := C06.normsq_eq t ht
  refine ⟨by rw [h], ?_⟩
  rw [h]
  unfold Dual.sdual_head
  rw [Dual.sdual_boxSum_v, Dual.sdual_boxSum_d]
  simp only [Dual.mul_v, Dual.mul_d]
  congr 3
  funext idx; ring

/-- **gradient of `tn.dist(t, u)`** = `sqrt(clamp(‖t‖² + ‖u‖² − 2⟨t,u⟩, 0))`: for any head `f` with derivative `f'`, the head applied to
    the radicand the code computes equals the head applied to the compressed `‖t − u‖²`, and equals the head applied to the dense
    `Σ_idx (t[idx] − u[idx])²`; explicitly the tangent is `f'(Σ (v−w)²)·Σ 2·(v−w)[idx]·(d−e)[idx]` -/
theorem dist_tangent (f f' : R → R) (t u : Tensor (Dual R)) (ht : t.WF) (hu : u.WF) (hs : t.shape = u.shape) :
    Dual.sdual_head f f' (t.normsq + u.normsq - 2 * t.dot u) = Dual.sdual_head f f' ((t.sub u).normsq) ∧
    Dual.sdual_head f f' (t.normsq + u.normsq - 2 * t.dot u) =
      ⟨f (boxSum t.shape (fun idx => ((t.dense idx).v - (u.dense idx).v) * ((t.dense idx).v - (u.dense idx).v))),
       f' (boxSum t.shape (fun idx => ((t.dense idx).v - (u.dense idx).v) * ((t.dense idx).v - (u.dense idx).v))) *
         boxSum t.shape (fun idx => 2 * (((t.dense idx).v - (u.dense idx).v) * ((t.dense idx).d - (u.dense idx).d)))⟩ := by
  refine ⟨by rw [C06.distsq_eq_normsq_sub t u ht hu hs], ?_⟩
  rw [C06.dist_sq t u ht hu hs]
  unfold Dual.sdual_head
  rw [Dual.sdual_boxSum_v, Dual.sdual_boxSum_d]
  simp only [Dual.mul_v, Dual.mul_d, Dual.sub_v, Dual.sub_d]
  congr 3
  funext idx; ring

end heads

section stdhead
variable {K : Type} [Field K]

/-- **gradient of `tn.std(t)`** = `sqrt(clamp(tn.var(t), 0))`: for any head `f` with derivative `f'`, the head applied to what `tn.var`
    returns equals the head applied to the dense variance expression in dual numbers; the tangent is `f'(var v)` times the directional
    derivative of the dense variance -/
theorem std_tangent (f f' : K → K) (t : Tensor (Dual K)) (ht : t.WF) (hpos : ∀ n ∈ t.shape, 0 < n) :
    ∃ x : Dual K, t.var = .ok x ∧
      Dual.sdual_head f f' x = Dual.sdual_head f f' (boxSum t.shape (fun idx =>
        (t.dense idx - boxSum t.shape t.dense / ((t.shape.prod : Nat) : Dual K)) *
        (t.dense idx - boxSum t.shape t.dense / ((t.shape.prod : Nat) : Dual K))) / ((t.shape.prod : Nat) : Dual K)) ∧
      (Dual.sdual_head f f' x).d =
        f' (boxSum t.shape (fun idx =>
          ((t.dense idx).v - boxSum t.shape (fun js => (t.dense js).v) / (t.shape.prod : K)) *
          ((t.dense idx).v - boxSum t.shape (fun js => (t.dense js).v) / (t.shape.prod : K))) / (t.shape.prod : K)) *
        (boxSum t.shape (fun idx =>
          2 * (((t.dense idx).v - boxSum t.shape (fun js => (t.dense js).v) / (t.shape.prod : K)) *
               ((t.dense idx).d - boxSum t.shape (fun js => (t.dense js).d) / (t.shape.prod : K)))) / (t.shape.prod : K)) := by
  obtain ⟨x, h1, h2, h3, h4⟩ := var_tangent t ht hpos
  refine ⟨x, h1, by rw [← h2], ?_⟩
  unfold Dual.sdual_head
  simp only
  rw [h3, h4]

end stdhead

section readme
variable {R : Type} [CommRing R]

/-- **the README loss `tn.norm(t[k1] − t[k2])` for ANY two keys of the grammar with tensor-valued results of equal shape**:
    both slices are well formed, have the same shape, and for any head `f` with derivative `f'` the head applied to the
    compressed `normsq(t[k1] − t[k2])` equals the head applied to `Σ_out (t[src1 out] − t[src2 out])²` on the dense array of `t` —
    value and tangent, for every assignment of tangents to the entries of the cores and factors of `t` -/
theorem readme_loss_tangent_keys (f f' : R → R) (t : Tensor (Dual R)) (ht : t.WF)
    (k1 k2 key1 key2 : List RawItem) (items1 items2 : List Item)
    (h11 : processKey t.length k1 = .ok key1) (h12 : normKey key1 t.shape = .ok items1)
    (h21 : processKey t.length k2 = .ok key2) (h22 : normKey key2 t.shape = .ok items2)
    (a b : Tensor (Dual R)) (ha : t.getitem k1 = .ok (.inl a)) (hb : t.getitem k2 = .ok (.inl b))
    (hs : outShape (groupKey items1) = outShape (groupKey items2)) :
    a.WF ∧ b.WF ∧ a.shape = outShape (groupKey items1) ∧ b.shape = a.shape ∧
    Dual.sdual_head f f' ((a.sub b).normsq) =
      Dual.sdual_head f f' (boxSum (outShape (groupKey items1)) (fun out =>
        (t.dense (srcIdx (groupKey items1) out) - t.dense (srcIdx (groupKey items2) out)) *
        (t.dense (srcIdx (groupKey items1) out) - t.dense (srcIdx (groupKey items2) out)))) := by
  obtain ⟨a1, a2⟩ := C03.getitem_spec t ht k1 key1 items1 h11 h12 _ ha
  obtain ⟨b1, b2⟩ := C03.getitem_spec t ht k2 key2 items2 h21 h22 _ hb
  have hne1 : outShape (groupKey items1) ≠ [] := by
    intro h; have := a1 h; cases this
  have hne2 : outShape (groupKey items2) ≠ [] := by rw [← hs]; exact hne1
  obtain ⟨va, ea, wa, sa, da⟩ := a2 hne1
  obtain ⟨vb, eb, wb, sb, db⟩ := b2 hne2
  cases ea; cases eb
  have hsab : a.shape = b.shape := by rw [sa, sb, hs]
  obtain ⟨ws, ss⟩ := readme_sub_wf_shape a b wa wb hsab
  refine ⟨wa, wb, sa, hsab.symm, ?_⟩
  rw [C06.normsq_eq _ ws, ss, sa]
  congr 1
  apply boxSum_congr_in_st
  intro is his
  have hl : is.length = a.length := by rw [inShape_length is _ his, ← sa, shape_length]
  rw [C02.sub_dense a b wa wb hsab is hl, da is hl, db is (by rw [hl, ← shape_length, hsab, shape_length])]

end readme

/-! ## the README loss with its actual keys -/

section readme2
variable {R : Type} [CommRing R]

/-- `t[key]` for a key with one of `:3`, `-3:`, `:` per mode (the sliced modes having at least 3 entries): `_process_key` and the
    bounds normalisation succeed, the call returns a well-formed tensor of shape `readme_shape` whose entry `out` is `t[readme_src out]` -/
theorem readme_getitem {S : Type} [CommSemiring S] (t : Tensor S) (ht : t.WF) (l : List ReadmeSl) (hl : l.length = t.length)
    (hok : readme_ok l t.shape) :
    processKey t.length (readme_raw l) = .ok (readme_raw l) ∧
    normKey (readme_raw l) t.shape = .ok (readme_items l t.shape) ∧
    ∃ v : Tensor S, t.getitem (readme_raw l) = .ok (.inl v) ∧ v.WF ∧ v.shape = readme_shape l t.shape ∧
      ∀ out, out.length = v.length → v.dense out = t.dense (readme_src l t.shape out) := by
  have h1 := readme_processKey t.length l hl
  have hls : l.length = t.shape.length := by rw [hl, shape_length]
  have h2 := readme_normKey l t.shape hls hok
  refine ⟨h1, h2, ?_⟩
  obtain ⟨res, hres⟩ := (C03.getitem_ok_iff t _ _ _ h1 h2).mpr (by rw [readme_groupKey]; exact readme_runsOK _ _ _)
  obtain ⟨_, b⟩ := C03.getitem_spec t ht _ _ _ h1 h2 res hres
  rw [readme_groupKey, readme_outShape] at b
  have hne : readme_shape l t.shape ≠ [] := by
    intro h
    have := readme_shape_length l t.shape hls
    rw [h, hl] at this
    cases t with
    | nil => simp [Tensor.WF] at ht
    | cons _ _ => simp at this
  obtain ⟨v, e, w, sh, d⟩ := b hne
  refine ⟨v, by rw [hres, e], w, sh, ?_⟩
  intro out ho
  rw [d out ho, readme_srcIdx l t.shape out hls (by rw [ho, ← shape_length, sh, readme_shape_length l t.shape hls])]

/-- **the README loss `tn.norm(t[:3, …, :3] - t[-3:, …, -3:])`** (README.md:89-91; any number of modes, every mode of size ≥ 3):
    both indexings succeed with well-formed results of shape `(3, …, 3)`, the subtraction and `normsq` go through, and for any head `f`
    (here `sqrt∘clamp`) with derivative `f'` the loss computed on the compressed tensors has the same value AND the same tangent as
    `f(Σ_{out ∈ [0,3)^N} (t[out] − t[shape − 3 + out])²)` computed on the decompressed array — for every assignment of tangents to
    the entries of every core and factor of `t`, i.e. the gradients w.r.t. all cores and factors agree -/
theorem readme_loss_tangent (f f' : R → R) (t : Tensor (Dual R)) (ht : t.WF) (h3 : ∀ n ∈ t.shape, 3 ≤ n) :
    ∃ a b : Tensor (Dual R),
      t.getitem (List.replicate t.length (.slice Option.none (some 3) Option.none)) = .ok (.inl a) ∧
      t.getitem (List.replicate t.length (.slice (some (-3)) Option.none Option.none)) = .ok (.inl b) ∧
      a.WF ∧ b.WF ∧ a.shape = List.replicate t.length 3 ∧ b.shape = List.replicate t.length 3 ∧
      Dual.sdual_head f f' ((a.sub b).normsq) =
        Dual.sdual_head f f' (boxSum (List.replicate t.length 3) (fun out =>
          (t.dense out - t.dense (List.zipWith (fun n j => n - 3 + j) t.shape out)) *
          (t.dense out - t.dense (List.zipWith (fun n j => n - 3 + j) t.shape out)))) := by
  have hsl := shape_length t
  have hokf : readme_ok (List.replicate t.length .front) t.shape := by rw [← hsl]; exact readme_ok_replicate .front t.shape h3
  have hokb : readme_ok (List.replicate t.length .back) t.shape := by rw [← hsl]; exact readme_ok_replicate .back t.shape h3
  obtain ⟨p1, n1, a, ha, wa, sa, da⟩ := readme_getitem t ht (List.replicate t.length .front) (by simp) hokf
  obtain ⟨p2, n2, b, hb, wb, sb, db⟩ := readme_getitem t ht (List.replicate t.length .back) (by simp) hokb
  have sa' : a.shape = List.replicate t.length 3 := by
    rw [sa]; conv_lhs => rw [← hsl]
    rw [readme_shape_replicate_front, hsl]
  have sb' : b.shape = List.replicate t.length 3 := by
    rw [sb]; conv_lhs => rw [← hsl]
    rw [readme_shape_replicate_back, hsl]
  have hs : outShape (groupKey (readme_items (List.replicate t.length .front) t.shape)) =
      outShape (groupKey (readme_items (List.replicate t.length .back) t.shape)) := by
    rw [readme_groupKey, readme_groupKey, readme_outShape, readme_outShape, ← sa, ← sb, sa', sb']
  obtain ⟨_, _, s1, _, hh⟩ := readme_loss_tangent_keys f f' t ht _ _ _ _ _ _ p1 n1 p2 n2 a b ha hb hs
  rw [readme_raw_replicate] at ha hb
  refine ⟨a, b, ha, hb, wa, wb, sa', sb', ?_⟩
  rw [hh, ← s1, sa']
  congr 1
  apply boxSum_congr_in_st
  intro is his
  have hl : is.length = t.length := by rw [inShape_length is _ his]; simp
  have e1 : srcIdx (groupKey (readme_items (List.replicate t.length .front) t.shape)) is = is := by
    rw [readme_groupKey, readme_srcIdx _ _ _ (by simp [hsl]) (by simp [hl])]
    conv_lhs => rw [← hsl]
    exact readme_src_replicate_front t.shape is (by rw [hl, hsl])
  have e2 : srcIdx (groupKey (readme_items (List.replicate t.length .back) t.shape)) is =
      List.zipWith (fun n j => n - 3 + j) t.shape is := by
    rw [readme_groupKey, readme_srcIdx _ _ _ (by simp [hsl]) (by simp [hl])]
    conv_lhs => rw [← hsl]
    exact readme_src_replicate_back t.shape is (by rw [hl, hsl])
  rw [e1, e2]

/-- **the abbreviated README loss `tn.norm(t[:3, ...] - t[-3:, ...])`** (first mode of size ≥ 3, any further modes): the Ellipsis
    expands to `:` on the remaining modes, both results have shape `(3, shape[1:]…)`, and the loss on the compressed tensors has the
    same value and tangent as `f(Σ_out (t[j, rest] − t[n₀ − 3 + j, rest])²)` on the decompressed array -/
theorem readme_loss_first_mode_tangent (f f' : R → R) (m : TMode (Dual R)) (ms : Tensor (Dual R)) (ht : Tensor.WF (m :: ms))
    (h3 : 3 ≤ m.n) :
    ∃ a b : Tensor (Dual R),
      Tensor.getitem (m :: ms) [.slice Option.none (some 3) Option.none, .ellipsis] = .ok (.inl a) ∧
      Tensor.getitem (m :: ms) [.slice (some (-3)) Option.none Option.none, .ellipsis] = .ok (.inl b) ∧
      a.WF ∧ b.WF ∧ a.shape = 3 :: Tensor.shape ms ∧ b.shape = 3 :: Tensor.shape ms ∧
      Dual.sdual_head f f' ((a.sub b).normsq) =
        Dual.sdual_head f f' (boxSum (3 :: Tensor.shape ms) (fun out =>
          (Tensor.dense (m :: ms) out - Tensor.dense (m :: ms) ((m.n - 3 + out.headD 0) :: out.tail)) *
          (Tensor.dense (m :: ms) out - Tensor.dense (m :: ms) ((m.n - 3 + out.headD 0) :: out.tail)))) := by
  have hsh : Tensor.shape (m :: ms) = m.n :: Tensor.shape ms := rfl
  have hmsl : (Tensor.shape ms).length = ms.length := shape_length ms
  have hokf : readme_ok (.front :: List.replicate ms.length .all) (Tensor.shape (m :: ms)) := by
    rw [hsh, ← hmsl]; exact ⟨h3, readme_ok_all _⟩
  have hokb : readme_ok (.back :: List.replicate ms.length .all) (Tensor.shape (m :: ms)) := by
    rw [hsh, ← hmsl]; exact ⟨h3, readme_ok_all _⟩
  obtain ⟨_, n1, a, ha, wa, sa, da⟩ := readme_getitem (m :: ms) ht (.front :: List.replicate ms.length .all) (by simp) hokf
  obtain ⟨_, n2, b, hb, wb, sb, db⟩ := readme_getitem (m :: ms) ht (.back :: List.replicate ms.length .all) (by simp) hokb
  have p1 := readme_processKey_ellipsis ms.length .front
  have p2 := readme_processKey_ellipsis ms.length .back
  have ha' : Tensor.getitem (m :: ms) [ReadmeSl.front.raw, .ellipsis] = .ok (.inl a) := by
    rw [← ha]; simp only [Tensor.getitem, List.length_cons, p1, readme_processKey _ _ (by simp : (ReadmeSl.front :: List.replicate ms.length .all).length = ms.length + 1)]
  have hb' : Tensor.getitem (m :: ms) [ReadmeSl.back.raw, .ellipsis] = .ok (.inl b) := by
    rw [← hb]; simp only [Tensor.getitem, List.length_cons, p2, readme_processKey _ _ (by simp : (ReadmeSl.back :: List.replicate ms.length .all).length = ms.length + 1)]
  have sa' : a.shape = 3 :: Tensor.shape ms := by
    rw [sa, hsh]; simp only [readme_shape, ReadmeSl.count]
    conv_lhs => rw [← hmsl]
    rw [readme_shape_all]
  have sb' : b.shape = 3 :: Tensor.shape ms := by
    rw [sb, hsh]; simp only [readme_shape, ReadmeSl.count]
    conv_lhs => rw [← hmsl]
    rw [readme_shape_all]
  have hs : outShape (groupKey (readme_items (.front :: List.replicate ms.length .all) (Tensor.shape (m :: ms)))) =
      outShape (groupKey (readme_items (.back :: List.replicate ms.length .all) (Tensor.shape (m :: ms)))) := by
    rw [readme_groupKey, readme_groupKey, readme_outShape, readme_outShape, ← sa, ← sb, sa', sb']
  obtain ⟨_, _, s1, _, hh⟩ := readme_loss_tangent_keys f f' (m :: ms) ht _ _ _ _ _ _ p1 n1 p2 n2 a b ha' hb' hs
  refine ⟨a, b, ha', hb', wa, wb, sa', sb', ?_⟩
  rw [hh, ← s1, sa']
  congr 1
  apply boxSum_congr_in_st
  intro is his
  cases is with
  | nil => simp [inShape] at his
  | cons j js =>
    have hl : js.length = ms.length := by
      have := inShape_length _ _ his
      simpa [hmsl] using this
    have hr : readme_src (List.replicate ms.length .all) (Tensor.shape ms) js = js := by
      conv_lhs => rw [← hmsl]
      exact readme_src_all _ _ (by rw [hl, hmsl])
    have e1 : srcIdx (groupKey (readme_items (.front :: List.replicate ms.length .all) (Tensor.shape (m :: ms)))) (j :: js) = j :: js := by
      rw [readme_groupKey, readme_srcIdx _ _ _ (by simp [hsh, hmsl]) (by simp [hl]), hsh]
      simp only [readme_src, ReadmeSl.src, hr]
    have e2 : srcIdx (groupKey (readme_items (.back :: List.replicate ms.length .all) (Tensor.shape (m :: ms)))) (j :: js) =
        (m.n - 3 + j) :: js := by
      rw [readme_groupKey, readme_srcIdx _ _ _ (by simp [hsh, hmsl]) (by simp [hl]), hsh]
      simp only [readme_src, ReadmeSl.src, hr]
    rw [e1, e2]
    simp

end readme2

/-! ## weighted means and variances at dual numbers (constant marginals) -/

section dualmarg
variable {K : Type} [Field K]

/-- **gradient of `tn.mean(t, marginals=…)`** (marginal vectors are constants): value and tangent of the result are
    `Σ_idx v[idx]·W[idx]` and `Σ_idx d[idx]·W[idx]` with `W[idx] = Π_n w_n[idx_n] / Σ w_n` — the weighted mean of the dense tangents -/
theorem mean_marginals_tangent (t : Tensor (Dual K)) (ht : t.WF) (margs : List (Option (Nat × (Nat → K))))
    (hm : margsFit t.shape margs) :
    ∃ μ : Dual K, t.meanMarg (allDims t) (Dual.sdual_constMargs margs) = .ok (.inr μ) ∧
      μ = boxSum t.shape (fun js => t.dense js * Dual.const (margW margs js)) ∧
      μ.v = boxSum t.shape (fun js => (t.dense js).v * margW margs js) ∧
      μ.d = boxSum t.shape (fun js => (t.dense js).d * margW margs js) := by
  have h := mean_marginals_anydiv t ht _ (Dual.sdual_margsFit_const _ _ hm)
  simp only [Dual.sdual_margW_const] at h
  refine ⟨_, h, rfl, ?_, ?_⟩
  · rw [Dual.sdual_boxSum_v]; simp [Dual.const]
  · rw [Dual.sdual_boxSum_d]; simp [Dual.const]

/-- **gradient of `tn.var(t, marginals)`** (marginal vectors are constants): the value is the weighted variance of the dense values,
    the tangent is `Σ_idx 2·(v[idx] − μ_v)·(d[idx] − μ_d)·W[idx]`, the directional derivative of the weighted variance of the dense array -/
theorem var_marginals_tangent (t : Tensor (Dual K)) (ht : t.WF) (margs : List (Nat × (Nat → K))) (hl : margs.length = t.length)
    (hm : margsFit t.shape (margs.map some)) :
    ∃ x : Dual K, t.varMarg (margs.map fun p => (p.1, fun i => Dual.const (p.2 i))) = .ok x ∧
      x.v = boxSum t.shape (fun idx =>
        ((t.dense idx).v - boxSum t.shape (fun js => (t.dense js).v * margW (margs.map some) js)) *
        ((t.dense idx).v - boxSum t.shape (fun js => (t.dense js).v * margW (margs.map some) js)) *
          margW (margs.map some) idx) ∧
      x.d = boxSum t.shape (fun idx =>
        2 * (((t.dense idx).v - boxSum t.shape (fun js => (t.dense js).v * margW (margs.map some) js)) *
             ((t.dense idx).d - boxSum t.shape (fun js => (t.dense js).d * margW (margs.map some) js))) *
          margW (margs.map some) idx) := by
  have hm' := Dual.sdual_margsFit_const _ _ hm
  rw [Dual.sdual_constMargs_some] at hm'
  have h := var_marginals_anydiv t ht (margs.map fun p => (p.1, fun i => Dual.const (p.2 i))) (by simp [hl]) hm'
  rw [← Dual.sdual_constMargs_some] at h
  simp only [Dual.sdual_margW_const] at h
  refine ⟨_, h, ?_, ?_⟩
  · rw [Dual.sdual_boxSum_v]
    simp only [Dual.mul_v, Dual.sub_v, Dual.sdual_boxSum_v, Dual.const]
  · rw [Dual.sdual_boxSum_d]
    simp only [Dual.mul_v, Dual.mul_d, Dual.sub_v, Dual.sub_d, Dual.sdual_boxSum_v, Dual.sdual_boxSum_d, Dual.const,
      mul_zero, zero_add]
    congr 1
    funext idx
    ring

end dualmarg

/-! ### non-vacuity of the hypotheses, and the instances the theorems are about -/
section nonvacuous

/-- a mixed-format 2-mode tensor over dual rationals (TT core with a wider-than-tall Tucker factor, then a CP factor), every entry
    with a non-zero tangent pattern; shape `[2, 2]` -/
def exD : Tensor (Dual ℚ) :=
  [ { core := .tt 1 3 2 (fun _ j b => ⟨(j : ℚ) + b, 1 - j⟩), U := some { rows := 2, cols := 3, f := fun i j => ⟨(i : ℚ) - j, 2⟩ } },
    { core := .cp 2 2 (fun j k => ⟨(j : ℚ) * 2 + k, (k : ℚ) + 1⟩), U := Option.none } ]

theorem exD_wf : exD.WF := by
  simp [exD, Tensor.WF, Tensor.WFfrom, TMode.ok, Core.rl, Core.rr, Core.spatial]
theorem exD_pos : ∀ n ∈ exD.shape, 0 < n := by simp [exD, Tensor.shape, TMode.n]
theorem exD_margs : margsFit exD.shape [some (2, fun i => (i : ℚ) + 1), Option.none] := by
  simp [margsFit, exD, Tensor.shape, TMode.n]
theorem exD_margs2 : margsFit exD.shape
    (([(2, fun i => (i : ℚ) + 1), (2, fun i => 3 - (i : ℚ))] : List (Nat × (Nat → ℚ))).map some) := by
  simp [margsFit, exD, Tensor.shape, TMode.n]

/-- a 2-mode TT tensor over dual rationals of shape `[3, 4]` (every mode has at least 3 entries) -/
def exR : Tensor (Dual ℚ) :=
  [ { core := .tt 1 3 2 (fun _ j b => ⟨(j : ℚ) + b, 1 - j⟩), U := Option.none },
    { core := .tt 2 4 1 (fun a j _ => ⟨(j : ℚ) * 2 - a, (a : ℚ) + j⟩), U := Option.none } ]

theorem exR_wf : exR.WF := by
  simp [exR, Tensor.WF, Tensor.WFfrom, TMode.ok, Core.rl, Core.rr]
theorem exR_3 : ∀ n ∈ exR.shape, 3 ≤ n := by simp [exR, Tensor.shape, TMode.n, Core.spatial]

example : sdual_NatDivLaws ℚ := sdual_natDivLaws_field ℚ
example : sdual_NatDivLaws (Dual ℚ) := Dual.sdual_natDivLaws
example := mean_natdiv (sdual_natDivLaws_field ℚ) C06.exQ C06.exQ_wf C06.exQ_pos
example := meanKeep_natdiv Dual.sdual_natDivLaws exD exD_wf [false, true] rfl rfl
example := mean_subset_natdiv Dual.sdual_natDivLaws exD exD_wf [false, true] rfl rfl rfl
example := var_natdiv Dual.sdual_natDivLaws exD exD_wf exD_pos
example := mean_tangent exD exD_wf exD_pos
example := meanKeep_tangent exD exD_wf [false, true] rfl rfl
example := mean_subset_tangent exD exD_wf [false, true] rfl rfl rfl
example := var_tangent exD exD_wf exD_pos
example := mean_marginals_anydiv exD exD_wf _ (Dual.sdual_margsFit_const _ _ exD_margs)
example := mean_marginals_subset_anydiv exD exD_wf [true, false] _ (Dual.sdual_margsFit_const _ _ exD_margs) rfl rfl
example := mean_marginals_tangent exD exD_wf _ exD_margs
example := var_marginals_tangent exD exD_wf _ rfl exD_margs2
example := norm_tangent (fun x => x * x) (fun x => 2 * x) exD exD_wf
example := dist_tangent (fun x => x * x) (fun x => 2 * x) exD (exD.mul exD) exD_wf
  (C02.mul_wf_shape exD exD exD_wf exD_wf rfl).1 (C02.mul_wf_shape exD exD exD_wf exD_wf rfl).2.symm
example := std_tangent (fun x => x * x) (fun x => 2 * x) exD exD_wf exD_pos
example := readme_loss_tangent (fun x => x * x) (fun x => 2 * x) exR exR_wf exR_3
example := readme_loss_first_mode_tangent (fun x => x * x) (fun x => 2 * x) _ _ exR_wf
  (by simp [TMode.n, Core.spatial])
/-- the hypotheses of `readme_loss_tangent_keys` are satisfiable (here with the README keys on `exR`) -/
example : ∃ a b : Tensor (Dual ℚ), a.WF ∧ b.WF ∧ a.shape = b.shape := by
  obtain ⟨a, b, _, _, wa, wb, sa, sb, _⟩ := readme_loss_tangent (fun x => x) (fun _ => 1) exR exR_wf exR_3
  exact ⟨a, b, wa, wb, by rw [sa, sb]⟩

/-- the theorems above are about the arithmetic the compiled driver runs: `Driver.lean` computes `mean`, `meankeep`, `var` over
    `abbrev Q := TN.Dual Rat` with the instances of Model/Dual.lean over core `Rat`; these are (definitionally) the instances the
    statements elaborate to -/
example (t : Tensor (Dual ℚ)) :
    t.var = @Tensor.var (Dual ℚ) (@Dual.instZero ℚ ⟨0⟩) (@Dual.instOneOfZero ℚ ⟨0⟩ ⟨1⟩) (@Dual.instAdd ℚ Rat.instAdd)
      (@Dual.instMulOfAdd ℚ Rat.instAdd Rat.instMul) (@Dual.instNeg ℚ Rat.instNeg)
      (@Dual.instDivOfAddOfSubOfMul ℚ Rat.instAdd Rat.instSub Rat.instMul Rat.instDiv) t := rfl
example (t : Tensor (Dual ℚ)) (dims : List Bool) :
    t.mean dims = @Tensor.mean (Dual ℚ) (@Dual.instZero ℚ ⟨0⟩) (@Dual.instOneOfZero ℚ ⟨0⟩ ⟨1⟩) (@Dual.instAdd ℚ Rat.instAdd)
      (@Dual.instMulOfAdd ℚ Rat.instAdd Rat.instMul)
      (@Dual.instDivOfAddOfSubOfMul ℚ Rat.instAdd Rat.instSub Rat.instMul Rat.instDiv) t dims := rfl

end nonvacuous

end TN.C07
