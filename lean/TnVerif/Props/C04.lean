import TnVerif.Model.Round
import TnVerif.Lemmas.RankSelect
import TnVerif.Lemmas.RoundTTBridge
import TnVerif.Lemmas.OrthSweep
import TnVerif.Lemmas.Isometry
import TnVerif.Lemmas.RoundTucker
import TnVerif.Lemmas.RoundTuckerEx
import Mathlib.Tactic.IntervalCases
import TnVerif.Generated
import Mathlib.Algebra.Order.Field.Basic
import Mathlib.Tactic.FieldSimp
import Mathlib.Tactic.Ring
import Mathlib.Tactic.Linarith
/-!
# C04 — tolerance-driven recompression: the decision logic and the budget algebra

Proved here (any ordered field): the rank chosen by `truncated_svd` is the **least** rank whose
discarded tail of squared singular values is within the budget, is never below 1, never above
`rmax`, never above the number of singular values; the budget split of `round()` adds up to `eps`.
For TT cores and `algorithm='svd'` the full error bound of the truncation sweep is proved (`roundTT_error_eq`,
`roundTT_within_eps`), given the SVD kernel's contract for every recorded answer.
-/
namespace TN.C04
open TN
variable {K : Type} [Field K] [LinearOrder K] [IsStrictOrderedRing K]

theorem leastRank_spec (S : List K) (d2 : K) : ∀ (fuel r : Nat),
    (r ≤ leastRank S d2 fuel r) ∧ (leastRank S d2 fuel r ≤ r + fuel) ∧
    (∀ k, r ≤ k → k < leastRank S d2 fuel r → ¬ tailSum S k ≤ d2) ∧
    (leastRank S d2 fuel r < r + fuel → tailSum S (leastRank S d2 fuel r) ≤ d2) := TN.leastRank_spec S d2

theorem tailSum_length (S : List K) : ∀ r, S.length ≤ r → tailSum S r = 0 := TN.tailSum_length S

/-- **minimality**: below the selected (uncapped) rank the discarded tail exceeds the budget;
    at it, the tail is within the budget (for a non-negative budget). -/
theorem leastRank_minimal (S : List K) (d2 : K) (hd : 0 ≤ d2) :
    tailSum S (leastRank S d2 S.length 0) ≤ d2 ∧ ∀ k, k < leastRank S d2 S.length 0 → ¬ tailSum S k ≤ d2 :=
  TN.leastRank_minimal S d2 hd

/-- **ranks**: at least 1, at most `rmax` (when `rmax ≥ 1`), at most the number of singular values
    (when there is one) — so rounding never raises a rank above what the SVD has. -/
theorem rankSelect_bounds (S : List K) (d2 : K) (rmax : Nat) :
    1 ≤ rankSelect S d2 rmax ∧ (1 ≤ rmax → rankSelect S d2 rmax ≤ rmax) ∧ (1 ≤ S.length → rankSelect S d2 rmax ≤ S.length) :=
  TN.rankSelect_bounds S d2 rmax

/-- uncapped and with at least one non-discardable value the selected rank is exactly the least one -/
theorem rankSelect_uncapped (S : List K) (d2 : K) (rmax : Nat) (h1 : 1 ≤ leastRank S d2 S.length 0)
    (h2 : leastRank S d2 S.length 0 ≤ rmax) : rankSelect S d2 rmax = leastRank S d2 S.length 0 :=
  TN.rankSelect_uncapped S d2 rmax h1 h2

/-- **budget split of `round()`**: after a TT stage that reached relative error `e1 < eps`, Tucker
    rounding gets `(1+eps)/(1+e1) − 1`; then `(1+e1)(1+e2) = 1+eps`, i.e. the two stages together stay
    within `eps` (errors compose at most multiplicatively: `‖x−z‖ ≤ e1‖x‖ + e2‖y‖ ≤ (e1 + e2(1+e1))‖x‖`). -/
theorem budget_split (eps e1 : K) (h : 0 ≤ e1) : e1 + ((1 + eps) / (1 + e1) - 1) * (1 + e1) = eps := by
  have : (1 + e1) ≠ 0 := by linarith
  field_simp; ring

/-- the remaining budget is non-negative exactly when the first stage stayed within `eps` -/
theorem budget_nonneg (eps e1 : K) (h : 0 ≤ e1) (he : e1 ≤ eps) : 0 ≤ (1 + eps) / (1 + e1) - 1 := by
  have h1 : 0 < 1 + e1 := by linarith
  rw [sub_nonneg, le_div_iff₀ h1]; linarith

/-- constants the model was written against, re-extracted from round.py / tensor.py on every run:
    negative-eigenvalue substitute 1e-8, zero threshold 1e-13 (batch and non-batch branch), the unit of the guarded reciprocal -/
theorem constants_from_source :
    Generated.floats_round_truncated_svd = [(1, 100000000), (1, 10000000000000), (1, 10000000000000), (1, 1)] := rfl

/-! ## the error bound of `round_tt` (TT cores, `algorithm='svd'`)

State entering the sweep (after `orthogonalize(N-1)`): reversed chain `cur :: rest`, `rest` left-orthonormal
(`chainLO`), `cur` = last core.  Kernel answers `as` with contract `SVDokM` for the matrix each was
computed from (`ansOK`; validated per recorded call by the harness).  `roundTTsem` is the executable
sweep the driver runs and the harness compares core-for-core with `Tensor.round_tt`. -/

/-- **exact error**: the squared Frobenius error of the sweep is the sum of the discarded tails of all steps
    (successive truncation errors are mutually orthogonal) -/
theorem roundTT_error_eq (thr d2 : K) (ms : List (Mode K)) (as : List (SVDAns K × Nat)) (cur : Mode K) (rest : List (Mode K))
    (hrev : ms.reverse = cur :: rest) (hlo : chainLO rest) (hrl : cur.rl = topRank rest) (hrr : cur.rr = 1)
    (hok : ansOK thr d2 (cur :: rest) as) :
    boxSum (ms.map (·.n)) (fun is => (dense ms is - dense (roundTTsem thr d2 ms as) is) ^ 2) = sweepErr thr d2 (cur :: rest) as :=
  TN.roundTT_error_eq thr d2 ms as cur rest hrev hlo hrl hrr hok

/-- **the tolerance is honoured**: with `δ² = eps²‖cores[-1]‖²/max(1,N-1)` as `round_tt` computes it, when no step is
    capped by `rmax` (and none takes the absolute-zero special case): `‖T − round_tt(T)‖² ≤ eps²·‖T‖²` -/
theorem roundTT_within_eps (thr eps : K) (ms : List (Mode K)) (as : List (SVDAns K × Nat)) (cur : Mode K) (rest : List (Mode K))
    (hrev : ms.reverse = cur :: rest) (hlo : chainLO rest) (hrl : cur.rl = topRank rest) (hrr : cur.rr = 1)
    (hok : ansOK thr (budget2 eps cur rest.length) (cur :: rest) as)
    (hun : uncapped thr (budget2 eps cur rest.length) (cur :: rest) as) :
    boxSum (ms.map (·.n)) (fun is => (dense ms is - dense (roundTTsem thr (budget2 eps cur rest.length) ms as) is) ^ 2)
      ≤ eps ^ 2 * boxSum (ms.map (·.n)) (fun is => dense ms is ^ 2) :=
  TN.roundTT_within_eps thr eps ms as cur rest hrev hlo hrl hrr hok hun

/-- the budget is measured on the last core: `‖T‖² = ‖cores[-1]‖²` in the state entering the sweep -/
theorem norm_on_last_core (ms : List (Mode K)) (cur : Mode K) (rest : List (Mode K))
    (hrev : ms.reverse = cur :: rest) (hlo : chainLO rest) (hrl : cur.rl = topRank rest) (hrr : cur.rr = 1) :
    boxSum (ms.map (·.n)) (fun is => dense ms is ^ 2) = lastNormSq cur :=
  TN.normsq_dense_eq_last ms cur rest hrev hlo hrl hrr

/-- the ranks produced by the sweep: bond `mu-1` gets exactly the selected rank, which (uncapped) is the least
    rank whose discarded tail fits the budget — "a tensor that admits exactly lower ranks gets them" -/
theorem sweep_rank (thr d2 : K) (cur p : Mode K) (rest : List (Mode K)) (A : SVDAns K) (rmax : Nat) (as : List (SVDAns K × Nat)) :
    (sweepRev thr d2 (cur :: p :: rest) ((A, rmax) :: as)).head?.map (·.rl) = some (stepRank thr d2 A rmax) := by
  simp [sweepRev, roundStep]

/-- non-vacuity: the 2×2 array `diag(3,1)` as a two-core chain, with its SVD, meets every hypothesis -/
example : let p : Mode K := { rl := 1, rr := 2, n := 2, G := fun i _ b => if i = b then 1 else 0 }
    let cur : Mode K := { rl := 2, rr := 1, n := 2, G := fun i a _ => if i = a then (if i = 0 then 3 else 1) else 0 }
    let A : SVDAns K := { n := 2, U := fun a l => if a = l then 1 else 0, S := fun l => if l = 0 then 3 else 1,
                          Vh := fun l i _ => if l = i then 1 else 0 }
    chainLO [p] ∧ cur.rl = topRank [p] ∧ cur.rr = 1 ∧ ansOK (0 : K) 0 [cur, p] [(A, 7)] ∧ uncapped (0 : K) 0 [cur, p] [(A, 7)] := by
  intro p cur A
  refine ⟨⟨rfl, ?_, trivial⟩, rfl, rfl, ⟨⟨?_, ?_, ?_⟩, ?_, ?_, trivial⟩, ?_, trivial⟩
  · intro d hd d' hd'
    simp only [p] at hd hd' ⊢
    interval_cases d <;> interval_cases d' <;> simp [Finset.sum_range_succ]
  · intro a ha i hi b hb
    simp only [cur] at ha hi hb
    interval_cases a <;> interval_cases i <;> interval_cases b <;> simp [cur, A, Finset.sum_range_succ]
  · intro k l hk hl
    simp only [A] at hk hl
    interval_cases k <;> interval_cases l <;> simp [cur, A, Finset.sum_range_succ]
  · intro k l hk hl
    simp only [A] at hk hl
    interval_cases k <;> interval_cases l <;> simp [cur, A, Finset.sum_range_succ]
  · simp [A]
  · simp [A]
  · have h := (leastRank_spec A.sq (0 : K) A.sq.length 0).2.1
    have : A.sq.length = 2 := by simp [SVDAns.sq, A]
    omega

/-- **`round_tt` end to end**: orthogonalisation sweep (QR answers, contract `qrOK`: `Q·R =` left unfolding, `QᵀQ = I`) followed by the
    truncation sweep (SVD answers, contract `ansOK`), for any chain of TT cores with boundary ranks 1:
    `‖T − round_tt(T)‖² ≤ eps²·‖T‖²`.  The hypotheses `chainLO`, `cur.rl = topRank rest` of `roundTT_within_eps` are DERIVED here from
    the QR contracts (`Lemmas/OrthSweep`: the sweep preserves the tensor and leaves every core but the last left-orthonormal). -/
theorem roundTT_end_to_end (thr eps : K) (ms : List (Mode K)) (qrs : List (QRAns K)) (svds : List (SVDAns K × Nat))
    (cur : Mode K) (rest : List (Mode K))
    (hwf : wf 1 ms) (hout : outRank 1 ms = 1) (hlen : qrs.length + 1 = ms.length) (hqr : qrOK ms qrs)
    (hrev : (leftSweep ms qrs).reverse = cur :: rest)
    (hok : ansOK thr (budget2 eps cur rest.length) (cur :: rest) svds)
    (hun : uncapped thr (budget2 eps cur rest.length) (cur :: rest) svds) :
    boxSum (ms.map (·.n)) (fun is => (dense ms is - dense (roundTTsem thr (budget2 eps cur rest.length) (leftSweep ms qrs) svds) is) ^ 2)
      ≤ eps ^ 2 * boxSum (ms.map (·.n)) (fun is => dense ms is ^ 2) :=
  TN.roundTT_end_to_end thr eps ms qrs svds cur rest hwf hout hlen hqr hrev hok hun

/-- **TT-Tucker tensors**: with column-orthonormal Tucker factors (what `factor_orthogonalize` establishes) the truncation sweep, which
    touches the cores only, honours the tolerance on the FULL tensor: error and norm of `(⊗U)·core` are those of the core tensor
    (`Lemmas/Isometry.wprod_gram`: the Tucker operator preserves Frobenius inner products) -/
theorem roundTT_with_factors (thr eps : K) (ms : List (Mode K)) (as : List (SVDAns K × Nat)) (cur : Mode K) (rest : List (Mode K))
    (Ls : List (Nat × (Nat → Nat → K)))
    (hrev : ms.reverse = cur :: rest) (hlo : chainLO rest) (hrl : cur.rl = topRank rest) (hrr : cur.rr = 1)
    (hok : ansOK thr (budget2 eps cur rest.length) (cur :: rest) as)
    (hun : uncapped thr (budget2 eps cur rest.length) (cur :: rest) as)
    (hlen : Ls.length = ms.length) (hcol : ColOrtho Ls (ms.map (·.n))) :
    boxSum (rowsOf Ls) (fun is => (dense (linAll Ls ms) is
        - dense (linAll Ls (roundTTsem thr (budget2 eps cur rest.length) ms as)) is) ^ 2)
      ≤ eps ^ 2 * boxSum (rowsOf Ls) (fun is => dense (linAll Ls ms) is ^ 2) :=
  TN.roundTT_with_factors thr eps ms as cur rest Ls hrev hlo hrl hrr hok hun hlen hcol

/-! ## the error bound of `round_tucker` (`algorithm='svd'`, `dim='all'`, non-batch) and of the combined `round`

Model: `Model/RoundTucker.lean` — one mode = factor + TT core (`TkMode`), the loop body `tuckerStep` = `tkGauge` (QR of the core's mode
unfolding, `R` into the factor) → `tkTrunc` (truncated SVD of the factor, remainder `U_rᵀ·Us[mu]` into the core) → `tkRegauge`
(`right_orthogonalize(mu)`: factor QR + transposed QR, `L` into core `mu-1`), the loop `tuckerSweepRev` on the reversed chain and
`roundTuckerSem` in forward order.  The four kernel answers of every iteration (`TkAns`) are inputs with contracts (`tkOK`:
`TkQRok`, `TkSVDok`, `TkFQok`, `TkRQok`, each stated for the matrix the code hands to the kernel at that point of the sweep).
State entering the loop (after `self.orthogonalize(-1)`): reversed chain `cur :: rest`; every mode of `rest` (core WITH its factor
applied) is left-orthonormal (`chainLO`), which is what `left_orthogonalize(i)` = `factor_orthogonalize(i)` + QR establishes. -/

omit [LinearOrder K] [IsStrictOrderedRing K] in
/-- **one iteration `mu > 0`, exact error identity (Pythagoras)**: let `X` be the (orthonormal) interface of the modes left of `mu` and `Fl`
    ANY later approximation of the part left of the re-gauged mode `mu`.  The squared distance between the current tensor (mode `cur`,
    open right bond) and `Fl ⋅ (new mode mu)` is the discarded tail `Σ_{m ≥ r} S_m²` of the singular values of the matrix the code
    decomposes (`Us[mu] @ R.T`) plus the squared distance of `X·L` to `Fl` measured on the bond to mode `mu-1`: the truncation error of
    this mode is orthogonal to everything later iterations do. -/
theorem roundTucker_step_error (s : List Nat) (X : List Nat → Nat → K) (p cur : TkMode K) (A : TkAns K) (r : Nat)
    (hX : ∀ a, a < cur.core.rl → ∀ a', a' < cur.core.rl → boxSum s (fun x => X x a * X x a') = if a = a' then 1 else 0)
    (hqr : TkQRok cur A.qr) (hsvd : TkSVDok (tkGauge cur A.qr) A.svd) (hr : r ≤ A.svd.n)
    (hfq : TkFQok (tkTrunc (tkGauge cur A.qr) A.svd r) A.fq) (hrq : TkRQok (tkTrunc (tkGauge cur A.qr) A.svd r) A.fq A.rq)
    (Fl : List Nat → Nat → K) :
    (∑ i ∈ Finset.range cur.rows, boxSum s (fun x => ∑ b ∈ Finset.range cur.core.rr,
        ((∑ a ∈ Finset.range cur.core.rl, X x a * cur.toMode.G i a b)
          - ∑ c ∈ Finset.range A.rq.k, Fl x c * (tkRegauge p (tkTrunc (tkGauge cur A.qr) A.svd r) A.fq A.rq).2.toMode.G i c b) ^ 2))
      = (∑ m ∈ Finset.Ico r A.svd.n, A.svd.S m ^ 2)
        + boxSum s (fun x => ∑ c ∈ Finset.range A.rq.k, ((∑ a ∈ Finset.range cur.core.rl, X x a * A.rq.Rm c a) - Fl x c) ^ 2) :=
  TN.tk_step_pythag s X p cur A r hX hqr hsvd hr hfq hrq Fl

omit [LinearOrder K] [IsStrictOrderedRing K] in
/-- **the iteration `mu = 0`** (no re-gauging): the squared distance between the mode and its truncation is exactly the discarded tail -/
theorem roundTucker_last_step_error (s : List Nat) (X : List Nat → Nat → K) (cur : TkMode K) (A : TkAns K) (r : Nat)
    (hX : ∀ a, a < cur.core.rl → ∀ a', a' < cur.core.rl → boxSum s (fun x => X x a * X x a') = if a = a' then 1 else 0)
    (hqr : TkQRok cur A.qr) (hsvd : TkSVDok (tkGauge cur A.qr) A.svd) (hr : r ≤ A.svd.n) :
    (∑ i ∈ Finset.range cur.rows, boxSum s (fun x => ∑ b ∈ Finset.range cur.core.rr,
        ((∑ a ∈ Finset.range cur.core.rl, X x a * cur.toMode.G i a b)
          - ∑ a ∈ Finset.range cur.core.rl, X x a * (tkTrunc (tkGauge cur A.qr) A.svd r).toMode.G i a b) ^ 2))
      = ∑ m ∈ Finset.Ico r A.svd.n, A.svd.S m ^ 2 :=
  TN.tk_last_pythag s X cur A r hX hqr hsvd hr

/-- **exact error of `round_tucker`**: the squared Frobenius error of the whole sweep is the SUM of the discarded tails of the `N` factor
    truncations (`=`, not `≤`: the per-mode errors are mutually orthogonal) -/
theorem roundTucker_error_eq (thr eps : K) (ms : List (TkMode K)) (as : List (TkAns K × Nat)) (cur : TkMode K) (rest : List (TkMode K))
    (hrev : ms.reverse = cur :: rest) (hlo : chainLO (rest.map TkMode.toMode)) (hrl : cur.core.rl = topRank (rest.map TkMode.toMode))
    (hrr : cur.core.rr = 1) (hok : tkOK thr eps ms.length (cur :: rest) as) :
    boxSum (ms.map (·.rows)) (fun is => (dense (ms.map TkMode.toMode) is - dense ((roundTuckerSem thr eps ms as).map TkMode.toMode) is) ^ 2)
      = tkSweepErr thr eps ms.length (cur :: rest) as :=
  TN.roundTucker_error_eq thr eps ms as cur rest hrev hlo hrl hrr hok

/-- the budget `truncated_svd(eps=eps/sqrt(N))` derives from the norm of the FACTOR is `eps²/N` times the squared norm of the CURRENT
    tensor (the core's mode unfolding and both interfaces being orthonormal at that moment) -/
theorem roundTucker_budget_is_norm (eps : K) (nd : Nat) (rest : List (TkMode K)) (cur : TkMode K) (A : QRAns K)
    (hlo : chainLO (rest.map TkMode.toMode)) (hrl : cur.core.rl = topRank (rest.map TkMode.toMode)) (hqr : TkQRok cur A) :
    tkBudget2 eps nd (tkGauge cur A) = eps ^ 2 / (nd : K) * tkNrm ((cur :: rest).map TkMode.toMode) cur.core.rr :=
  TN.tk_budget_norm eps nd rest cur A hlo hrl hqr

/-- **the tolerance is honoured by `round_tucker`**: with the per-mode budget `δ_mu² = eps²·‖Us[mu]‖²/N` the code computes, when no
    iteration is capped by `rmax[mu]` (and none takes the absolute-zero special case): `‖T − round_tucker(T)‖² ≤ eps²·‖T‖²`
    (each tail is `≤ eps²/N·‖T_current‖²`, the current norm never exceeds `‖T‖`, the tails add up by `roundTucker_error_eq`) -/
theorem roundTucker_within_eps (thr eps : K) (ms : List (TkMode K)) (as : List (TkAns K × Nat)) (cur : TkMode K) (rest : List (TkMode K))
    (hrev : ms.reverse = cur :: rest) (hlo : chainLO (rest.map TkMode.toMode)) (hrl : cur.core.rl = topRank (rest.map TkMode.toMode))
    (hrr : cur.core.rr = 1) (hok : tkOK thr eps ms.length (cur :: rest) as) (hun : tkUncapped thr eps ms.length (cur :: rest) as) :
    boxSum (ms.map (·.rows)) (fun is => (dense (ms.map TkMode.toMode) is - dense ((roundTuckerSem thr eps ms as).map TkMode.toMode) is) ^ 2)
      ≤ eps ^ 2 * boxSum (ms.map (·.rows)) (fun is => dense (ms.map TkMode.toMode) is ^ 2) :=
  TN.roundTucker_within_eps thr eps ms as cur rest hrev hlo hrl hrr hok hun

/-- non-vacuity of `roundTucker_error_eq` / `roundTucker_within_eps` / `roundTucker_rank`: the 2×2 array `diag(3,1)` as two TT cores with
    identity factors (`Lemmas/RoundTuckerEx`), `eps = 0`, `rmax = 7`, with the exact answers of the four kernels in both iterations, meets
    every hypothesis -/
example : let ms : List (TkMode K) := [tkExP, tkExCur]
    ms.reverse = tkExCur :: [tkExP] ∧ chainLO ([tkExP (K := K)].map TkMode.toMode) ∧
    (tkExCur (K := K)).core.rl = topRank ([tkExP (K := K)].map TkMode.toMode) ∧ (tkExCur (K := K)).core.rr = 1 ∧
    tkOK (0 : K) 0 ms.length [tkExCur, tkExP] [(tkExA, 7), (tkExA, 7)] ∧
    tkUncapped (0 : K) 0 ms.length [tkExCur, tkExP] [(tkExA, 7), (tkExA, 7)] ∧
    [tkExCur (K := K), tkExP].length ≤ [(tkExA (K := K), 7), (tkExA, 7)].length ∧
    tkShapes (0 : K) 0 ms.length [tkExCur, tkExP] [(tkExA, 7), (tkExA, 7)] :=
  ⟨rfl, tkExLO, rfl, rfl, tkExOK, tkExUncapped, by simp, tkExShapes⟩

/-- with a zero budget (`round()` calls `round_tucker(0, rmax=…)` when the TT stage used up `eps`) an uncapped sweep changes nothing -/
theorem roundTucker_zero_budget (thr : K) (ms : List (TkMode K)) (as : List (TkAns K × Nat)) (cur : TkMode K) (rest : List (TkMode K))
    (hrev : ms.reverse = cur :: rest) (hlo : chainLO (rest.map TkMode.toMode)) (hrl : cur.core.rl = topRank (rest.map TkMode.toMode))
    (hrr : cur.core.rr = 1) (hok : tkOK thr 0 ms.length (cur :: rest) as) (hun : tkUncapped thr 0 ms.length (cur :: rest) as) :
    boxSum (ms.map (·.rows)) (fun is => (dense (ms.map TkMode.toMode) is - dense ((roundTuckerSem thr 0 ms as).map TkMode.toMode) is) ^ 2) = 0 := by
  have h := TN.roundTucker_within_eps thr 0 ms as cur rest hrev hlo hrl hrr hok hun
  have h2 := boxSum_sq_nonneg (ms.map (·.rows))
    (fun is => dense (ms.map TkMode.toMode) is - dense ((roundTuckerSem thr 0 ms as).map TkMode.toMode) is)
  have : (0 : K) ^ 2 * boxSum (ms.map (·.rows)) (fun is => dense (ms.map TkMode.toMode) is ^ 2) = 0 := by ring
  rw [this] at h
  exact le_antisymm h h2

/-- **Tucker ranks never grow and respect `rmax`**: in processing order (`mu = N-1, …, 0`; `tkRankRel` pairs output mode, input mode and
    `rmax[mu]`), every new Tucker rank is `≤` the old one and `≤ rmax[mu]` (when `rmax[mu] ≥ 1`, which `truncated_svd` asserts), given that the
    kernels return reduced factorisations (`tkShapes`: `k = min(rows, cols)`) -/
theorem roundTucker_rank (thr eps : K) (nd : Nat) (as : List (TkAns K × Nat)) (l : List (TkMode K))
    (hlen : l.length ≤ as.length) (hok : tkOK thr eps nd l as) (hsh : tkShapes thr eps nd l as) :
    tkRankRel (tuckerSweepRev thr eps nd l as) l as :=
  TN.tk_sweep_rank thr eps nd as l hlen hok hsh

/-- **`round_tucker` end to end on a TT tensor without Tucker factors**: `orthogonalize(-1)` (QR answers, contract `qrOK`), identity
    factors (`TkMode.ofMode` = `torch.eye`), then the truncation sweep.  The gauge hypotheses of `roundTucker_within_eps` are DERIVED from the
    QR contracts; what remains are the kernel contracts and the "uncapped / not absolutely zero" side conditions. -/
theorem roundTucker_end_to_end (thr eps : K) (ms : List (Mode K)) (qrs : List (QRAns K)) (as : List (TkAns K × Nat))
    (cur : Mode K) (rest : List (Mode K))
    (hwf : wf 1 ms) (hout : outRank 1 ms = 1) (hlen : qrs.length + 1 = ms.length) (hqr : qrOK ms qrs)
    (hrev : (leftSweep ms qrs).reverse = cur :: rest)
    (hok : tkOK thr eps ms.length ((cur :: rest).map TkMode.ofMode) as)
    (hun : tkUncapped thr eps ms.length ((cur :: rest).map TkMode.ofMode) as) :
    boxSum (ms.map (·.n)) (fun is => (dense ms is
        - dense ((roundTuckerSem thr eps ((leftSweep ms qrs).map TkMode.ofMode) as).map TkMode.toMode) is) ^ 2)
      ≤ eps ^ 2 * boxSum (ms.map (·.n)) (fun is => dense ms is ^ 2) :=
  TN.roundTucker_end_to_end thr eps ms qrs as cur rest hwf hout hlen hqr hrev hok hun

/-- non-vacuity of `roundTucker_end_to_end`: the same example starting from the raw cores, with the QR answer of `orthogonalize(-1)` -/
example : let ms : List (Mode K) := [tkExM0, tkExM1]
    wf 1 ms ∧ outRank 1 ms = 1 ∧ [tkExQ (K := K)].length + 1 = ms.length ∧ qrOK ms [tkExQ] ∧
    (leftSweep ms [tkExQ]).reverse = (orthStep tkExM0 tkExM1 tkExQ).2 :: [(orthStep tkExM0 tkExM1 tkExQ).1] ∧
    tkOK (0 : K) 0 ms.length ([(orthStep tkExM0 tkExM1 tkExQ).2, (orthStep tkExM0 tkExM1 tkExQ).1].map TkMode.ofMode) [(tkExA, 7), (tkExA, 7)] ∧
    tkUncapped (0 : K) 0 ms.length ([(orthStep tkExM0 tkExM1 tkExQ).2, (orthStep tkExM0 tkExM1 tkExQ).1].map TkMode.ofMode) [(tkExA, 7), (tkExA, 7)] :=
  ⟨⟨rfl, rfl, trivial⟩, rfl, rfl, tkExQROK, tkExRev, tkExOK, tkExUncapped⟩

/-- **two stages compose within `eps`** (arrays `x` → `y` → `z` on any index box): if the first stage reached relative error `e1 ≤ eps` and
    the second stays within `(1+eps)/(1+e1) − 1` relative to ITS input, then `‖x − z‖² ≤ eps²‖x‖²`
    (triangle inequality + `‖y‖ ≤ (1+e1)‖x‖` + `budget_split`) -/
theorem round_compose (s : List Nat) (x y z : List Nat → K) (eps e1 : K) (h0 : 0 ≤ e1) (h1 : e1 ≤ eps)
    (hxy : boxSum s (fun is => (x is - y is) ^ 2) ≤ e1 ^ 2 * boxSum s (fun is => x is ^ 2))
    (hyz : boxSum s (fun is => (y is - z is) ^ 2) ≤ ((1 + eps) / (1 + e1) - 1) ^ 2 * boxSum s (fun is => y is ^ 2)) :
    boxSum s (fun is => (x is - z is) ^ 2) ≤ eps ^ 2 * boxSum s (fun is => x is ^ 2) :=
  TN.tk_round_combine s x y z eps e1 h0 h1 hxy hyz

/-- **combined rounding `Tensor.round(eps)`** (tensor.py:2193-2208), branch `reached < eps`: `x` is the array before `round_tt`, `ms` the
    state entering the Tucker sweep (the result of `round_tt`, re-orthogonalised), `reached = relative_error(copy, self)` the measured
    error of the TT stage.  Whatever the TT stage did, if `reached ≤ eps` then after `round_tucker((1+eps)/(1+reached) − 1)` the total
    error is within `eps`: `‖x − round(x)‖² ≤ eps²·‖x‖²`. -/
theorem round_within_eps (thr eps reached : K) (x : List Nat → K) (ms : List (TkMode K)) (as : List (TkAns K × Nat))
    (cur : TkMode K) (rest : List (TkMode K))
    (hrev : ms.reverse = cur :: rest) (hlo : chainLO (rest.map TkMode.toMode)) (hrl : cur.core.rl = topRank (rest.map TkMode.toMode))
    (hrr : cur.core.rr = 1) (h0 : 0 ≤ reached) (h1 : reached ≤ eps)
    (hreach : boxSum (ms.map (·.rows)) (fun is => (x is - dense (ms.map TkMode.toMode) is) ^ 2)
      ≤ reached ^ 2 * boxSum (ms.map (·.rows)) (fun is => x is ^ 2))
    (hok : tkOK thr ((1 + eps) / (1 + reached) - 1) ms.length (cur :: rest) as)
    (hun : tkUncapped thr ((1 + eps) / (1 + reached) - 1) ms.length (cur :: rest) as) :
    boxSum (ms.map (·.rows)) (fun is =>
        (x is - dense ((roundTuckerSem thr ((1 + eps) / (1 + reached) - 1) ms as).map TkMode.toMode) is) ^ 2)
      ≤ eps ^ 2 * boxSum (ms.map (·.rows)) (fun is => x is ^ 2) :=
  TN.tk_round_combine (ms.map (·.rows)) x (dense (ms.map TkMode.toMode)) _ eps reached h0 h1 hreach
    (TN.roundTucker_within_eps thr _ ms as cur rest hrev hlo hrl hrr hok hun)

/-- non-vacuity of `round_within_eps`: the example above with `x` = the represented array itself, `reached = 0`, `eps = 0` -/
example : let ms : List (TkMode K) := [tkExP, tkExCur]
    (0 : K) ≤ 0 ∧ (0 : K) ≤ 0 ∧
    boxSum (ms.map (·.rows)) (fun is => (dense (ms.map TkMode.toMode) is - dense (ms.map TkMode.toMode) is) ^ 2)
      ≤ (0 : K) ^ 2 * boxSum (ms.map (·.rows)) (fun is => dense (ms.map TkMode.toMode) is ^ 2) ∧
    tkOK (0 : K) ((1 + 0) / (1 + 0) - 1) ms.length [tkExCur, tkExP] [(tkExA, 7), (tkExA, 7)] ∧
    tkUncapped (0 : K) ((1 + 0) / (1 + 0) - 1) ms.length [tkExCur, tkExP] [(tkExA, 7), (tkExA, 7)] := by
  intro ms
  have e : ((1 + 0) / (1 + 0) - 1 : K) = 0 := by norm_num
  rw [e]
  refine ⟨le_refl _, le_refl _, ?_, tkExOK, tkExUncapped⟩
  simp only [sub_self, ne_eq, OfNat.ofNat_ne_zero, not_false_eq_true, zero_pow, zero_mul]
  rw [boxSum_zero]

/-- the other branch of `round` (`reached ≥ eps`, no `rmax`): nothing more is done, and the TT stage alone is within `eps` by
    `roundTT_within_eps`; with `rmax` the Tucker sweep runs with budget 0 and (uncapped) changes nothing: `roundTucker_zero_budget`. -/
theorem round_tt_stage_only (thr eps : K) (ms : List (Mode K)) (as : List (SVDAns K × Nat)) (cur : Mode K) (rest : List (Mode K))
    (hrev : ms.reverse = cur :: rest) (hlo : chainLO rest) (hrl : cur.rl = topRank rest) (hrr : cur.rr = 1)
    (hok : ansOK thr (budget2 eps cur rest.length) (cur :: rest) as)
    (hun : uncapped thr (budget2 eps cur rest.length) (cur :: rest) as) :
    boxSum (ms.map (·.n)) (fun is => (dense ms is - dense (roundTTsem thr (budget2 eps cur rest.length) ms as) is) ^ 2)
      ≤ eps ^ 2 * boxSum (ms.map (·.n)) (fun is => dense ms is ^ 2) :=
  TN.roundTT_within_eps thr eps ms as cur rest hrev hlo hrl hrr hok hun

-- NOT YET PROVED (full statements):
--  * the same bound for `algorithm='eig'` (Gram-matrix path: needs the eigh contract and the 1e-8 substitution), for `round_tt` and
--    for `round_tucker`; `round_tucker` with `algorithm='svd'`, `dim='all'`, non-batch is PROVED above (`roundTucker_error_eq`,
--    `roundTucker_within_eps`, `roundTucker_rank`, `roundTucker_end_to_end`, `round_within_eps`);
--  * `round_tucker` on a tensor that enters with Tucker factors: the theorems take the state after `orthogonalize(-1)` with the gauge
--    hypothesis `chainLO` on the modes-with-factors (what `left_orthogonalize` = `factor_orthogonalize` + QR establishes); deriving that
--    gauge from QR contracts is done for factor-free inputs only (`roundTucker_end_to_end`); `dim=` a proper subset and `batch=True` are
--    not modelled (with `dim` a subset the code still truncates ALL modes with the budget `eps/sqrt(len(dim))`, so `N·eps²/len(dim) > eps²`);
--  * the `rmax`-capped clause "error equals the tails" is `roundTT_error_eq` (proved); a bound in terms of the ORIGINAL
--    tensor's unfolding singular values needs Eckart–Young, absent from Mathlib;
--  * the absolute-zero special case (`S[0] < 1e-13`) is excluded by `ansOK`; on the real code it is the recorded
--    tiny-norm known finding;
--  * the correspondence replays pure-TT tensors (QR + SVD answers); for TT-Tucker inputs `roundTT_with_factors` applies to
--    the state after factor orthogonalisation, whose replay (factor QR sign gauge) is not modelled — the oracle covers it.

end TN.C04
