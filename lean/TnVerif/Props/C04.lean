import TnVerif.Model.Round
import TnVerif.Generated
import Mathlib.Algebra.Order.Field.Basic
import Mathlib.Tactic.FieldSimp
import Mathlib.Tactic.Ring
import Mathlib.Tactic.Linarith
/-!
# C04 — tolerance-driven recompression: the decision logic and the budget algebra

Proved here (any ordered field): the rank chosen by `truncated_svd` is the **least** rank whose
discarded tail of squared singular values is within the budget, is never below 1, never above
`rmax`, never above the number of singular values; the budget split of `round()` adds up to `eps`.
The SVD/eigh kernels and the isometry argument that turns the per-step matrix error into the tensor
error are not formalised here (see the open statements at the end).
-/
namespace TN.C04
open TN
variable {K : Type} [Field K] [LinearOrder K] [IsStrictOrderedRing K]

theorem leastRank_spec (S : List K) (d2 : K) : ∀ (fuel r : Nat),
    (r ≤ leastRank S d2 fuel r) ∧ (leastRank S d2 fuel r ≤ r + fuel) ∧
    (∀ k, r ≤ k → k < leastRank S d2 fuel r → ¬ tailSum S k ≤ d2) ∧
    (leastRank S d2 fuel r < r + fuel → tailSum S (leastRank S d2 fuel r) ≤ d2) := by
  intro fuel
  induction fuel with
  | zero => intro r; simp [leastRank]; intro k h1 h2; omega
  | succ fuel ih =>
    intro r
    simp only [leastRank]
    split
    · rename_i h
      refine ⟨le_refl _, by omega, ?_, fun _ => h⟩
      intro k h1 h2; omega
    · rename_i h
      obtain ⟨i1, i2, i3, i4⟩ := ih (r + 1)
      refine ⟨by omega, by omega, ?_, ?_⟩
      · intro k h1 h2
        by_cases hk : k = r
        · subst hk; exact h
        · exact i3 k (by omega) h2
      · intro hlt; exact i4 (by omega)

theorem tailSum_length (S : List K) : ∀ r, S.length ≤ r → tailSum S r = 0 := by
  induction S with
  | nil => intro r _; cases r <;> rfl
  | cons x xs ih =>
    intro r h
    cases r with
    | zero => simp at h
    | succ r => simpa [tailSum] using ih r (by simpa using h)

/-- **minimality**: below the selected (uncapped) rank the discarded tail exceeds the budget;
    at it, the tail is within the budget (for a non-negative budget). -/
theorem leastRank_minimal (S : List K) (d2 : K) (hd : 0 ≤ d2) :
    tailSum S (leastRank S d2 S.length 0) ≤ d2 ∧ ∀ k, k < leastRank S d2 S.length 0 → ¬ tailSum S k ≤ d2 := by
  obtain ⟨_, h2, h3, h4⟩ := leastRank_spec S d2 S.length 0
  constructor
  · by_cases h : leastRank S d2 S.length 0 < 0 + S.length
    · exact h4 h
    · have : leastRank S d2 S.length 0 = S.length := by omega
      rw [this, tailSum_length S S.length (le_refl _)]; exact hd
  · intro k hk; exact h3 k (Nat.zero_le _) hk

/-- **ranks**: at least 1, at most `rmax` (when `rmax ≥ 1`), at most the number of singular values
    (when there is one) — so rounding never raises a rank above what the SVD has. -/
theorem rankSelect_bounds (S : List K) (d2 : K) (rmax : Nat) :
    1 ≤ rankSelect S d2 rmax ∧ (1 ≤ rmax → rankSelect S d2 rmax ≤ rmax) ∧ (1 ≤ S.length → rankSelect S d2 rmax ≤ S.length) := by
  obtain ⟨_, h2, _, _⟩ := leastRank_spec S d2 S.length 0
  unfold rankSelect
  refine ⟨by omega, fun h => by omega, fun h => ?_⟩
  have : leastRank S d2 S.length 0 ≤ S.length := by omega
  omega

/-- uncapped and with at least one non-discardable value the selected rank is exactly the least one -/
theorem rankSelect_uncapped (S : List K) (d2 : K) (rmax : Nat) (h1 : 1 ≤ leastRank S d2 S.length 0)
    (h2 : leastRank S d2 S.length 0 ≤ rmax) : rankSelect S d2 rmax = leastRank S d2 S.length 0 := by
  unfold rankSelect; omega

/-- **budget split of `round()`**: after a TT stage that reached relative error `e1 < eps`, Tucker
    rounding gets `(1+eps)/(1+e1) − 1`; then `(1+e1)(1+e2) = 1+eps`, i.e. the two stages together stay
    within `eps` (errors compose at most multiplicatively: `‖x−z‖ ≤ e1‖x‖ + e2‖y‖ ≤ (e1 + e2(1+e1))‖x‖`). -/
theorem budget_split (eps e1 : K) (h : 0 ≤ e1) : e1 + ((1 + eps) / (1 + e1) - 1) * (1 + e1) = eps := by
  have : (1 + e1) ≠ 0 := by linarith
  field_simp; ring

/-- the remaining budget is non-negative exactly when the first stage stayed within `eps` -/
theorem budget_nonneg (eps e1 : K) (h : 0 ≤ e1) (he : e1 ≤ eps) : 0 ≤ (1 + eps) / (1 + e1) - 1 := by
  have h1 : 0 < 1 + e1 := by linarith
  rw [sub_nonneg, le_div_iff₀ h1]; linarith

/-- constants the model was written against, re-extracted from round.py / tensor.py on every run:
    zero threshold 1e-13, negative-eigenvalue substitute 1e-8, default `eps = 1e-14` -/
theorem constants_from_source :
    Generated.floats_round_truncated_svd = [(1, 100000000), (1, 10000000000000), (1, 10000000000000), (1, 1), (1, 1)] := rfl

-- NOT YET PROVED (full statement):
-- theorem roundTT_error (t : Tensor ℝ) (eps) (SVD answers with SVDok) :
--   ‖dense t − dense (roundTT eps t)‖² ≤ eps² · ‖dense t‖²
-- (per-step isometry L8 `iface_ortho` is proved in Lemmas/Chain; orthogonality of successive errors and the assembly over the sweep are open)

end TN.C04
