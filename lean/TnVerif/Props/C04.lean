import TnVerif.Model.Round
import TnVerif.Lemmas.RankSelect
import TnVerif.Lemmas.RoundTTBridge
import TnVerif.Lemmas.OrthSweep
import TnVerif.Lemmas.Isometry
import Mathlib.Tactic.IntervalCases
import TnVerif.Generated
import Mathlib.Algebra.Order.Field.Basic
import Mathlib.Tactic.FieldSimp
import Mathlib.Tactic.Ring
import Mathlib.Tactic.Linarith
/-!
# C04 — tolerance-driven recompression: the decision logic and the budget algebra

Proved here (any ordered field): the rank chosen by `truncated_svd` is the **least** rank whose
discarded tail of squared singular values is within the budget, is never below 1, never above
`rmax`, never above the number of singular values; the budget split of `round()` adds up to `eps`.
For TT cores and `algorithm='svd'` the full error bound of the truncation sweep is proved (`roundTT_error_eq`,
`roundTT_within_eps`), given the SVD kernel's contract for every recorded answer.
-/
namespace TN.C04
open TN
variable {K : Type} [Field K] [LinearOrder K] [IsStrictOrderedRing K]

theorem leastRank_spec (S : List K) (d2 : K) : ∀ (fuel r : Nat),
    (r ≤ leastRank S d2 fuel r) ∧ (leastRank S d2 fuel r ≤ r + fuel) ∧
    (∀ k, r ≤ k → k < leastRank S d2 fuel r → ¬ tailSum S k ≤ d2) ∧
    (leastRank S d2 fuel r < r + fuel → tailSum S (leastRank S d2 fuel r) ≤ d2) := TN.leastRank_spec S d2

theorem tailSum_length (S : List K) : ∀ r, S.length ≤ r → tailSum S r = 0 := TN.tailSum_length S

/-- **minimality**: below the selected (uncapped) rank the discarded tail exceeds the budget;
    at it, the tail is within the budget (for a non-negative budget). -/
theorem leastRank_minimal (S : List K) (d2 : K) (hd : 0 ≤ d2) :
    tailSum S (leastRank S d2 S.length 0) ≤ d2 ∧ ∀ k, k < leastRank S d2 S.length 0 → ¬ tailSum S k ≤ d2 :=
  TN.leastRank_minimal S d2 hd

/-- **ranks**: at least 1, at most `rmax` (when `rmax ≥ 1`), at most the number of singular values
    (when there is one) — so rounding never raises a rank above what the SVD has. -/
theorem rankSelect_bounds (S : List K) (d2 : K) (rmax : Nat) :
    1 ≤ rankSelect S d2 rmax ∧ (1 ≤ rmax → rankSelect S d2 rmax ≤ rmax) ∧ (1 ≤ S.length → rankSelect S d2 rmax ≤ S.length) :=
  TN.rankSelect_bounds S d2 rmax

/-- uncapped and with at least one non-discardable value the selected rank is exactly the least one -/
theorem rankSelect_uncapped (S : List K) (d2 : K) (rmax : Nat) (h1 : 1 ≤ leastRank S d2 S.length 0)
    (h2 : leastRank S d2 S.length 0 ≤ rmax) : rankSelect S d2 rmax = leastRank S d2 S.length 0 :=
  TN.rankSelect_uncapped S d2 rmax h1 h2

/-- **budget split of `round()`**: after a TT stage that reached relative error `e1 < eps`, Tucker
    rounding gets `(1+eps)/(1+e1) − 1`; then `(1+e1)(1+e2) = 1+eps`, i.e. the two stages together stay
    within `eps` (errors compose at most multiplicatively: `‖x−z‖ ≤ e1‖x‖ + e2‖y‖ ≤ (e1 + e2(1+e1))‖x‖`). -/
theorem budget_split (eps e1 : K) (h : 0 ≤ e1) : e1 + ((1 + eps) / (1 + e1) - 1) * (1 + e1) = eps := by
  have : (1 + e1) ≠ 0 := by linarith
  field_simp; ring

/-- the remaining budget is non-negative exactly when the first stage stayed within `eps` -/
theorem budget_nonneg (eps e1 : K) (h : 0 ≤ e1) (he : e1 ≤ eps) : 0 ≤ (1 + eps) / (1 + e1) - 1 := by
  have h1 : 0 < 1 + e1 := by linarith
  rw [sub_nonneg, le_div_iff₀ h1]; linarith

/-- constants the model was written against, re-extracted from round.py / tensor.py on every run:
    negative-eigenvalue substitute 1e-8, zero threshold 1e-13 (batch and non-batch branch), the unit of the guarded reciprocal -/
theorem constants_from_source :
    Generated.floats_round_truncated_svd = [(1, 100000000), (1, 10000000000000), (1, 10000000000000), (1, 1)] := rfl

/-! ## the error bound of `round_tt` (TT cores, `algorithm='svd'`)

State entering the sweep (after `orthogonalize(N-1)`): reversed chain `cur :: rest`, `rest` left-orthonormal
(`chainLO`), `cur` = last core.  Kernel answers `as` with contract `SVDokM` for the matrix each was
computed from (`ansOK`; validated per recorded call by the harness).  `roundTTsem` is the executable
sweep the driver runs and the harness compares core-for-core with `Tensor.round_tt`. -/

/-- **exact error**: the squared Frobenius error of the sweep is the sum of the discarded tails of all steps
    (successive truncation errors are mutually orthogonal) -/
theorem roundTT_error_eq (thr d2 : K) (ms : List (Mode K)) (as : List (SVDAns K × Nat)) (cur : Mode K) (rest : List (Mode K))
    (hrev : ms.reverse = cur :: rest) (hlo : chainLO rest) (hrl : cur.rl = topRank rest) (hrr : cur.rr = 1)
    (hok : ansOK thr d2 (cur :: rest) as) :
    boxSum (ms.map (·.n)) (fun is => (dense ms is - dense (roundTTsem thr d2 ms as) is) ^ 2) = sweepErr thr d2 (cur :: rest) as :=
  TN.roundTT_error_eq thr d2 ms as cur rest hrev hlo hrl hrr hok

/-- **the tolerance is honoured**: with `δ² = eps²‖cores[-1]‖²/max(1,N-1)` as `round_tt` computes it, when no step is
    capped by `rmax` (and none takes the absolute-zero special case): `‖T − round_tt(T)‖² ≤ eps²·‖T‖²` -/
theorem roundTT_within_eps (thr eps : K) (ms : List (Mode K)) (as : List (SVDAns K × Nat)) (cur : Mode K) (rest : List (Mode K))
    (hrev : ms.reverse = cur :: rest) (hlo : chainLO rest) (hrl : cur.rl = topRank rest) (hrr : cur.rr = 1)
    (hok : ansOK thr (budget2 eps cur rest.length) (cur :: rest) as)
    (hun : uncapped thr (budget2 eps cur rest.length) (cur :: rest) as) :
    boxSum (ms.map (·.n)) (fun is => (dense ms is - dense (roundTTsem thr (budget2 eps cur rest.length) ms as) is) ^ 2)
      ≤ eps ^ 2 * boxSum (ms.map (·.n)) (fun is => dense ms is ^ 2) :=
  TN.roundTT_within_eps thr eps ms as cur rest hrev hlo hrl hrr hok hun

/-- the budget is measured on the last core: `‖T‖² = ‖cores[-1]‖²` in the state entering the sweep -/
theorem norm_on_last_core (ms : List (Mode K)) (cur : Mode K) (rest : List (Mode K))
    (hrev : ms.reverse = cur :: rest) (hlo : chainLO rest) (hrl : cur.rl = topRank rest) (hrr : cur.rr = 1) :
    boxSum (ms.map (·.n)) (fun is => dense ms is ^ 2) = lastNormSq cur :=
  TN.normsq_dense_eq_last ms cur rest hrev hlo hrl hrr

/-- the ranks produced by the sweep: bond `mu-1` gets exactly the selected rank, which (uncapped) is the least
    rank whose discarded tail fits the budget — "a tensor that admits exactly lower ranks gets them" -/
theorem sweep_rank (thr d2 : K) (cur p : Mode K) (rest : List (Mode K)) (A : SVDAns K) (rmax : Nat) (as : List (SVDAns K × Nat)) :
    (sweepRev thr d2 (cur :: p :: rest) ((A, rmax) :: as)).head?.map (·.rl) = some (stepRank thr d2 A rmax) := by
  simp [sweepRev, roundStep]

/-- non-vacuity: the 2×2 array `diag(3,1)` as a two-core chain, with its SVD, meets every hypothesis -/
example : let p : Mode K := { rl := 1, rr := 2, n := 2, G := fun i _ b => if i = b then 1 else 0 }
    let cur : Mode K := { rl := 2, rr := 1, n := 2, G := fun i a _ => if i = a then (if i = 0 then 3 else 1) else 0 }
    let A : SVDAns K := { n := 2, U := fun a l => if a = l then 1 else 0, S := fun l => if l = 0 then 3 else 1,
                          Vh := fun l i _ => if l = i then 1 else 0 }
    chainLO [p] ∧ cur.rl = topRank [p] ∧ cur.rr = 1 ∧ ansOK (0 : K) 0 [cur, p] [(A, 7)] ∧ uncapped (0 : K) 0 [cur, p] [(A, 7)] := by
  intro p cur A
  refine ⟨⟨rfl, ?_, trivial⟩, rfl, rfl, ⟨⟨?_, ?_, ?_⟩, ?_, ?_, trivial⟩, ?_, trivial⟩
  · intro d hd d' hd'
    simp only [p] at hd hd' ⊢
    interval_cases d <;> interval_cases d' <;> simp [Finset.sum_range_succ]
  · intro a ha i hi b hb
    simp only [cur] at ha hi hb
    interval_cases a <;> interval_cases i <;> interval_cases b <;> simp [cur, A, Finset.sum_range_succ]
  · intro k l hk hl
    simp only [A] at hk hl
    interval_cases k <;> interval_cases l <;> simp [cur, A, Finset.sum_range_succ]
  · intro k l hk hl
    simp only [A] at hk hl
    interval_cases k <;> interval_cases l <;> simp [cur, A, Finset.sum_range_succ]
  · simp [A]
  · simp [A]
  · have h := (leastRank_spec A.sq (0 : K) A.sq.length 0).2.1
    have : A.sq.length = 2 := by simp [SVDAns.sq, A]
    omega

/-- **`round_tt` end to end**: orthogonalisation sweep (QR answers, contract `qrOK`: `Q·R =` left unfolding, `QᵀQ = I`) followed by the
    truncation sweep (SVD answers, contract `ansOK`), for any chain of TT cores with boundary ranks 1:
    `‖T − round_tt(T)‖² ≤ eps²·‖T‖²`.  The hypotheses `chainLO`, `cur.rl = topRank rest` of `roundTT_within_eps` are DERIVED here from
    the QR contracts (`Lemmas/OrthSweep`: the sweep preserves the tensor and leaves every core but the last left-orthonormal). -/
theorem roundTT_end_to_end (thr eps : K) (ms : List (Mode K)) (qrs : List (QRAns K)) (svds : List (SVDAns K × Nat))
    (cur : Mode K) (rest : List (Mode K))
    (hwf : wf 1 ms) (hout : outRank 1 ms = 1) (hlen : qrs.length + 1 = ms.length) (hqr : qrOK ms qrs)
    (hrev : (leftSweep ms qrs).reverse = cur :: rest)
    (hok : ansOK thr (budget2 eps cur rest.length) (cur :: rest) svds)
    (hun : uncapped thr (budget2 eps cur rest.length) (cur :: rest) svds) :
    boxSum (ms.map (·.n)) (fun is => (dense ms is - dense (roundTTsem thr (budget2 eps cur rest.length) (leftSweep ms qrs) svds) is) ^ 2)
      ≤ eps ^ 2 * boxSum (ms.map (·.n)) (fun is => dense ms is ^ 2) :=
  TN.roundTT_end_to_end thr eps ms qrs svds cur rest hwf hout hlen hqr hrev hok hun

/-- **TT-Tucker tensors**: with column-orthonormal Tucker factors (what `factor_orthogonalize` establishes) the truncation sweep, which
    touches the cores only, honours the tolerance on the FULL tensor: error and norm of `(⊗U)·core` are those of the core tensor
    (`Lemmas/Isometry.wprod_gram`: the Tucker operator preserves Frobenius inner products) -/
theorem roundTT_with_factors (thr eps : K) (ms : List (Mode K)) (as : List (SVDAns K × Nat)) (cur : Mode K) (rest : List (Mode K))
    (Ls : List (Nat × (Nat → Nat → K)))
    (hrev : ms.reverse = cur :: rest) (hlo : chainLO rest) (hrl : cur.rl = topRank rest) (hrr : cur.rr = 1)
    (hok : ansOK thr (budget2 eps cur rest.length) (cur :: rest) as)
    (hun : uncapped thr (budget2 eps cur rest.length) (cur :: rest) as)
    (hlen : Ls.length = ms.length) (hcol : ColOrtho Ls (ms.map (·.n))) :
    boxSum (rowsOf Ls) (fun is => (dense (linAll Ls ms) is
        - dense (linAll Ls (roundTTsem thr (budget2 eps cur rest.length) ms as)) is) ^ 2)
      ≤ eps ^ 2 * boxSum (rowsOf Ls) (fun is => dense (linAll Ls ms) is ^ 2) :=
  TN.roundTT_with_factors thr eps ms as cur rest Ls hrev hlo hrl hrr hok hun hlen hcol

-- NOT YET PROVED (full statements):
--  * the same bound for `algorithm='eig'` (Gram-matrix path: needs the eigh contract and the 1e-8 substitution) and for
--    `round_tucker` (per-mode truncations of the factors; same Pythagoras argument on the mode unfoldings);
--  * the `rmax`-capped clause "error equals the tails" is `roundTT_error_eq` (proved); a bound in terms of the ORIGINAL
--    tensor's unfolding singular values needs Eckart–Young, absent from Mathlib;
--  * the absolute-zero special case (`S[0] < 1e-13`) is excluded by `ansOK`; on the real code it is the recorded
--    tiny-norm known finding;
--  * the correspondence replays pure-TT tensors (QR + SVD answers); for TT-Tucker inputs `roundTT_with_factors` applies to
--    the state after factor orthogonalisation, whose replay (factor QR sign gauge) is not modelled — the oracle covers it.

end TN.C04
