import TnVerif.Model.Heap
/-!
# C14 — value semantics: operations never disturb operands or other tensors

Frame theorem of the heap machine: if every operation of a history is `Safe` (it writes in place only
storages that no live object other than its receiver reaches), then along the whole history every
live object other than the receiver of the current in-place method keeps its value.  Which effect
each API operation has is *measured* on the implementation (storage pointers and byte hashes around
every call) and checked against `Safe` on every run.
-/
namespace TN.C14
open TN
variable {V : Type}

theorem writeMem_not_mem (mem : StorId → V) (ws : List (StorId × V)) (s : StorId) (h : ∀ w ∈ ws, w.1 ≠ s) :
    writeMem mem ws s = mem s := by
  induction ws with
  | nil => rfl
  | cons w ws ih =>
    obtain ⟨a, v⟩ := w
    have h1 : s ≠ a := fun e => h (a, v) List.mem_cons_self e.symm
    simp only [writeMem, h1, if_false]
    exact ih (fun w hw => h w (List.mem_cons_of_mem _ hw))

/-- **frame rule**: a safe operation leaves the value of every live object other than its receiver unchanged -/
theorem step_preserves (h : Heap V) (e : Effect V) (hs : Safe h e) (o : ObjId) (ho : o ∈ h.live) (hr : some o ≠ e.receiver) :
    (h.step e).value o = h.value o := by
  have hfresh : ∀ n r, e.newObj = some (n, r) → o ≠ n := by
    intro n r hn heq
    exact hs.2 n r hn (heq ▸ ho)
  have hreach : (h.step e).reach o = h.reach o := by
    simp only [Heap.step]
    cases hn : e.newObj with
    | none => simp [hr]
    | some p =>
      obtain ⟨n, r⟩ := p
      simp [hfresh n r hn, hr]
  simp only [Heap.value, hreach]
  apply List.map_congr_left
  intro s hsm
  simp only [Heap.step]
  apply writeMem_not_mem
  intro w hw heq
  exact hs.1 w hw o ho hr (heq ▸ hsm)

/-- run a history of effects -/
def run (h : Heap V) : List (Effect V) → Heap V
  | [] => h
  | e :: es => run (h.step e) es

/-- objects stay live -/
theorem live_step (h : Heap V) (e : Effect V) (o : ObjId) (ho : o ∈ h.live) : o ∈ (h.step e).live := by
  simp only [Heap.step]
  cases e.newObj with
  | none => exact ho
  | some p => exact List.mem_cons_of_mem _ ho

/-- every step of the history is safe in the state it is applied to -/
def AllSafe : Heap V → List (Effect V) → Prop
  | _, [] => True
  | h, e :: es => Safe h e ∧ AllSafe (h.step e) es

/-- **histories**: after any finite sequence of safe operations, an object that was never the receiver of
    an in-place method has the value it had at the start — whatever was derived from it in between -/
theorem history_preserves (es : List (Effect V)) : ∀ (h : Heap V) (o : ObjId), o ∈ h.live → AllSafe h es →
    (∀ e ∈ es, some o ≠ e.receiver) → (run h es).value o = h.value o := by
  induction es with
  | nil => intro h o _ _ _; rfl
  | cons e es ih =>
    intro h o ho hs hr
    simp only [run]
    rw [ih (h.step e) o (live_step h e o ho) hs.2 (fun e' he' => hr e' (List.mem_cons_of_mem _ he'))]
    exact step_preserves h e hs.1 o ho (hr e List.mem_cons_self)

/-- an unsafe effect does change another object: the pre-fix `sobol` normalised a caller-owned
    marginal vector in place (storage 0 is reachable from the caller's array, object 7, not the receiver) -/
theorem unsafe_witness :
    let h : Heap Nat := { mem := fun _ => 3, reach := fun o => if o = 7 then [0] else [], live := [7] }
    let e : Effect Nat := { receiver := none, writes := [(0, 1)], newObj := none, recvReach := none }
    ¬ Safe h e ∧ (h.step e).value 7 ≠ h.value 7 := by
  constructor
  · intro hs
    exact hs.1 (0, 1) (by simp) 7 (by simp) (by simp) (by simp)
  · simp [Heap.value, Heap.step, writeMem]

end TN.C14
