import TnVerif.Lemmas.Tools
import TnVerif.Model.Deriv
/-!
# C20 — finite-difference calculus on compressed tensors matches the dense stencil

`tn.partial` along mode `d` is `linModes` with the stencil matrix on that mode (and nothing on the
others), so by L1 the compressed derivative decompresses to the stencil applied to the dense array
along `d`; `c = 1/step` with the step of mode `d` itself.
-/
namespace TN.C20
open TN Finset
variable {R : Type}

section
variable [CommRing R]

/-- replace position `d` of an index list -/
def setAt : List Nat → Nat → Nat → List Nat
  | [], _, _ => []
  | _ :: is, 0, j => j :: is
  | i :: is, d + 1, j => i :: setAt is d j

/-- a matrix on mode `d` only: the array is transformed along `d`, all other indices are untouched -/
theorem applyMaps_single (L : Nat → Nat → R) (rows : Nat) : ∀ (N d : Nat) (ns is : List Nat) (f : List Nat → R),
    d < N → ns.length = N → is.length = N →
    applyMaps ((List.range' 0 N).map fun k => if k = d then some (rows, L) else Option.none) ns f is =
      ∑ j ∈ range (ns.getD d 0), L (is.getD d 0) j * f (setAt is d j) := by
  intro N
  suffices h : ∀ (off d : Nat) (ns is : List Nat) (f : List Nat → R), d < N → ns.length = N → is.length = N →
      applyMaps ((List.range' off N).map fun k => if k = off + d then some (rows, L) else Option.none) ns f is =
        ∑ j ∈ range (ns.getD d 0), L (is.getD d 0) j * f (setAt is d j) by
    intro d ns is f hd hn hi
    simpa using h 0 d ns is f hd hn hi
  induction N with
  | zero => intro off d ns is f hd; omega
  | succ N ih =>
    intro off d ns is f hd hn hi
    cases ns with
    | nil => simp at hn
    | cons n ns =>
      cases is with
      | nil => simp at hi
      | cons i is =>
        cases d with
        | zero =>
          simp only [List.range'_succ, List.map_cons, Nat.add_zero, if_true, applyMaps, List.getD_cons_zero, setAt]
          apply Finset.sum_congr rfl; intro j _
          congr 1
          -- the remaining modes carry no map
          have : ∀ (M o : Nat) (ms js : List Nat) (g : List Nat → R), off < o →
              applyMaps ((List.range' o M).map fun k => if k = off then some (rows, L) else Option.none) ms g js = g js := by
            intro M
            induction M with
            | zero => intro o ms js g _; simp [applyMaps]
            | succ M ihM =>
              intro o ms js g ho
              have hne : ¬ o = off := by omega
              cases ms with
              | nil => simp [List.range'_succ, hne, applyMaps]
              | cons m ms =>
                cases js with
                | nil => simp [List.range'_succ, hne, applyMaps]
                | cons j' js =>
                  simp only [List.range'_succ, List.map_cons, hne, if_false, applyMaps]
                  exact ihM (o + 1) ms js _ (by omega)
          exact this N (off + 1) ns is _ (by omega)
        | succ d =>
          have hne : ¬ off = off + (d + 1) := by omega
          simp only [List.range'_succ, List.map_cons, hne, if_false, applyMaps, List.getD_cons_succ, setAt]
          have := ih (off + 1) d ns is (fun js => f (i :: js)) (by omega) (by simpa using hn) (by simpa using hi)
          rw [show off + (d + 1) = off + 1 + d by omega]
          exact this

/-- **the compressed partial derivative is the dense stencil**: every entry of `partial(t, d)` is the
    stencil row of its own index along `d` applied to the fibre of the dense array through that index -/
theorem partial1_dense (t : Tensor R) (d : Nat) (c : R) (per : Bool) (idx : List Nat) (hd : d < t.length)
    (hi : idx.length = t.length) :
    (t.partial1 d c per).dense idx =
      ∑ j ∈ range (t.shape.getD d 0), stencilL (t.shape.getD d 0) c per (idx.getD d 0) j * t.dense (setAt idx d j) := by
  unfold Tensor.partial1 Tensor.dense
  rw [dense_linModes t _ idx (by simp) hi]
  rw [show List.range t.length = List.range' 0 t.length from by simp [List.range_eq_range']]
  exact applyMaps_single _ _ t.length d t.shape idx _ hd (by simp [shape_length]) hi

/-- interior rows: `(x_{i+1} − x_{i−1})·c` -/
theorem stencil_interior (n i : Nat) (c : R) (g : Nat → R) (h0 : 0 < i) (h1 : i + 1 < n) :
    (∑ j ∈ range n, stencilL n c false i j * g j) = c * (g (i + 1) - g (i - 1)) := by
  have hi0 : ¬ i = 0 := by omega
  have hin : ¬ i + 1 = n := by omega
  simp only [stencilL, hi0, hin, if_false, Bool.false_eq_true, add_mul, Finset.sum_add_distrib]
  rw [Finset.sum_eq_single (i + 1), Finset.sum_eq_single (i - 1)]
  · have : i - 1 + 1 = i := by omega
    simp [this]; ring
  · intro j _ hj; have : ¬ j + 1 = i := by omega
    simp [this]
  · intro hh; exact absurd (Finset.mem_range.mpr (by omega)) hh
  · intro j _ hj; simp [hj]
  · intro hh; exact absurd (Finset.mem_range.mpr h1) hh

/-- first row (linear extrapolation): `2(x_1 − x_0)·c` -/
theorem stencil_first (n : Nat) (c : R) (g : Nat → R) (h : 2 ≤ n) :
    (∑ j ∈ range n, stencilL n c false 0 j * g j) = (c + c) * (g 1 - g 0) := by
  simp only [stencilL, if_true, Bool.false_eq_true, if_false, add_mul, Finset.sum_add_distrib]
  rw [Finset.sum_eq_single 1, Finset.sum_eq_single 0]
  · simp; ring
  · intro j _ hj; simp [hj]
  · intro hh; exact absurd (Finset.mem_range.mpr (by omega)) hh
  · intro j _ hj; simp [hj]
  · intro hh; exact absurd (Finset.mem_range.mpr (by omega)) hh

/-- last row (linear extrapolation): `2(x_{n−1} − x_{n−2})·c` -/
theorem stencil_last (n : Nat) (c : R) (g : Nat → R) (h : 2 ≤ n) :
    (∑ j ∈ range n, stencilL n c false (n - 1) j * g j) = (c + c) * (g (n - 1) - g (n - 2)) := by
  have h0 : ¬ n - 1 = 0 := by omega
  have h1 : n - 1 + 1 = n := by omega
  simp only [stencilL, h0, h1, if_true, if_false, Bool.false_eq_true, add_mul, Finset.sum_add_distrib]
  rw [Finset.sum_eq_single (n - 1), Finset.sum_eq_single (n - 2)]
  · have : n - 2 + 1 = n - 1 := by omega
    simp [this]; ring
  · intro j _ hj; have : ¬ j + 1 = n - 1 := by omega
    simp [this]
  · intro hh; exact absurd (Finset.mem_range.mpr (by omega)) hh
  · intro j _ hj; simp [hj]
  · intro hh; exact absurd (Finset.mem_range.mpr (by omega)) hh

/-- **constants are annihilated**: a tensor that does not depend on the index of mode `d` has zero
    derivative along `d` (non-periodic stencil, `n ≥ 2`) -/
theorem partial1_const (t : Tensor R) (d : Nat) (c : R) (idx : List Nat) (hd : d < t.length)
    (hi : idx.length = t.length) (hn : 2 ≤ t.shape.getD d 0) (hidx : idx.getD d 0 < t.shape.getD d 0)
    (hconst : ∀ j, t.dense (setAt idx d j) = t.dense (setAt idx d 0)) :
    (t.partial1 d c false).dense idx = 0 := by
  rw [partial1_dense t d c false idx hd hi]
  simp only [hconst]
  set n := t.shape.getD d 0
  set i := idx.getD d 0
  by_cases h0 : i = 0
  · rw [h0, stencil_first n c (fun _ => t.dense (setAt idx d 0)) hn]; ring
  · by_cases h1 : i + 1 = n
    · have : i = n - 1 := by omega
      rw [this, stencil_last n c (fun _ => t.dense (setAt idx d 0)) hn]; ring
    · rw [stencil_interior n i c (fun _ => t.dense (setAt idx d 0)) (by omega) (by omega)]; ring

/-- **linearity in the tensor**: derivative of an element-wise combination (stated on dense values) -/
theorem stencil_linear (n i : Nat) (c a b : R) (per : Bool) (g h : Nat → R) :
    (∑ j ∈ range n, stencilL n c per i j * (a * g j + b * h j)) =
      a * (∑ j ∈ range n, stencilL n c per i j * g j) + b * ∑ j ∈ range n, stencilL n c per i j * h j := by
  rw [Finset.mul_sum, Finset.mul_sum, ← Finset.sum_add_distrib]
  apply Finset.sum_congr rfl; intro j _; ring

end
end TN.C20
