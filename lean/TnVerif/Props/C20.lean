import TnVerif.Lemmas.Tools
import TnVerif.Lemmas.Deriv
import TnVerif.Model.Deriv
import TnVerif.Model.DerivOps
import TnVerif.Props.C02
import TnVerif.Lemmas.PartialSet
import TnVerif.Props.C16
/-!
# C20 — finite-difference calculus on compressed tensors matches the dense stencil

`tn.partial` along mode `d` is `linModes` with the stencil matrix on that mode (and nothing on the
others), so by L1 the compressed derivative decompresses to the stencil applied to the dense array
along `d`; `c = 1/step` with the step of mode `d` itself.
-/
namespace TN.C20
open TN Finset
variable {R : Type}

section
variable [CommRing R]

/-- replace position `d` of an index list -/
def setAt : List Nat → Nat → Nat → List Nat
  | [], _, _ => []
  | _ :: is, 0, j => j :: is
  | i :: is, d + 1, j => i :: setAt is d j

/-- a matrix on mode `d` only: the array is transformed along `d`, all other indices are untouched -/
theorem applyMaps_single (L : Nat → Nat → R) (rows : Nat) : ∀ (N d : Nat) (ns is : List Nat) (f : List Nat → R),
    d < N → ns.length = N → is.length = N →
    applyMaps ((List.range' 0 N).map fun k => if k = d then some (rows, L) else Option.none) ns f is =
      ∑ j ∈ range (ns.getD d 0), L (is.getD d 0) j * f (setAt is d j) := by
  intro N
  suffices h : ∀ (off d : Nat) (ns is : List Nat) (f : List Nat → R), d < N → ns.length = N → is.length = N →
      applyMaps ((List.range' off N).map fun k => if k = off + d then some (rows, L) else Option.none) ns f is =
        ∑ j ∈ range (ns.getD d 0), L (is.getD d 0) j * f (setAt is d j) by
    intro d ns is f hd hn hi
    simpa using h 0 d ns is f hd hn hi
  induction N with
  | zero => intro off d ns is f hd; omega
  | succ N ih =>
    intro off d ns is f hd hn hi
    cases ns with
    | nil => simp at hn
    | cons n ns =>
      cases is with
      | nil => simp at hi
      | cons i is =>
        cases d with
        | zero =>
          simp only [List.range'_succ, List.map_cons, Nat.add_zero, if_true, applyMaps, List.getD_cons_zero, setAt]
          apply Finset.sum_congr rfl; intro j _
          congr 1
          -- the remaining modes carry no map
          have : ∀ (M o : Nat) (ms js : List Nat) (g : List Nat → R), off < o →
              applyMaps ((List.range' o M).map fun k => if k = off then some (rows, L) else Option.none) ms g js = g js := by
            intro M
            induction M with
            | zero => intro o ms js g _; simp [applyMaps]
            | succ M ihM =>
              intro o ms js g ho
              have hne : ¬ o = off := by omega
              cases ms with
              | nil => simp [List.range'_succ, hne, applyMaps]
              | cons m ms =>
                cases js with
                | nil => simp [List.range'_succ, hne, applyMaps]
                | cons j' js =>
                  simp only [List.range'_succ, List.map_cons, hne, if_false, applyMaps]
                  exact ihM (o + 1) ms js _ (by omega)
          exact this N (off + 1) ns is _ (by omega)
        | succ d =>
          have hne : ¬ off = off + (d + 1) := by omega
          simp only [List.range'_succ, List.map_cons, hne, if_false, applyMaps, List.getD_cons_succ, setAt]
          have := ih (off + 1) d ns is (fun js => f (i :: js)) (by omega) (by simpa using hn) (by simpa using hi)
          rw [show off + (d + 1) = off + 1 + d by omega]
          exact this

/-- **the compressed partial derivative is the dense stencil**: every entry of `partial(t, d)` is the
    stencil row of its own index along `d` applied to the fibre of the dense array through that index -/
theorem partial1_dense (t : Tensor R) (d : Nat) (c : R) (per : Bool) (idx : List Nat) (hd : d < t.length)
    (hi : idx.length = t.length) :
    (t.partial1 d c per).dense idx =
      ∑ j ∈ range (t.shape.getD d 0), stencilL (t.shape.getD d 0) c per (idx.getD d 0) j * t.dense (setAt idx d j) := by
  unfold Tensor.partial1 Tensor.dense
  rw [dense_linModes t _ idx (by simp) hi]
  rw [show List.range t.length = List.range' 0 t.length from by simp [List.range_eq_range']]
  exact applyMaps_single _ _ t.length d t.shape idx _ hd (by simp [shape_length]) hi

/-- interior rows: `(x_{i+1} − x_{i−1})·c` -/
theorem stencil_interior (n i : Nat) (c : R) (g : Nat → R) (h0 : 0 < i) (h1 : i + 1 < n) :
    (∑ j ∈ range n, stencilL n c false i j * g j) = c * (g (i + 1) - g (i - 1)) := by
  have hi0 : ¬ i = 0 := by omega
  have hin : ¬ i + 1 = n := by omega
  have hn1 : ¬ n = 1 := by omega
  simp only [stencilL, hi0, hin, hn1, if_false, Bool.false_eq_true, add_mul, Finset.sum_add_distrib]
  rw [Finset.sum_eq_single (i + 1), Finset.sum_eq_single (i - 1)]
  · have : i - 1 + 1 = i := by omega
    simp [this]; ring
  · intro j _ hj; have : ¬ j + 1 = i := by omega
    simp [this]
  · intro hh; exact absurd (Finset.mem_range.mpr (by omega)) hh
  · intro j _ hj; simp [hj]
  · intro hh; exact absurd (Finset.mem_range.mpr h1) hh

/-- first row (linear extrapolation): `2(x_1 − x_0)·c` -/
theorem stencil_first (n : Nat) (c : R) (g : Nat → R) (h : 2 ≤ n) :
    (∑ j ∈ range n, stencilL n c false 0 j * g j) = (c + c) * (g 1 - g 0) := by
  have hn1 : ¬ n = 1 := by omega
  simp only [stencilL, hn1, if_true, Bool.false_eq_true, if_false, add_mul, Finset.sum_add_distrib]
  rw [Finset.sum_eq_single 1, Finset.sum_eq_single 0]
  · simp; ring
  · intro j _ hj; simp [hj]
  · intro hh; exact absurd (Finset.mem_range.mpr (by omega)) hh
  · intro j _ hj; simp [hj]
  · intro hh; exact absurd (Finset.mem_range.mpr (by omega)) hh

/-- last row (linear extrapolation): `2(x_{n−1} − x_{n−2})·c` -/
theorem stencil_last (n : Nat) (c : R) (g : Nat → R) (h : 2 ≤ n) :
    (∑ j ∈ range n, stencilL n c false (n - 1) j * g j) = (c + c) * (g (n - 1) - g (n - 2)) := by
  have h0 : ¬ n - 1 = 0 := by omega
  have h1 : n - 1 + 1 = n := by omega
  have hn1 : ¬ n = 1 := by omega
  simp only [stencilL, h0, h1, hn1, if_true, if_false, Bool.false_eq_true, add_mul, Finset.sum_add_distrib]
  rw [Finset.sum_eq_single (n - 1), Finset.sum_eq_single (n - 2)]
  · have : n - 2 + 1 = n - 1 := by omega
    simp [this]; ring
  · intro j _ hj; have : ¬ j + 1 = n - 1 := by omega
    simp [this]
  · intro hh; exact absurd (Finset.mem_range.mpr (by omega)) hh
  · intro j _ hj; simp [hj]
  · intro hh; exact absurd (Finset.mem_range.mpr (by omega)) hh

/-- **constants are annihilated**: a tensor that does not depend on the index of mode `d` has zero
    derivative along `d` (non-periodic stencil, `n ≥ 2`) -/
theorem partial1_const (t : Tensor R) (d : Nat) (c : R) (idx : List Nat) (hd : d < t.length)
    (hi : idx.length = t.length) (hn : 2 ≤ t.shape.getD d 0) (hidx : idx.getD d 0 < t.shape.getD d 0)
    (hconst : ∀ j, t.dense (setAt idx d j) = t.dense (setAt idx d 0)) :
    (t.partial1 d c false).dense idx = 0 := by
  rw [partial1_dense t d c false idx hd hi]
  simp only [hconst]
  set n := t.shape.getD d 0
  set i := idx.getD d 0
  by_cases h0 : i = 0
  · rw [h0, stencil_first n c (fun _ => t.dense (setAt idx d 0)) hn]; ring
  · by_cases h1 : i + 1 = n
    · have : i = n - 1 := by omega
      rw [this, stencil_last n c (fun _ => t.dense (setAt idx d 0)) hn]; ring
    · rw [stencil_interior n i c (fun _ => t.dense (setAt idx d 0)) (by omega) (by omega)]; ring

/-- **linearity in the tensor**: derivative of an element-wise combination (stated on dense values) -/
theorem stencil_linear (n i : Nat) (c a b : R) (per : Bool) (g h : Nat → R) :
    (∑ j ∈ range n, stencilL n c per i j * (a * g j + b * h j)) =
      a * (∑ j ∈ range n, stencilL n c per i j * g j) + b * ∑ j ∈ range n, stencilL n c per i j * h j := by
  rw [Finset.mul_sum, Finset.mul_sum, ← Finset.sum_add_distrib]
  apply Finset.sum_congr rfl; intro j _; ring

end

/-! ## Round 6: periodic stencil, the stencil as the code computes it, higher orders, linearity,
    lists of modes, gradient / divergence / curl / laplacian -/

section
variable [CommRing R]

/-! ### facts about `setAt` -/

/-- `setAt` keeps the number of indices -/
theorem setAt_length : ∀ (is : List Nat) (d j : Nat), (setAt is d j).length = is.length
  | [], _, _ => rfl
  | _ :: _, 0, _ => rfl
  | _ :: is, d + 1, j => by simp [setAt, setAt_length is d j]

/-- reading the replaced position gives the new index -/
theorem getD_setAt_self : ∀ (is : List Nat) (d j : Nat), d < is.length → (setAt is d j).getD d 0 = j
  | [], _, _, h => by simp at h
  | _ :: _, 0, _, _ => rfl
  | _ :: is, d + 1, j, h => by
    simp only [setAt, List.getD_cons_succ]
    exact getD_setAt_self is d j (by simpa using h)

/-- the other positions are untouched -/
theorem getD_setAt_ne : ∀ (is : List Nat) (d d' j : Nat), d ≠ d' → (setAt is d j).getD d' 0 = is.getD d' 0
  | [], _, _, _, _ => rfl
  | _ :: _, 0, 0, _, h => absurd rfl h
  | _ :: _, 0, d' + 1, _, _ => rfl
  | _ :: _, d + 1, 0, _, _ => rfl
  | _ :: is, d + 1, d' + 1, j, h => by
    simp only [setAt, List.getD_cons_succ]
    exact getD_setAt_ne is d d' j (by omega)

/-- replacing the same position twice: the last one wins -/
theorem setAt_setAt_self : ∀ (is : List Nat) (d j j' : Nat), setAt (setAt is d j) d j' = setAt is d j'
  | [], _, _, _ => rfl
  | _ :: _, 0, _, _ => rfl
  | i :: is, d + 1, j, j' => by simp only [setAt, setAt_setAt_self is d j j']

/-- replacements at different positions commute -/
theorem setAt_comm : ∀ (is : List Nat) (d d' j j' : Nat), d ≠ d' →
    setAt (setAt is d j) d' j' = setAt (setAt is d' j') d j
  | [], _, _, _, _, _ => rfl
  | _ :: _, 0, 0, _, _, h => absurd rfl h
  | _ :: _, 0, d' + 1, _, _, _ => rfl
  | _ :: _, d + 1, 0, _, _, _ => rfl
  | i :: is, d + 1, d' + 1, j, j', h => by
    simp only [setAt]
    rw [setAt_comm is d d' j j' (by omega)]

/-- replacing a position by its own index changes nothing -/
theorem setAt_getD_self : ∀ (is : List Nat) (d : Nat), setAt is d (is.getD d 0) = is
  | [], _ => rfl
  | _ :: _, 0 => rfl
  | i :: is, d + 1 => by simp only [setAt, List.getD_cons_succ, setAt_getD_self is d]

/-! ### item 1: the periodic stencil -/

/-- **periodic rows**: entry `i` of the periodic derivative of a fibre `g` of size `n ≥ 1` is
    `c·(g[(i+1) mod n] − g[(i−1) mod n])` (`(i + n − 1) % n` is `(i − 1) mod n` for `i < n`).
    Holds for every `n ≥ 1`, including `n = 1` and `n = 2` where both neighbours coincide and the
    result is `0`, exactly what `cores[..., list(range(1, n)) + [0], :] − cores[..., [-1] + list(range(0, n-1)), :]`
    gives. -/
theorem stencil_periodic (n i : Nat) (c : R) (g : Nat → R) (hn : 0 < n) :
    (∑ j ∈ range n, stencilL n c true i j * g j) = c * (g ((i + 1) % n) - g ((i + n - 1) % n)) := by
  simp only [stencilL, if_true, add_mul, Finset.sum_add_distrib]
  rw [Finset.sum_eq_single ((i + 1) % n), Finset.sum_eq_single ((i + n - 1) % n)]
  · simp; ring
  · intro j _ hj; simp [hj]
  · intro hh; exact absurd (Finset.mem_range.mpr (Nat.mod_lt _ hn)) hh
  · intro j _ hj; simp [hj]
  · intro hh; exact absurd (Finset.mem_range.mpr (Nat.mod_lt _ hn)) hh

/-- the index lists the code builds for the periodic branch are the two `mod n` shifts:
    `(list(range(1, n)) + [0])[i] = (i+1) mod n` and `([-1] + list(range(0, n−1)))[i] = (i−1) mod n`
    (with `-1` denoting position `n − 1`), for every `n ≥ 1` and `i < n` -/
theorem roll_index (n i : Nat) (hi : i < n) :
    (rollFwd n).getD i 0 = (i + 1) % n ∧ (rollBwd n).getD i 0 = (i + n - 1) % n := by
  constructor
  · unfold rollFwd
    by_cases h : i + 1 < n
    · rw [List.getD_eq_getElem?_getD, List.getElem?_append_left (by simp; omega)]
      rw [List.getElem?_range' (by omega), Nat.mod_eq_of_lt h]
      simp; omega
    · have hin : i + 1 = n := by omega
      rw [List.getD_eq_getElem?_getD, List.getElem?_append_right (by simp; omega)]
      simp [← hin]
  · unfold rollBwd
    cases i with
    | zero => simp
    | succ i =>
      simp only [List.getD_cons_succ]
      rw [List.getD_eq_getElem?_getD, List.getElem?_range (by omega)]
      have : i + 1 + n - 1 = i + n := by omega
      rw [this, Nat.add_mod_right, Nat.mod_eq_of_lt (by omega)]; simp

/-- the periodic branch as the code computes it (index lists, subtraction, division by the step)
    is the row formula of `stencil_periodic`, hence equals the model's `stencilL … true` — for
    EVERY `n ≥ 1` -/
theorem stencilStepsPer_eq (n i : Nat) (c : R) (x : Nat → R) (hi : i < n) :
    stencilStepsPer n c x i = ∑ j ∈ range n, stencilL n c true i j * x j := by
  rw [stencil_periodic n i c x (by omega)]
  unfold stencilStepsPer
  rw [(roll_index n i hi).1, (roll_index n i hi).2]; ring

/-- the non-periodic branch as the code computes it (pad with the end values, extrapolate the two pad
    entries linearly, central difference) equals the model's `stencilL … false` for every `n ≥ 2` -/
theorem stencilStepsNP_eq (n i : Nat) (c : R) (x : Nat → R) (hn : 2 ≤ n) (hi : i < n) :
    stencilStepsNP n c x i = ∑ j ∈ range n, stencilL n c false i j * x j := by
  by_cases h0 : i = 0
  · subst h0
    rw [stencil_first n c x hn]
    unfold stencilStepsNP
    by_cases h2 : n = 2
    · subst h2; simp; ring
    · have e1 : ¬ (2 = n + 1) := by omega
      have e2 : min 1 (n - 1) = 1 := by omega
      simp [e1, e2]; ring
  · by_cases h1 : i + 1 = n
    · have hi' : i = n - 1 := by omega
      rw [hi', stencil_last n c x hn]
      unfold stencilStepsNP
      obtain ⟨m, rfl⟩ : ∃ m, n = m + 2 := ⟨n - 2, by omega⟩
      simp
      ring
    · rw [stencil_interior n i c x (by omega) (by omega)]
      unfold stencilStepsNP
      have e1 : ¬ (i + 2 = n + 1) := by omega
      have e2 : ¬ (i + 2 = 0) := by omega
      have e3 : ¬ (i = n + 1) := by omega
      have e4 : min (i + 2 - 1) (n - 1) = i + 1 := by omega
      have e5 : min (i - 1) (n - 1) = i - 1 := by omega
      simp only [e1, e2, e3, h0, if_false, e4, e5]; ring

/-- **size-1 mode, non-periodic**: on a mode of size 1 the code returns `0`
    (pad `[x0, x0, x0]`, both extrapolation updates add `0`, `p[2] − p[0] = 0`) … -/
theorem stencilStepsNP_one (c : R) (x : Nat → R) : stencilStepsNP 1 c x 0 = 0 := by
  simp [stencilStepsNP]

/-- … and so does the model's stencil matrix (`stencilL 1 c false = 0`; an earlier version of the model gave `−2c·x0` here —
    found while proving `stencilStepsNP_eq`, repaired in the model): with `stencilStepsNP_eq` the non-periodic stencil of the
    model is the code's operator for EVERY `n ≥ 1` -/
theorem stencilL_one (c : R) (x : Nat → R) :
    (∑ j ∈ range 1, stencilL 1 c false 0 j * x j) = stencilStepsNP 1 c x 0 := by
  simp [stencilL, stencilStepsNP]

end

section
variable [CommRing R]

/-! ### item 2: any order -/

/-- the dense single-mode difference operator: the stencil of mode `d` (size `shape[d]`, `c = 1/step`)
    applied to the fibre of the array `f` through `idx` along mode `d`; every other index is untouched -/
def denseD (shape : List Nat) (d : Nat) (c : R) (per : Bool) (f : List Nat → R) : List Nat → R := fun idx =>
  ∑ j ∈ range (shape.getD d 0), stencilL (shape.getD d 0) c per (idx.getD d 0) j * f (setAt idx d j)

/-- `partial1_dense`, restated with `denseD` -/
theorem partial1_denseD (t : Tensor R) (d : Nat) (c : R) (per : Bool) (idx : List Nat) (hd : d < t.length)
    (hi : idx.length = t.length) :
    (t.partial1 d c per).dense idx = denseD t.shape d c per t.dense idx :=
  partial1_dense t d c per idx hd hi

/-- `denseD` looks at its argument only on the fibre through `idx` -/
theorem denseD_congr (shape : List Nat) (d : Nat) (c : R) (per : Bool) (f g : List Nat → R) (idx : List Nat)
    (h : ∀ j, f (setAt idx d j) = g (setAt idx d j)) : denseD shape d c per f idx = denseD shape d c per g idx := by
  unfold denseD
  apply Finset.sum_congr rfl; intro j _; rw [h j]

/-- iterates of `denseD` on arrays that agree on all index lists of a given length -/
theorem denseD_iterate_congr (shape : List Nat) (d : Nat) (c : R) (per : Bool) (N : Nat) (f g : List Nat → R)
    (h : ∀ idx, idx.length = N → f idx = g idx) : ∀ (k : Nat) (idx : List Nat), idx.length = N →
    (denseD shape d c per)^[k] f idx = (denseD shape d c per)^[k] g idx := by
  intro k
  induction k with
  | zero => intro idx hi; exact h idx hi
  | succ k ih =>
    intro idx hi
    rw [Function.iterate_succ_apply', Function.iterate_succ_apply']
    apply denseD_congr; intro j
    exact ih _ (by rw [setAt_length]; exact hi)

/-- **shape and well-formedness are preserved** by a derivative of any order (`partial` changes only
    the entries of core / factor `d`, never a size or a rank) -/
theorem partialN_wf_shape (t : Tensor R) (d : Nat) (c : R) (per : Bool) (k : Nat) (ht : t.WF) :
    (t.partialN d c per k).WF ∧ (t.partialN d c per k).shape = t.shape ∧
      (t.partialN d c per k).length = t.length ∧ (t.partialN d c per k).ranksTT = t.ranksTT := by
  refine ⟨partialN_WF t d c per k ht, partialN_shape t d c per k, partialN_length t d c per k, ?_⟩
  induction k with
  | zero => rfl
  | succ k ih =>
    rw [← ih]
    simp only [Tensor.partialN]
    generalize Tensor.partialN t d c per k = u
    unfold Tensor.partial1
    generalize (List.map (fun k => if k = d then some (u.shape.getD d 0, stencilL (u.shape.getD d 0) c per) else Option.none)
      (List.range u.length)) = ls
    have hrr : ∀ (ls : List (Option (Nat × (Nat → Nat → R)))) (v : Tensor R),
        (v.linModes ls).map (·.core.rr) = v.map (·.core.rr) := by
      intro ls
      induction ls with
      | nil => intro v; simp [Tensor.linModes]
      | cons l ls ih2 =>
        intro v
        cases v with
        | nil => cases l <;> simp [Tensor.linModes]
        | cons m ms =>
          cases l with
          | none => simp [Tensor.linModes, ih2 ms]
          | some p => obtain ⟨rows, L⟩ := p; simp [Tensor.linModes, ih2 ms, spatialLin_rr_dv]
    cases u with
    | nil => cases ls <;> simp [Tensor.linModes]
    | cons m ms =>
      cases ls with
      | nil => simp [Tensor.linModes]
      | cons l ls =>
        have := hrr (l :: ls) (m :: ms)
        cases l with
        | none => simp only [Tensor.linModes, Tensor.ranksTT] at this ⊢; rw [this]
        | some p =>
          obtain ⟨rows, L⟩ := p
          simp only [Tensor.linModes, Tensor.ranksTT] at this ⊢; rw [this, spatialLin_rl_dv]

/-- **any order**: the order-`k` derivative along mode `d` decompresses to the dense single-mode stencil
    operator applied `k` times to the decompressed array (the loop `for o in range(1, order + 1)`) -/
theorem partialN_dense (t : Tensor R) (d : Nat) (c : R) (per : Bool) (hd : d < t.length) :
    ∀ (k : Nat) (idx : List Nat), idx.length = t.length →
    (t.partialN d c per k).dense idx = (denseD t.shape d c per)^[k] t.dense idx := by
  intro k
  induction k with
  | zero => intro idx _; rfl
  | succ k ih =>
    intro idx hi
    simp only [Tensor.partialN]
    rw [partial1_denseD _ d c per idx (by rw [partialN_length]; exact hd) (by rw [partialN_length]; exact hi),
      partialN_shape, Function.iterate_succ_apply']
    apply denseD_congr; intro j
    exact ih _ (by rw [setAt_length]; exact hi)

/-- order 2, interior rows: `c²·(x_{i+2} − 2x_i + x_{i−2})` — the central difference is applied twice,
    it is not the compact 3-point second difference -/
theorem stencil2_interior (n i : Nat) (c : R) (g : Nat → R) (h0 : 2 ≤ i) (h1 : i + 2 < n) :
    (∑ j ∈ range n, stencilL n c false i j * (∑ l ∈ range n, stencilL n c false j l * g l)) =
      c * c * (g (i + 2) - (g i + g i) + g (i - 2)) := by
  rw [stencil_interior n i c _ (by omega) (by omega), stencil_interior n (i + 1) c g (by omega) (by omega),
    stencil_interior n (i - 1) c g (by omega) (by omega)]
  have e1 : i + 1 - 1 = i := by omega
  have e2 : i - 1 + 1 = i := by omega
  have e3 : i - 1 - 1 = i - 2 := by omega
  rw [e1, e2, e3]; ring

/-! ### item 3: linearity, constants, affine functions -/

/-- one step of `denseD` is linear -/
theorem denseD_linear (shape : List Nat) (d : Nat) (c a b : R) (per : Bool) (f g : List Nat → R) (idx : List Nat) :
    denseD shape d c per (fun i => a * f i + b * g i) idx =
      a * denseD shape d c per f idx + b * denseD shape d c per g idx := by
  unfold denseD
  exact stencil_linear _ _ c a b per (fun j => f (setAt idx d j)) (fun j => g (setAt idx d j))

/-- every iterate of `denseD` is linear -/
theorem denseD_iterate_linear (shape : List Nat) (d : Nat) (c a b : R) (per : Bool) (f g : List Nat → R) :
    ∀ (k : Nat) (idx : List Nat), (denseD shape d c per)^[k] (fun i => a * f i + b * g i) idx =
      a * (denseD shape d c per)^[k] f idx + b * (denseD shape d c per)^[k] g idx := by
  intro k
  induction k with
  | zero => intro idx; rfl
  | succ k ih =>
    intro idx
    simp only [Function.iterate_succ_apply']
    rw [← denseD_linear]
    apply denseD_congr; intro j; exact ih _

/-- **additivity**: the derivative (any order) of a compressed sum `t + u` decompresses to the sum of the
    decompressed derivatives -/
theorem partialN_add_dense (t u : Tensor R) (ht : t.WF) (hu : u.WF) (hs : t.shape = u.shape) (d : Nat) (c : R)
    (per : Bool) (k : Nat) (idx : List Nat) (hd : d < t.length) (hi : idx.length = t.length) :
    ((t.add u).partialN d c per k).dense idx =
      (t.partialN d c per k).dense idx + (u.partialN d c per k).dense idx := by
  obtain ⟨_, hsh⟩ := C02.add_wf_shape t u ht hu hs
  have hlen : (t.add u).length = t.length := by simpa [shape_length] using congrArg List.length hsh
  have hlu : u.length = t.length := by simpa [shape_length] using (congrArg List.length hs).symm
  rw [partialN_dense _ d c per (by omega) k idx (by omega), partialN_dense t d c per hd k idx hi,
    partialN_dense u d c per (by omega) k idx (by omega), hsh, ← hs]
  have hfun : (t.add u).dense = fun i => 1 * t.dense i + 1 * u.dense i := by
    funext i; rw [C02.add_dense t u ht hu hs i]; ring
  rw [hfun, denseD_iterate_linear]; ring

/-- additivity, first order (`partial1 (t + u) = partial1 t + partial1 u` on dense values) -/
theorem partial1_add_dense (t u : Tensor R) (ht : t.WF) (hu : u.WF) (hs : t.shape = u.shape) (d : Nat) (c : R)
    (per : Bool) (idx : List Nat) (hd : d < t.length) (hi : idx.length = t.length) :
    ((t.add u).partial1 d c per).dense idx = (t.partial1 d c per).dense idx + (u.partial1 d c per).dense idx :=
  partialN_add_dense t u ht hu hs d c per 1 idx hd hi

/-- **homogeneity**: the derivative (any order) of `a · t` (`t * scalar`, computed with `ρ = |a|^(1/N)` on
    every core and the sign on the first) decompresses to `a` times the decompressed derivative -/
theorem partialN_scalarMul_dense (ρ sgn a : R) (t : Tensor R) (ht : t.WF) (ha : sgn * ρ ^ t.length = a) (d : Nat)
    (c : R) (per : Bool) (k : Nat) (idx : List Nat) (hd : d < t.length) (hi : idx.length = t.length) :
    ((t.scalarMul ρ sgn).partialN d c per k).dense idx = a * (t.partialN d c per k).dense idx := by
  obtain ⟨_, hsh⟩ := C02.scalarMul_wf_shape ρ sgn t ht
  have hlen : (t.scalarMul ρ sgn).length = t.length := by simpa [shape_length] using congrArg List.length hsh
  rw [partialN_dense _ d c per (by omega) k idx (by omega), partialN_dense t d c per hd k idx hi, hsh]
  rw [denseD_iterate_congr t.shape d c per t.length (t.scalarMul ρ sgn).dense (fun i => a * t.dense i + 0 * t.dense i)
    (fun i hi' => by rw [C02.scalarMul_dense ρ sgn a t ht ha i hi']; ring) k idx hi, denseD_iterate_linear]
  ring

/-- homogeneity, first order -/
theorem partial1_scalarMul_dense (ρ sgn a : R) (t : Tensor R) (ht : t.WF) (ha : sgn * ρ ^ t.length = a) (d : Nat)
    (c : R) (per : Bool) (idx : List Nat) (hd : d < t.length) (hi : idx.length = t.length) :
    ((t.scalarMul ρ sgn).partial1 d c per).dense idx = a * (t.partial1 d c per).dense idx :=
  partialN_scalarMul_dense ρ sgn a t ht ha d c per 1 idx hd hi

/-- **affine ↦ constant**: if along mode `d` the fibre of the tensor through `idx` is affine,
    `x_j = a + b·j`, then its (non-periodic) derivative at `idx` is `2c·b` whatever the position along `d` —
    interior rows and both linearly-extrapolated boundary rows give the same value -/
theorem partial1_affine (t : Tensor R) (d : Nat) (c a b : R) (idx : List Nat) (hd : d < t.length)
    (hi : idx.length = t.length) (hn : 2 ≤ t.shape.getD d 0) (hidx : idx.getD d 0 < t.shape.getD d 0)
    (haff : ∀ j, t.dense (setAt idx d j) = a + b * (j : R)) :
    (t.partial1 d c false).dense idx = (c + c) * b := by
  rw [partial1_dense t d c false idx hd hi]
  simp only [haff]
  set n := t.shape.getD d 0
  set i := idx.getD d 0
  by_cases h0 : i = 0
  · rw [h0, stencil_first n c (fun j => a + b * (j : R)) hn]; push_cast; ring
  · by_cases h1 : i + 1 = n
    · have : i = n - 1 := by omega
      rw [this, stencil_last n c (fun j => a + b * (j : R)) hn]
      obtain ⟨m, hm⟩ : ∃ m, n = m + 2 := ⟨n - 2, by omega⟩
      rw [hm]
      have e1 : m + 2 - 1 = m + 1 := by omega
      have e2 : m + 2 - 2 = m := by omega
      rw [e1, e2]; push_cast; ring
    · rw [stencil_interior n i c (fun j => a + b * (j : R)) (by omega) (by omega)]
      obtain ⟨m, hm⟩ : ∃ m, i = m + 1 := ⟨i - 1, by omega⟩
      rw [hm]
      have e1 : m + 1 - 1 = m := by omega
      rw [e1]; push_cast; ring

/-- tensor-level reading of `partial1_affine`: the derivative of a tensor that is affine along `d`
    (same `a`, `b` on the whole fibre) is constant along `d` -/
theorem partial1_affine_const (t : Tensor R) (d : Nat) (c a b : R) (idx : List Nat) (hd : d < t.length)
    (hi : idx.length = t.length) (hn : 2 ≤ t.shape.getD d 0)
    (haff : ∀ j, t.dense (setAt idx d j) = a + b * (j : R)) (i i' : Nat) (h : i < t.shape.getD d 0)
    (h' : i' < t.shape.getD d 0) :
    (t.partial1 d c false).dense (setAt idx d i) = (t.partial1 d c false).dense (setAt idx d i') := by
  have hdi : d < idx.length := by omega
  rw [partial1_affine t d c a b (setAt idx d i) hd (by rw [setAt_length]; exact hi) hn
      (by rw [getD_setAt_self idx d i hdi]; exact h) (fun j => by rw [setAt_setAt_self]; exact haff j),
    partial1_affine t d c a b (setAt idx d i') hd (by rw [setAt_length]; exact hi) hn
      (by rw [getD_setAt_self idx d i' hdi]; exact h') (fun j => by rw [setAt_setAt_self]; exact haff j)]

end

section
variable [CommRing R]

/-! ### item 4: a list of modes -/

/-- the dense operator of `tn.partial(t, dim=[…], order=k, …)`: for each listed mode in turn, `k`
    applications of that mode's own stencil (own step, own periodic flag) -/
def denseDList (shape : List Nat) (order : Nat) (specs : List (Nat × R × Bool)) (f : List Nat → R) : List Nat → R :=
  specs.foldl (fun g s => (denseD shape s.1 s.2.1 s.2.2)^[order] g) f

/-- `denseDList` on arrays that agree on all index lists of a given length -/
theorem denseDList_congr (shape : List Nat) (order N : Nat) (specs : List (Nat × R × Bool)) :
    ∀ (f g : List Nat → R), (∀ idx, idx.length = N → f idx = g idx) →
    ∀ idx, idx.length = N → denseDList shape order specs f idx = denseDList shape order specs g idx := by
  induction specs with
  | nil => intro f g h idx hi; exact h idx hi
  | cons s specs ih =>
    intro f g h idx hi
    simp only [denseDList, List.foldl_cons]
    exact ih _ _ (fun i hi' => denseD_iterate_congr shape s.1 s.2.1 s.2.2 N f g h order i hi') idx hi

/-- **list of modes**: `tn.partial(t, dim=[d_0, d_1, …], order=k, bounds=[…], periodic=[…])` decompresses to
    the composition of the single-mode dense operators, in list order, each with its own step and
    periodic flag; shape and well-formedness are preserved -/
theorem partialList_dense (order : Nat) (specs : List (Nat × R × Bool)) : ∀ (t : Tensor R),
    (∀ s ∈ specs, s.1 < t.length) → ∀ idx : List Nat, idx.length = t.length →
    (t.partialList order specs).dense idx = denseDList t.shape order specs t.dense idx := by
  induction specs with
  | nil => intro t _ idx _; rfl
  | cons s specs ih =>
    intro t hd idx hi
    rw [partialList_cons, ih _ (fun s' hs' => by rw [partialN_length]; exact hd s' (List.mem_cons_of_mem _ hs')) idx
      (by rw [partialN_length]; exact hi), partialN_shape]
    simp only [denseDList, List.foldl_cons]
    exact denseDList_congr t.shape order t.length specs _ _
      (fun i hi' => partialN_dense t s.1 s.2.1 s.2.2 (hd s List.mem_cons_self) order i hi') idx hi

/-- `partial` with a list of modes preserves well-formedness and shape -/
theorem partialList_wf_shape (t : Tensor R) (order : Nat) (specs : List (Nat × R × Bool)) (ht : t.WF) :
    (t.partialList order specs).WF ∧ (t.partialList order specs).shape = t.shape :=
  ⟨partialList_WF order specs t ht, partialList_shape order specs t⟩

/-- **stencils on different modes commute** (as operators on dense arrays, for all steps and flags) -/
theorem denseD_comm (shape : List Nat) (d d' : Nat) (c c' : R) (per per' : Bool) (h : d ≠ d') (f : List Nat → R) :
    denseD shape d c per (denseD shape d' c' per' f) = denseD shape d' c' per' (denseD shape d c per f) := by
  funext idx
  simp only [denseD, Finset.mul_sum]
  rw [Finset.sum_comm]
  apply Finset.sum_congr rfl; intro j' _
  apply Finset.sum_congr rfl; intro j _
  rw [getD_setAt_ne idx d d' j h, getD_setAt_ne idx d' d j' (Ne.symm h), setAt_comm idx d d' j j' h]
  ring

/-- iterated stencils on different modes commute -/
theorem denseD_iterate_comm (shape : List Nat) (d d' : Nat) (c c' : R) (per per' : Bool) (h : d ≠ d') (k k' : Nat)
    (f : List Nat → R) :
    (denseD shape d c per)^[k] ((denseD shape d' c' per')^[k'] f) =
      (denseD shape d' c' per')^[k'] ((denseD shape d c per)^[k] f) :=
  Function.Commute.iterate_iterate (fun g => denseD_comm shape d d' c c' per per' h g) k k' f

/-- first-order derivatives along two different modes of a compressed tensor can be taken in either
    order: the decompressed results coincide -/
theorem partial1_comm_dense (t : Tensor R) (d d' : Nat) (c c' : R) (per per' : Bool) (h : d ≠ d')
    (hd : d < t.length) (hd' : d' < t.length) (idx : List Nat) (hi : idx.length = t.length) :
    ((t.partial1 d c per).partial1 d' c' per').dense idx = ((t.partial1 d' c' per').partial1 d c per).dense idx := by
  have e1 := partialList_dense 1 [(d, c, per), (d', c', per')] t (by simp [hd, hd']) idx hi
  have e2 := partialList_dense 1 [(d', c', per'), (d, c, per)] t (by simp [hd, hd']) idx hi
  simp only [Tensor.partialList, List.foldl_cons, List.foldl_nil, Tensor.partialN, denseDList,
    Function.iterate_succ, Function.iterate_zero, Function.comp_apply, id_eq] at e1 e2
  rw [e1, e2, denseD_comm t.shape d d' c c' per per' h]

/-- **the order of the listed modes is irrelevant** when they are pairwise different:
    any permutation of the `dim` list (with `bounds` and `periodic` permuted along) gives the same
    decompressed result -/
theorem partialList_perm_dense (t : Tensor R) (order : Nat) (specs specs' : List (Nat × R × Bool))
    (hp : specs.Perm specs') (hnd : (specs.map (·.1)).Nodup) (hd : ∀ s ∈ specs, s.1 < t.length)
    (idx : List Nat) (hi : idx.length = t.length) :
    (t.partialList order specs).dense idx = (t.partialList order specs').dense idx := by
  rw [partialList_dense order specs t hd idx hi,
    partialList_dense order specs' t (fun s hs => hd s (hp.mem_iff.mpr hs)) idx hi]
  unfold denseDList
  rw [hp.foldl_eq' (fun x hx y hy z => ?_) t.dense]
  by_cases hxy : x.1 = y.1
  · have : x = y := List.inj_on_of_nodup_map hnd hx hy hxy
    rw [this]
  · exact denseD_iterate_comm t.shape y.1 x.1 y.2.1 x.2.1 y.2.2 x.2.2 (Ne.symm hxy) order order z

end

section
variable [CommRing R]

/-! ### item 5: Python `sum`, gradient, divergence, curl, laplacian -/

/-- a left fold of tensor additions over well-formed tensors of one shape adds the entries -/
theorem foldl_add_dense (s : List Nat) : ∀ (ps : List (Tensor R)) (acc : Tensor R), acc.WF → acc.shape = s →
    (∀ q ∈ ps, q.WF ∧ q.shape = s) →
    (ps.foldl Tensor.add acc).WF ∧ (ps.foldl Tensor.add acc).shape = s ∧
      ∀ idx, (ps.foldl Tensor.add acc).dense idx = acc.dense idx + (ps.map (·.dense idx)).sum := by
  intro ps
  induction ps with
  | nil => intro acc h1 h2 _; exact ⟨h1, h2, fun idx => by simp⟩
  | cons p ps ih =>
    intro acc h1 h2 h3
    obtain ⟨hp1, hp2⟩ := h3 p List.mem_cons_self
    obtain ⟨a1, a2⟩ := C02.add_wf_shape acc p h1 hp1 (by rw [h2, hp2])
    obtain ⟨r1, r2, r3⟩ := ih (acc.add p) a1 (by rw [a2, h2]) (fun q hq => h3 q (List.mem_cons_of_mem _ hq))
    refine ⟨r1, r2, fun idx => ?_⟩
    simp only [List.foldl_cons, List.map_cons, List.sum_cons]
    rw [r3 idx, C02.add_dense acc p h1 hp1 (by rw [h2, hp2]) idx]; ring

/-- **Python's `sum` over a list of tensors** of one shape: a well-formed tensor of that shape whose
    entries are the sums of the entries (the initial `0 + ps[0]` adds the scalar `0`, which changes the
    ranks — a rank-1 term is appended — but not the values) -/
theorem pySum_dense (p : Tensor R) (ps : List (Tensor R)) (hp : p.WF) (hps : ∀ q ∈ ps, q.WF ∧ q.shape = p.shape) :
    ∃ r, pySum (p :: ps) = some r ∧ r.WF ∧ r.shape = p.shape ∧
      ∀ idx, idx.length = p.length → r.dense idx = ((p :: ps).map (·.dense idx)).sum := by
  obtain ⟨s1, s2⟩ := C02.scalarAdd_wf_shape 0 p hp
  obtain ⟨r1, r2, r3⟩ := foldl_add_dense p.shape ps (p.scalarAdd 0) s1 s2 hps
  refine ⟨_, rfl, r1, r2, fun idx hi => ?_⟩
  rw [r3 idx, C02.scalarAdd_dense 0 p hp idx hi]; simp

/-- `sum([])` is the integer 0, not a tensor -/
theorem pySum_nil : pySum ([] : List (Tensor R)) = none := rfl

/-- a single listed mode, order 1 / order `k`: `tn.partial(t, d, order=k, …)` -/
theorem partialList_single (t : Tensor R) (k d : Nat) (c : R) (per : Bool) :
    t.partialList k [(d, c, per)] = t.partialN d c per k := rfl

/-- **gradient** (`tn.gradient(t, dim=[…], bounds=[…])`): a list with one tensor per listed mode, each
    well-formed, of the shape of `t`, decompressing to the dense non-periodic stencil along its own mode
    with its own step -/
theorem gradient_dense (t : Tensor R) (specs : List (Nat × R)) (ht : t.WF) (hd : ∀ s ∈ specs, s.1 < t.length)
    (idx : List Nat) (hi : idx.length = t.length) :
    (t.gradient specs).length = specs.length ∧ (∀ g ∈ t.gradient specs, g.WF ∧ g.shape = t.shape) ∧
    (t.gradient specs).map (·.dense idx) = specs.map fun s => denseD t.shape s.1 s.2 false t.dense idx := by
  refine ⟨by simp [Tensor.gradient], ?_, ?_⟩
  · intro g hg
    simp only [Tensor.gradient, List.mem_map] at hg
    obtain ⟨s, _, rfl⟩ := hg
    exact partialList_wf_shape t 1 _ ht
  · simp only [Tensor.gradient, List.map_map]
    apply List.map_congr_left; intro s hs
    simp only [Function.comp_apply]
    rw [partialList_dense 1 [(s.1, s.2, false)] t (by simpa using hd s hs) idx hi]
    rfl

/-- `tn.gradient(t, dim=d)` with an integer `dim` is the single first-order derivative -/
theorem gradient_single (t : Tensor R) (d : Nat) (c : R) : t.gradient [(d, c)] = [t.partial1 d c false] := rfl

/-- one term per component -/
theorem divTerms_length : ∀ (off : Nat) (ts : List (Tensor R)) (cs : List R), cs.length = ts.length →
    (divTerms off ts cs).length = ts.length := by
  intro off ts
  induction ts generalizing off with
  | nil => intro cs _; cases cs <;> rfl
  | cons t ts ih =>
    intro cs h
    cases cs with
    | nil => simp at h
    | cons c cs => simp only [divTerms, List.length_cons, ih (off + 1) cs (by simpa using h)]

/-- the terms of `divergence`: well-formed, of the common shape, and their entry sum is the sum of the per-mode dense stencils -/
theorem divTerms_spec (s : List Nat) (idx : List Nat) : ∀ (off : Nat) (ts : List (Tensor R)) (cs : List R),
    cs.length = ts.length → (∀ t ∈ ts, t.WF ∧ t.shape = s) → off + ts.length ≤ s.length → idx.length = s.length →
    (∀ q ∈ divTerms off ts cs, q.WF ∧ q.shape = s) ∧
    ((divTerms off ts cs).map (·.dense idx)).sum =
      ∑ k ∈ range ts.length, denseD s (off + k) (cs.getD k 0) false (ts.getD k []).dense idx := by
  intro off ts
  induction ts generalizing off with
  | nil => intro cs _ _ _ _; cases cs <;> simp [divTerms]
  | cons t ts ih =>
    intro cs h hwf hlen hi
    cases cs with
    | nil => simp at h
    | cons c cs =>
      obtain ⟨ht, hts⟩ := hwf t List.mem_cons_self
      have htl : t.length = s.length := by rw [← hts, shape_length]
      simp only [List.length_cons] at hlen
      obtain ⟨i1, i2⟩ := ih (off + 1) cs (by simpa using h) (fun q hq => hwf q (List.mem_cons_of_mem _ hq))
        (by omega) hi
      constructor
      · intro q hq
        simp only [divTerms, List.mem_cons] at hq
        rcases hq with rfl | hq
        · obtain ⟨w1, w2⟩ := partialList_wf_shape t 1 [(off, c, false)] ht
          exact ⟨w1, by rw [w2, hts]⟩
        · exact i1 q hq
      · simp only [divTerms, List.map_cons, List.sum_cons, List.length_cons]
        rw [Finset.sum_range_succ', i2,
          partialList_dense 1 [(off, c, false)] t (by simp; omega) idx (by omega), hts]
        simp only [List.getD_cons_succ, List.getD_cons_zero, Nat.add_zero]
        rw [add_comm]
        congr 1
        apply Finset.sum_congr rfl; intro k _
        rw [show off + 1 + k = off + (k + 1) by omega]

/-- **divergence** (`tn.divergence(ts, bounds)`): for `N` well-formed `N`-mode tensors of one shape and `N`
    steps the three assertions pass, and the result is a well-formed tensor of that shape whose entries
    are `Σ_n (∂_n ts[n])`, each derivative being the dense non-periodic stencil along mode `n` with the
    step of mode `n`, applied to the `n`-th component -/
theorem divergence_dense (t0 : Tensor R) (ts : List (Tensor R)) (cs : List R)
    (hwf : ∀ t ∈ t0 :: ts, t.WF ∧ t.shape = t0.shape) (hdim : t0.length = (t0 :: ts).length)
    (hcs : cs.length = (t0 :: ts).length) :
    ∃ r, divergence (t0 :: ts) cs = some r ∧ r.WF ∧ r.shape = t0.shape ∧
      ∀ idx, idx.length = t0.length → r.dense idx =
        ∑ n ∈ range (t0 :: ts).length, denseD t0.shape n (cs.getD n 0) false ((t0 :: ts).getD n []).dense idx := by
  have hall : (t0 :: ts).all (fun t => t.shape == t0.shape) = true := by
    rw [List.all_eq_true]; intro t ht; simpa using (hwf t ht).2
  have hdiv : divergence (t0 :: ts) cs = pySum (divTerms 0 (t0 :: ts) cs) := by
    simp only [divergence]
    rw [hall, hcs, ← hdim]
    simp
  cases cs with
  | nil => simp at hcs
  | cons c cs =>
    have hsl : t0.shape.length = t0.length := shape_length t0
    have hsp := fun idx (hi : idx.length = t0.shape.length) =>
      divTerms_spec t0.shape idx 0 (t0 :: ts) (c :: cs) hcs hwf (by omega) hi
    obtain ⟨q1, _⟩ := hsp (List.replicate t0.shape.length 0) (by simp)
    simp only [divTerms] at q1 hdiv hsp
    obtain ⟨w1, w2⟩ := q1 _ List.mem_cons_self
    obtain ⟨r, e1, e2, e3, e4⟩ := pySum_dense _ (divTerms (0 + 1) ts cs) w1
      (fun q hq => by obtain ⟨a, b⟩ := q1 q (List.mem_cons_of_mem _ hq); exact ⟨a, by rw [b, w2]⟩)
    refine ⟨r, by rw [hdiv]; exact e1, e2, by rw [e3, w2], fun idx hi => ?_⟩
    have hpl : (Tensor.partialList t0 1 [(0, c, false)]).length = t0.length := partialList_length _ _ _
    rw [e4 idx (by rw [hpl]; exact hi), (hsp idx (by omega)).2]
    simp

/-- **curl** (`tn.curl(ts, bounds)`) of three well-formed 3-mode tensors of one shape: three tensors whose
    entries are `∂_1 ts[2] − ∂_2 ts[1]`, `∂_2 ts[0] − ∂_0 ts[2]`, `∂_0 ts[1] − ∂_1 ts[0]`, each derivative
    with the step of its own mode -/
theorem curl_dense (t0 t1 t2 : Tensor R) (c0 c1 c2 : R) (h0 : t0.WF) (h1 : t1.WF) (h2 : t2.WF)
    (s1 : t1.shape = t0.shape) (s2 : t2.shape = t0.shape) (hN : t0.length = 3) :
    ∃ r0 r1 r2, curl [t0, t1, t2] [c0, c1, c2] = some [r0, r1, r2] ∧ ∀ idx : List Nat, idx.length = 3 →
      r0.dense idx = denseD t0.shape 1 c1 false t2.dense idx - denseD t0.shape 2 c2 false t1.dense idx ∧
      r1.dense idx = denseD t0.shape 2 c2 false t0.dense idx - denseD t0.shape 0 c0 false t2.dense idx ∧
      r2.dense idx = denseD t0.shape 0 c0 false t1.dense idx - denseD t0.shape 1 c1 false t0.dense idx := by
  refine ⟨_, _, _, rfl, fun idx hi => ?_⟩
  have l1 : t1.length = 3 := by rw [← shape_length, s1, shape_length, hN]
  have l2 : t2.length = 3 := by rw [← shape_length, s2, shape_length, hN]
  have key : ∀ (a b : Tensor R) (da db : Nat) (ca cb : R), a.WF → b.WF → a.shape = t0.shape → b.shape = t0.shape →
      da < 3 → db < 3 →
      ((a.partialList 1 [(da, ca, false)]).sub (b.partialList 1 [(db, cb, false)])).dense idx =
        denseD t0.shape da ca false a.dense idx - denseD t0.shape db cb false b.dense idx := by
    intro a b da db ca cb ha hb sa sb hda hdb
    have la : a.length = 3 := by rw [← shape_length, sa, shape_length, hN]
    have lb : b.length = 3 := by rw [← shape_length, sb, shape_length, hN]
    obtain ⟨wa, sha⟩ := partialList_wf_shape a 1 [(da, ca, false)] ha
    obtain ⟨wb, shb⟩ := partialList_wf_shape b 1 [(db, cb, false)] hb
    rw [C02.sub_dense _ _ wa wb (by rw [sha, shb, sa, sb]) idx (by rw [partialList_length, la, hi]),
      partialList_dense 1 _ a (by simp; omega) idx (by omega),
      partialList_dense 1 _ b (by simp; omega) idx (by omega), sa, sb]
    rfl
  exact ⟨key t2 t1 1 2 c1 c2 h2 h1 s2 s1 (by omega) (by omega),
    key t0 t2 2 0 c2 c0 h0 h2 rfl s2 (by omega) (by omega),
    key t1 t0 0 1 c0 c1 h1 h0 s1 rfl (by omega) (by omega)⟩

/-- the terms of `laplacian`: well-formed, of the shape of `t`, and their entry sum is the sum of the twice-applied per-mode dense stencils -/
theorem lapTerms_spec (t : Tensor R) (ht : t.WF) (idx : List Nat) (hi : idx.length = t.length) :
    ∀ (off : Nat) (cs : List R), off + cs.length ≤ t.length →
    (∀ q ∈ lapTerms t off cs, q.WF ∧ q.shape = t.shape) ∧
    ((lapTerms t off cs).map (·.dense idx)).sum =
      ∑ k ∈ range cs.length, (denseD t.shape (off + k) (cs.getD k 0) false)^[2] t.dense idx := by
  intro off cs
  induction cs generalizing off with
  | nil => intro _; simp [lapTerms]
  | cons c cs ih =>
    intro hlen
    simp only [List.length_cons] at hlen
    obtain ⟨i1, i2⟩ := ih (off + 1) (by omega)
    constructor
    · intro q hq
      simp only [lapTerms, List.mem_cons] at hq
      rcases hq with rfl | hq
      · exact partialList_wf_shape t 2 [(off, c, false)] ht
      · exact i1 q hq
    · simp only [lapTerms, List.map_cons, List.sum_cons, List.length_cons]
      rw [Finset.sum_range_succ', i2, partialList_dense 2 [(off, c, false)] t (by simp; omega) idx hi]
      simp only [List.getD_cons_succ, List.getD_cons_zero, Nat.add_zero, denseDList, List.foldl_cons, List.foldl_nil]
      rw [add_comm]
      congr 1
      apply Finset.sum_congr rfl; intro k _
      rw [show off + 1 + k = off + (k + 1) by omega]

/-- **Laplacian** (`tn.laplacian(t, bounds)`): with one step per mode the assertion passes and the result
    is a well-formed tensor of the shape of `t` whose entries are `Σ_n (∂_n ∂_n t)`: for every mode the
    dense non-periodic stencil of that mode (its own step) applied twice to the decompressed array -/
theorem laplacian_dense (t : Tensor R) (cs : List R) (ht : t.WF) (hcs : cs.length = t.length) :
    ∃ r, t.laplacian cs = some r ∧ r.WF ∧ r.shape = t.shape ∧
      ∀ idx, idx.length = t.length → r.dense idx =
        ∑ n ∈ range t.length, (denseD t.shape n (cs.getD n 0) false)^[2] t.dense idx := by
  have hlap : t.laplacian cs = pySum (lapTerms t 0 cs) := by
    unfold Tensor.laplacian; simp [hcs]
  have hpos : 0 < t.length := by
    cases t with
    | nil => exact absurd ht (by simp [Tensor.WF])
    | cons m ms => simp
  cases cs with
  | nil => simp at hcs; omega
  | cons c cs =>
    have hsp := fun idx (hi : idx.length = t.length) => lapTerms_spec t ht idx hi 0 (c :: cs) (by omega)
    obtain ⟨q1, _⟩ := hsp (List.replicate t.length 0) (by simp)
    simp only [lapTerms] at q1 hlap hsp
    obtain ⟨w1, w2⟩ := q1 _ List.mem_cons_self
    obtain ⟨r, e1, e2, e3, e4⟩ := pySum_dense _ (lapTerms t (0 + 1) cs) w1
      (fun q hq => by obtain ⟨a, b⟩ := q1 q (List.mem_cons_of_mem _ hq); exact ⟨a, by rw [b, w2]⟩)
    refine ⟨r, by rw [hlap]; exact e1, e2, by rw [e3, w2], fun idx hi => ?_⟩
    have hpl : (Tensor.partialList t 2 [(0, c, false)]).length = t.length := partialList_length _ _ _
    rw [e4 idx (by rw [hpl]; exact hi), (hsp idx hi).2, ← hcs]
    simp

/-- the assertions of `laplacian` / `divergence`: a wrong number of steps is rejected -/
theorem laplacian_badlen (t : Tensor R) (cs : List R) (h : cs.length ≠ t.length) : t.laplacian cs = none := by
  unfold Tensor.laplacian; simp [h]

end

/-! ### the hypotheses are satisfiable: concrete instances -/
section examples

/-- a 2-mode tensor of shape `[3, 4]`: a TT core with a Tucker factor, then a CP factor -/
def exD : Tensor Int :=
  [ { core := .tt 1 2 2 (fun _ j b => (j : Int) + b), U := some { rows := 3, cols := 2, f := fun i j => (i : Int) * i - j } },
    { core := .cp 4 2 (fun j k => (j : Int) * 2 + k), U := none } ]
/-- a 1-mode tensor whose entries are affine in the index: `3 + 5·j`, `j < 4` -/
def exAff : Tensor Int := [ { core := .tt 1 4 1 (fun _ j _ => 3 + 5 * (j : Int)), U := none } ]
/-- a 3-mode rank-1 tensor of shape `[2, 3, 2]` -/
def exE : Tensor Int :=
  [ { core := .tt 1 2 1 (fun _ j _ => (j : Int) + 1), U := none },
    { core := .tt 1 3 1 (fun _ j _ => (j : Int) * j), U := none },
    { core := .tt 1 2 1 (fun _ j _ => 2 - (j : Int)), U := none } ]

/-- `exD` is well-formed -/
theorem exD_wf : exD.WF := by simp [exD, Tensor.WF, Tensor.WFfrom, TMode.ok, Core.rl, Core.rr, Core.spatial]
/-- `exD` has shape `[3, 4]` -/
theorem exD_shape : exD.shape = [3, 4] := by simp [exD, Tensor.shape, TMode.n, Core.spatial]
/-- `exE` is well-formed -/
theorem exE_wf : exE.WF := by simp [exE, Tensor.WF, Tensor.WFfrom, TMode.ok, Core.rl, Core.rr]
/-- `exE` has shape `[2, 3, 2]` -/
theorem exE_shape : exE.shape = [2, 3, 2] := by simp [exE, Tensor.shape, TMode.n, Core.spatial]
/-- `exAff` is well-formed -/
theorem exAff_wf : exAff.WF := by simp [exAff, Tensor.WF, Tensor.WFfrom, TMode.ok, Core.rl]

example : (∑ j ∈ range 3, stencilL 3 (2 : Int) true 0 j * ((j : Int) * j)) = 2 * ((1 : Int) * 1 - 2 * 2) :=
  stencil_periodic 3 0 2 (fun j => (j : Int) * j) (by decide)
example : (∑ j ∈ range 1, stencilL 1 (2 : Int) true 0 j * 7) = 0 := by
  rw [stencil_periodic 1 0 2 (fun _ => (7 : Int)) (by decide)]; simp
example : rollFwd 4 = [1, 2, 3, 0] ∧ rollBwd 4 = [3, 0, 1, 2] ∧ rollFwd 1 = [0] ∧ rollBwd 1 = [0] ∧
    rollFwd 2 = [1, 0] ∧ rollBwd 2 = [1, 0] := by decide
example : stencilStepsNP 4 (1 : Int) (fun j => (j : Int) * j) 0 = ∑ j ∈ range 4, stencilL 4 1 false 0 j * ((j : Int) * j) :=
  stencilStepsNP_eq 4 0 1 _ (by decide) (by decide)

example : (exD.partialN 1 3 true 2).dense [2, 3] = (denseD exD.shape 1 3 true)^[2] exD.dense [2, 3] :=
  partialN_dense exD 1 3 true (by simp [exD]) 2 [2, 3] (by simp [exD])
example : (exD.partialN 0 3 false 3).WF ∧ (exD.partialN 0 3 false 3).shape = [3, 4] := by
  obtain ⟨h1, h2, _⟩ := partialN_wf_shape exD 0 3 false 3 exD_wf
  exact ⟨h1, by rw [h2, exD_shape]⟩
example : ((exD.add exD).partial1 0 2 false).dense [1, 2] =
    (exD.partial1 0 2 false).dense [1, 2] + (exD.partial1 0 2 false).dense [1, 2] :=
  partial1_add_dense exD exD exD_wf exD_wf rfl 0 2 false [1, 2] (by simp [exD]) (by simp [exD])
example : ((exD.scalarMul 2 (-1)).partialN 1 5 true 2).dense [0, 1] = (-4) * (exD.partialN 1 5 true 2).dense [0, 1] :=
  partialN_scalarMul_dense 2 (-1) (-4) exD exD_wf (by simp [exD]) 1 5 true 2 [0, 1] (by simp [exD]) (by simp [exD])
example : (exAff.partial1 0 2 false).dense [3] = (2 + 2) * 5 :=
  partial1_affine exAff 0 2 3 5 [3] (by simp [exAff]) (by simp [exAff])
    (by simp [exAff, Tensor.shape, TMode.n, Core.spatial]) (by simp [exAff, Tensor.shape, TMode.n, Core.spatial])
    (fun j => by
      simp [exAff, setAt, Tensor.dense, Tensor.modes, TMode.toMode, TN.dense, tail, sumTo, TMode.decomp, Core.get,
        Core.rl, Core.rr])
example : (exD.partialList 2 [(1, 3, true), (0, 1, false)]).dense [2, 0] =
    (exD.partialList 2 [(0, 1, false), (1, 3, true)]).dense [2, 0] :=
  partialList_perm_dense exD 2 _ _ (List.Perm.swap _ _ _) (by decide) (by simp [exD]) [2, 0] (by simp [exD])
example : ∃ r, exD.laplacian [1, 2] = some r ∧ r.WF ∧ r.shape = [3, 4] := by
  obtain ⟨r, h1, h2, h3, _⟩ := laplacian_dense exD [1, 2] exD_wf (by simp [exD])
  exact ⟨r, h1, h2, by rw [h3, exD_shape]⟩
example : ∃ r, divergence [exD, exD] [1, 2] = some r ∧ r.WF ∧ r.shape = [3, 4] := by
  obtain ⟨r, h1, h2, h3, _⟩ := divergence_dense exD [exD] [1, 2] (by simp [exD_wf]) (by simp [exD]) (by simp)
  exact ⟨r, h1, h2, by rw [h3, exD_shape]⟩
example : ∃ r0 r1 r2, curl [exE, exE, exE] [1, 2, 3] = some [r0, r1, r2] := by
  obtain ⟨r0, r1, r2, h, _⟩ := curl_dense exE exE exE 1 2 3 exE_wf exE_wf exE_wf rfl rfl (by simp [exE])
  exact ⟨r0, r1, r2, h⟩
example : ((exD.gradient [(0, 1), (1, 2)]).map (·.dense [1, 1])) =
    [denseD exD.shape 0 1 false exD.dense [1, 1], denseD exD.shape 1 2 false exD.dense [1, 1]] :=
  (gradient_dense exD [(0, 1), (1, 2)] exD_wf (by simp [exD]) [1, 1] (by simp [exD])).2.2

end examples

section
variable [CommRing R]

/-! ### item 7: `tn.mask` and `partialset` -/

/-- **`tn.mask(t, mask)`**: with an annotation `idxs` that has one label per slice of `t`, the result is a
    well-formed tensor of the shape of `t`, and each entry of `t` is multiplied by the mask entry at its
    labels (clamped to the mask's sizes) -/
theorem maskWith_dense (t mask : Tensor R) (idxs : List (List Nat)) (ht : t.WF) (hm : mask.WF)
    (hl : idxs.length = mask.length) (hsh : idxs.map List.length = t.shape) (hpos : ∀ n ∈ mask.shape, 0 < n) :
    (t.maskWith idxs mask).WF ∧ (t.maskWith idxs mask).shape = t.shape ∧
      ∀ idx : List Nat, idx.length = t.length →
        (t.maskWith idxs mask).dense idx = t.dense idx * mask.dense (clampLabels idxs mask.shape idx) := by
  unfold Tensor.maskWith
  set L := List.zipWith (fun lab (m : TMode R) => some (lab.length, sel (R := R) fun i => min (lab.getD i 0) (m.n - 1)))
    idxs mask with hL
  have hg : (mask.linModes L).WF := WF_linModes_dv L mask hm
  have hs : t.shape = (mask.linModes L).shape := by rw [hL, shape_gather idxs mask hl, hsh]
  have htl : t.length = mask.length := by
    rw [← hl, ← shape_length, ← hsh]; simp
  obtain ⟨w1, w2⟩ := C02.mul_wf_shape t _ ht hg hs
  refine ⟨w1, w2, fun idx hi => ?_⟩
  rw [C02.mul_dense t _ ht hg hs idx]
  congr 1
  unfold Tensor.dense
  rw [dense_linModes mask L idx (by rw [hL]; simp [hl]) (by omega), hL,
    applyMaps_gather idxs mask idx _ hl (by omega) hpos]

/-- the two steps of `partialset` after the choice of the mask: stack the forward differences, then
    `tn.mask` with a mask `wm` over the symbols `0 … k` per mode.  Nothing raises when every mode is larger
    than `k`; the entry at the slices addressed by (order `o_n`, offset `i_n`) is the mixed forward
    difference of the decompressed input times the mask's entry at the orders `(o_1, …, o_N)` -/
theorem partialStack_mask_dense (t : Tensor R) (k : Nat) (cs : List R) (wm : Tensor R) (ht : t.WF)
    (hc : cs.length = t.length) (hk : ∀ s ∈ t.shape, k < s) (mwf : wm.WF)
    (msh : wm.shape = List.replicate t.length (k + 1)) :
    ∃ d, t.partialStack cs k = some d ∧ (d.maskWith (t.shape.map fun s => blockLabels s k) wm).WF ∧
      (d.maskWith (t.shape.map fun s => blockLabels s k) wm).shape = t.shape.map (fun s => blockStart s (k + 1)) ∧
      ∀ os is : List Nat, stackOK k t.shape os is →
        (d.maskWith (t.shape.map fun s => blockLabels s k) wm).dense (stackRows t.shape os is) =
          multiDiff (List.zip cs os) t.dense is * wm.dense os := by
  obtain ⟨d, hd⟩ := partialStack_some k t cs hc hk
  have hpos : 0 < t.length := by
    cases t with
    | nil => exact absurd ht (by simp [Tensor.WF])
    | cons m ms => simp
  have hdw : d.WF ∧ d.shape = t.shape.map (fun s => blockStart s (k + 1)) ∧ d.length = t.length := by
    cases t with
    | nil => simp at hpos
    | cons m ms =>
      obtain ⟨a1, a2, a3⟩ := partialStack_wf_shape k (m :: ms) cs d m.core.rl hd hk ht
      exact ⟨WF_of_WFfrom d _ a1 (by intro h; rw [h] at a3; simp at a3), a2, a3⟩
  obtain ⟨dwf, dsh, dlen⟩ := hdw
  have mlen : wm.length = t.length := by rw [← shape_length, msh]; simp
  obtain ⟨r1, r2, r3⟩ := maskWith_dense d wm (t.shape.map fun s => blockLabels s k) dwf mwf
    (by rw [mlen]; simp [shape_length])
    (by rw [dsh, List.map_map]; apply List.map_congr_left; intro s _; simp [blockLabels_length])
    (by rw [msh]; intro n hn; rw [List.eq_of_mem_replicate hn]; omega)
  refine ⟨d, hd, r1, by rw [r2, dsh], fun os is hok => ?_⟩
  obtain ⟨l1, l2⟩ := stackRows_length k t.shape os is hok
  rw [shape_length] at l1 l2
  rw [r3 _ (by rw [l1, dlen]), msh]
  have hcl := clamp_stackRows k t.shape os is hok
  rw [shape_length] at hcl
  rw [hcl]
  unfold Tensor.dense
  rw [dense_partialStack k t cs d os is hd hc hok]

/-- **`partialset`** (no user mask): for requested total orders `order ≠ []`, `k = max(order)`, and every
    mode larger than `k`, nothing raises; the result is a well-formed tensor with `Σ_{o ≤ k} (s_n − o)`
    slices along mode `n`; the slice combination addressed by (order `o_n`, offset `i_n`) per mode holds
    the mixed forward difference of the decompressed input (`o_n`-fold along mode `n`, with that mode's
    own step) if the total order `Σ o_n` is requested (as often as it is listed), and `0` otherwise -/
theorem partialset_dense (t : Tensor R) (order : List Nat) (cs : List R) (ht : t.WF) (hc : cs.length = t.length)
    (hne : order ≠ []) (hk : ∀ s ∈ t.shape, order.foldl max 0 < s) :
    ∃ r, t.partialset order cs Option.none = some r ∧ r.WF ∧
      r.shape = t.shape.map (fun s => blockStart s (order.foldl max 0 + 1)) ∧
      ∀ os is : List Nat, stackOK (order.foldl max 0) t.shape os is →
        r.dense (stackRows t.shape os is) = multiDiff (List.zip cs os) t.dense is * countW order os.sum := by
  set k := order.foldl max 0 with hkdef
  have hpos : 0 < t.length := by
    cases t with
    | nil => exact absurd ht (by simp [Tensor.WF])
    | cons m ms => simp
  have hrep : List.replicate t.length (k + 1) ≠ [] := by
    intro h; have := congrArg List.length h; rw [List.length_replicate, List.length_nil] at this; omega
  obtain ⟨mwf, msh⟩ := weightMask_wf_shape (R := R) order (k + 1) (List.replicate t.length (k + 1)) hrep
  obtain ⟨d, hd, r1, r2, r3⟩ := partialStack_mask_dense t k cs _ ht hc hk mwf msh
  have hres : t.partialset order cs Option.none =
      some (d.maskWith (t.shape.map fun s => blockLabels s k)
        (weightMask order (k + 1) (List.replicate t.length (k + 1)))) := by
    unfold Tensor.partialset
    have : order.isEmpty = false := by cases order with
      | nil => exact absurd rfl hne
      | cons _ _ => rfl
    simp only [this, Bool.false_eq_true, if_false, ← hkdef, hd]
  refine ⟨_, hres, r1, r2, fun os is hok => ?_⟩
  obtain ⟨_, l2⟩ := stackRows_length k t.shape os is hok
  rw [shape_length] at l2
  rw [r3 os is hok]
  congr 1
  exact C16.weightMask_dense order (k + 1)
    (fun w hw => Nat.lt_succ_of_le (le_foldl_max order 0 w (Or.inl hw)))
    (List.replicate t.length (k + 1)) os hrep (by simp [l2])

/-- **`partialset` with a user mask** `u` (one symbol axis per mode; symbols `≥` its size are clamped to its
    last slice, as `tn.mask` does): as `partialset_dense`, each slice combination additionally multiplied by
    the user mask's entry at the (clamped) orders -/
theorem partialset_mask_dense (t u : Tensor R) (order : List Nat) (cs : List R) (ht : t.WF) (hu : u.WF)
    (hc : cs.length = t.length) (hul : u.length = t.length) (hupos : ∀ n ∈ u.shape, 0 < n)
    (hne : order ≠ []) (hk : ∀ s ∈ t.shape, order.foldl max 0 < s) :
    ∃ r, t.partialset order cs (some u) = some r ∧ r.WF ∧
      r.shape = t.shape.map (fun s => blockStart s (order.foldl max 0 + 1)) ∧
      ∀ os is : List Nat, stackOK (order.foldl max 0) t.shape os is →
        r.dense (stackRows t.shape os is) = multiDiff (List.zip cs os) t.dense is *
          (countW order os.sum *
            u.dense (clampLabels ((List.replicate t.length (order.foldl max 0 + 1)).map List.range) u.shape os)) := by
  set k := order.foldl max 0 with hkdef
  have hpos : 0 < t.length := by
    cases t with
    | nil => exact absurd ht (by simp [Tensor.WF])
    | cons m ms => simp
  have hrep : List.replicate t.length (k + 1) ≠ [] := by
    intro h; have := congrArg List.length h; rw [List.length_replicate, List.length_nil] at this; omega
  obtain ⟨mwf, msh⟩ := weightMask_wf_shape (R := R) order (k + 1) (List.replicate t.length (k + 1)) hrep
  have mlen : (weightMask (R := R) order (k + 1) (List.replicate t.length (k + 1))).length = t.length := by
    rw [← shape_length, msh]; simp
  obtain ⟨v1, v2, v3⟩ := maskWith_dense (weightMask (R := R) order (k + 1) (List.replicate t.length (k + 1))) u
    ((weightMask (R := R) order (k + 1) (List.replicate t.length (k + 1))).shape.map List.range) mwf hu
    (by simp [shape_length, mlen, hul])
    (by rw [List.map_map]; exact (List.map_congr_left (fun s _ => by simp)).trans (List.map_id _)) hupos
  obtain ⟨d, hd, r1, r2, r3⟩ := partialStack_mask_dense t k cs _ ht hc hk v1 (by rw [v2, msh])
  have hres : t.partialset order cs (some u) = some (d.maskWith (t.shape.map fun s => blockLabels s k)
      ((weightMask (R := R) order (k + 1) (List.replicate t.length (k + 1))).maskWith
        ((weightMask (R := R) order (k + 1) (List.replicate t.length (k + 1))).shape.map List.range) u)) := by
    unfold Tensor.partialset
    have : order.isEmpty = false := by cases order with
      | nil => exact absurd rfl hne
      | cons _ _ => rfl
    simp only [this, Bool.false_eq_true, if_false, ← hkdef, hd]
  refine ⟨_, hres, r1, r2, fun os is hok => ?_⟩
  obtain ⟨_, l2⟩ := stackRows_length k t.shape os is hok
  rw [shape_length] at l2
  rw [r3 os is hok, v3 os (by rw [mlen, l2]), msh]
  congr 2
  exact C16.weightMask_dense order (k + 1)
    (fun w hw => Nat.lt_succ_of_le (le_foldl_max order 0 w (Or.inl hw)))
    (List.replicate t.length (k + 1)) os hrep (by simp [l2])

/-- a core whose spatial size is not larger than the maximal order makes the stacking loop raise (`diff`
    is eventually handed a core with a single slice): `partialset` needs `max(order) < shape[n]` for every mode -/
theorem stackDiffs_raise (c : R) : ∀ (k : Nat) (core : Core R), 0 < core.spatial → core.spatial ≤ k →
    stackDiffs c k core = none := by
  intro k
  induction k with
  | zero => intro core h1 h2; omega
  | succ k ih =>
    intro core h1 h2
    simp only [stackDiffs]
    by_cases h : core.spatial = 1
    · simp [h]
    · have hne : (core.spatial == 1) = false := by simpa using h
      rw [hne, ih (core.fwdDiff c) (by simp; omega) (by simp; omega)]; rfl

example : ∃ r, exD.partialset [1, 2] [1, 3] Option.none = some r ∧ r.WF ∧ r.shape = [6, 9] := by
  obtain ⟨r, h1, h2, h3, _⟩ := partialset_dense exD [1, 2] [1, 3] exD_wf (by simp [exD]) (by simp)
    (by rw [exD_shape]; intro s hs; simp at hs; rcases hs with rfl | rfl <;> decide)
  exact ⟨r, h1, h2, by rw [h3, exD_shape]; decide⟩
example : stackOK 2 [3, 4] [1, 1] [1, 2] ∧ stackRows [3, 4] [1, 1] [1, 2] = [4, 6] := by
  simp [stackOK, stackRows, blockStart]

end

section
/-- the index at which the user mask is read in `partialset_mask_dense`, spelled out: order `o_n`, clamped
    to the user mask's last symbol -/
theorem clampLabels_range (k : Nat) : ∀ (os ns : List Nat), os.length = ns.length → (∀ o ∈ os, o ≤ k) →
    clampLabels ((List.replicate os.length (k + 1)).map List.range) ns os =
      List.zipWith (fun o n => min o (n - 1)) os ns := by
  intro os
  induction os with
  | nil => intro ns h _; cases ns <;> simp_all [clampLabels]
  | cons o os ih =>
    intro ns h ho
    cases ns with
    | nil => simp at h
    | cons n ns =>
      have h1 : o ≤ k := ho o List.mem_cons_self
      simp only [List.length_cons, List.replicate_succ, List.map_cons, clampLabels, List.zipWith_cons_cons]
      rw [ih ns (by simpa using h) (fun o' ho' => ho o' (List.mem_cons_of_mem _ ho'))]
      congr 2
      rw [List.getD_eq_getElem?_getD, List.getElem?_range (by omega)]; rfl
end

end TN.C20
