import TnVerif.Props.C02
import TnVerif.Props.C03
import TnVerif.Generated
import TnVerif.Lemmas.Einsum
/-!
# C18 — batch tensors behave as independent stacks of ordinary tensors

Specification by refinement: a batch tensor *is* the list of its elements, a supported batch
operation is the ordinary operation on each element.  Every theorem about ordinary tensors (C01–C04,
C13) therefore transfers element by element (`elem_*`).  That the batched code paths of /repo refine
to this specification is established by the correspondence (each element's cores against the
non-batch Lean model on that element), not by a theorem: the batched branches are separate Python
code with no Lean model of their own.  The list of functions that reject batch tensors is extracted
from the source on every run.
-/
namespace TN.C18
open TN
variable {R : Type} [CommSemiring R]

/-- a batch tensor: one ordinary tensor per batch element (all of the same format) -/
abbrev BTensor (R : Type) := List (Tensor R)

def addB (x y : BTensor R) : BTensor R := List.zipWith Tensor.add x y
def mulB (x y : BTensor R) : BTensor R := List.zipWith Tensor.mul x y
def getitemB (x : BTensor R) (key : List RawItem) : List (Except IdxErr (Tensor R ⊕ R)) := x.map (·.getitem key)
/-- selection along the batch mode with an integer returns the ordinary tensor -/
def selectB (x : BTensor R) (b : Nat) : Option (Tensor R) := x[b]?

/-- **no mixing, no dropping**: batch element `b` of a sum depends only on elements `b` of the operands,
    and is their ordinary sum — so `C02.add_dense` applies to it -/
theorem elem_add (x y : BTensor R) (b : Nat) (hx : b < x.length) (hy : b < y.length) :
    (addB x y)[b]? = some ((x[b]'hx).add (y[b]'hy)) := by
  simp [addB, List.getElem?_zipWith, hx, hy]

theorem elem_mul (x y : BTensor R) (b : Nat) (hx : b < x.length) (hy : b < y.length) :
    (mulB x y)[b]? = some ((x[b]'hx).mul (y[b]'hy)) := by
  simp [mulB, List.getElem?_zipWith, hx, hy]

/-- the batch size is preserved -/
theorem addB_length (x y : BTensor R) (h : x.length = y.length) : (addB x y).length = x.length := by
  simp [addB, h]

/-- every element of a batched sum decompresses to the element-wise sum of that element's operands -/
theorem addB_dense (x y : BTensor R) (b : Nat) (hx : b < x.length) (hy : b < y.length)
    (hwx : (x[b]'hx).WF) (hwy : (y[b]'hy).WF) (hs : (x[b]'hx).shape = (y[b]'hy).shape) (idx : List Nat) :
    ∃ r, (addB x y)[b]? = some r ∧ r.dense idx = (x[b]'hx).dense idx + (y[b]'hy).dense idx :=
  ⟨_, elem_add x y b hx hy, C02.add_dense _ _ hwx hwy hs idx⟩

theorem mulB_dense (x y : BTensor R) (b : Nat) (hx : b < x.length) (hy : b < y.length)
    (hwx : (x[b]'hx).WF) (hwy : (y[b]'hy).WF) (hs : (x[b]'hx).shape = (y[b]'hy).shape) (idx : List Nat) :
    ∃ r, (mulB x y)[b]? = some r ∧ r.dense idx = (x[b]'hx).dense idx * (y[b]'hy).dense idx :=
  ⟨_, elem_mul x y b hx hy, C02.mul_dense _ _ hwx hwy hs idx⟩

/-- indexing of the non-batch modes acts on every element separately -/
theorem elem_getitem (x : BTensor R) (key : List RawItem) (b : Nat) (hx : b < x.length) :
    (getitemB x key)[b]? = some ((x[b]'hx).getitem key) := by
  simp [getitemB, hx]

/-- **functions that reject batch tensors** — re-extracted from /repo on every run: the functions whose
    body starts with `if <tensor>.batch: raise` -/
theorem batch_guards_from_source :
    Generated.batchGuards = ["anova.anova_decomposition", "automata.accepted_inputs.recursion", "derivatives.active_subspace",
      "derivatives.gradient", "derivatives.partialset", "metrics.sum"] := rfl

/-! ## The batched code paths: every batched einsum of the library acts batch element by batch element

The batched branches of /repo are separate code: next to every plain contraction string (`"ijk,aj->iak"`) there is
a second literal for batch tensors (`"bijk,baj->biak"`).  `Model/Einsum.lean` gives the meaning of such strings;
the theorems below show (1) for EVERY equation: prepending a fresh batch letter to all operands and to the output
gives the einsum that computes, in slot `b`, the plain einsum of the `b`-th slices — nothing is mixed between batch
elements; (2) every batched string extracted from the source is such a lift of the plain string next to it. -/

open TN.Einsum

/-- **no mixing in any batched einsum**: for every equation `s`, every batch letter `β` not occurring in it, all axis
    sizes, operands and batch index `b`, entry `b :: out` of `einsum(lift β s, ops)` is entry `out` of
    `einsum(s, [A[b] for A in ops])`.  Unbounded number of operands, letters and sizes; repeated letters (diagonals,
    as in `"bi,biaaj->bj"`) included. -/
theorem einsum_batch_lift (s : Spec) (β : Char) (hβ : Fresh β s) (dims : Char → Nat) (ops : List (List Nat → R))
    (b : Nat) (out : List Nat) :
    eval (lift β s) dims ops (b :: out) = eval s dims (ops.map (fun A idx => A (b :: idx))) out :=
  eval_lift s β hβ dims ops b out

/-- the hypotheses of `einsum_batch_lift` on the contraction of `__add__` (tensor.py:485-492):
    `lift 'b' "ijk,aj->iak"` is the batched string, and `'b'` is fresh -/
example : lift 'b' (parse "ijk,aj->iak") = parse "bijk,baj->biak" ∧ Fresh 'b' (parse "ijk,aj->iak") := by decide

/-- the same when only some operands carry the batch axis (`mask`), the others being shared by all batch elements
    — no contraction of the library is of this kind today (see `batched_einsums_are_lifts`) -/
theorem einsum_batch_liftMask (s : Spec) (β : Char) (mask : List Bool) (hβ : Fresh β s) (dims : Char → Nat)
    (ops : List (List Nat → R)) (b : Nat) (out : List Nat) :
    eval (liftMask β mask s) dims ops (b :: out) = eval s dims (sliceMask b mask ops) out :=
  eval_liftMask s β mask hβ dims ops b out

example : liftMask 'b' [true, false] (parse "ij,j->i") = parse "bij,j->bi" ∧ Fresh 'b' (parse "ij,j->i") := by decide

/-- **evaluation does not depend on the letter names**, so the alpha-normalised strings of `Generated.lean` mean the
    same as the strings in the source: renaming by a map injective on the equation's letters, sizes renamed along -/
theorem einsum_eval_rename (s : Spec) (ρ : Char → Char) (hρ : InjOn ρ (s.ins.flatten ++ s.out)) (dims : Char → Nat)
    (ops : List (List Nat → R)) (out : List Nat) :
    eval (rename ρ s) dims ops out = eval s (fun c => dims (ρ c)) ops out :=
  eval_rename s ρ hρ dims ops out

example : InjOn (fun c => if c = 'i' then 'x' else c) ((parse "ij,jk->ik").ins.flatten ++ (parse "ij,jk->ik").out) ∧
    rename (fun c => if c = 'i' then 'x' else c) (parse "ij,jk->ik") = parse "xj,jk->xk" := by
  unfold InjOn; decide

/-- … in particular for the renaming `alpha` of extract.py (at most 26 distinct letters) -/
theorem einsum_eval_alpha (s : Spec) (hl : s.letters.length ≤ 26) (dims : Char → Nat) (ops : List (List Nat → R))
    (out : List Nat) :
    eval (alphaNorm s) dims ops out = eval s (fun c => dims (alphaMap s c)) ops out :=
  eval_alphaNorm s hl dims ops out

example : alphaNorm (parse "bijk,baj->biak") = parse "abcd,aec->abed" ∧ (parse "bijk,baj->biak").letters.length ≤ 26 := by
  decide

/-- `strip` is the inverse of `lift`: it succeeds exactly on the lifted equations -/
theorem strip_iff_lift (s t : Spec) : strip s = some t ↔ ∃ β, s = lift β t ∧ Fresh β t :=
  ⟨strip_eq_some, fun ⟨β, hs, hf⟩ => hs ▸ strip_lift β t hf⟩

/-- `torch.einsum` accepts the batched equation whenever it accepts the plain one -/
theorem einsum_lift_wf (β : Char) (s : Spec) (hβ : Fresh β s) (hα : isLetter β = true) (hne : s.ins ≠ [])
    (h : s.wf = true) : (lift β s).wf = true :=
  lift_wf β s hβ hα hne h

example : Fresh 'b' (parse "i,iaaj->j") ∧ isLetter 'b' = true ∧ (parse "i,iaaj->j").ins ≠ [] ∧ (parse "i,iaaj->j").wf = true ∧
    lift 'b' (parse "i,iaaj->j") = parse "bi,biaaj->bj" := by decide

private def nth (l : List String) (i : Nat) : String := l.getD i ""

/-- **the (batched, plain) einsum pairs of the library**, taken by position from the per-function lists that
    extract.py regenerates from /repo on every run: all functions having an `if <…>.batch: … else: …` with einsum
    strings in both branches.  tensor.py: `__init__` 336/345, `__add__` 486/490, `__mul__` 703-709,
    `__getitem__` 1115-1132, 1216-1236, 1324-1341, 1356-1382, 1397-1425, `decompress_tucker_factors` 1703-1716,
    `torch` 1756-1766, `factor_orthogonalize` 1895-1900, `round_tucker` 2107/2109, `round_tt` 2183/2190;
    tools.py `ttm` 320-328; matrix.py `TTMatrix.trace` 169/172. -/
def pairs : List (String × String) :=
  let ini := Generated.einsum_tensor_Tensor___init__
  let add := Generated.einsum_tensor_Tensor___add__
  let mul := Generated.einsum_tensor_Tensor___mul__
  let gi := Generated.einsum_tensor_Tensor___getitem__
  let dtf := Generated.einsum_tensor_Tensor_decompress_tucker_factors
  let tor := Generated.einsum_tensor_Tensor_torch
  let fo := Generated.einsum_tensor_Tensor_factor_orthogonalize
  let rtk := Generated.einsum_tensor_Tensor_round_tucker
  let rtt := Generated.einsum_tensor_Tensor_round_tt
  let ttm := Generated.einsum_tools_ttm
  let tr := Generated.einsum_matrix_TTMatrix_trace
  [ (nth tr 0, nth tr 1),
    (nth add 0, nth add 1),
    -- __getitem__: five blocks of 4 batched followed by 4 plain strings
    (nth gi 0, nth gi 4), (nth gi 1, nth gi 5), (nth gi 2, nth gi 6), (nth gi 3, nth gi 7),
    (nth gi 8, nth gi 12), (nth gi 9, nth gi 13), (nth gi 10, nth gi 14), (nth gi 11, nth gi 15),
    (nth gi 16, nth gi 20), (nth gi 17, nth gi 21), (nth gi 18, nth gi 22), (nth gi 19, nth gi 23),
    (nth gi 24, nth gi 28), (nth gi 25, nth gi 29), (nth gi 26, nth gi 30), (nth gi 27, nth gi 31),
    (nth gi 32, nth gi 36), (nth gi 33, nth gi 37), (nth gi 34, nth gi 38), (nth gi 35, nth gi 39),
    (nth ini 0, nth ini 1),
    (nth mul 0, nth mul 3), (nth mul 1, nth mul 4), (nth mul 2, nth mul 5),
    (nth dtf 0, nth dtf 2), (nth dtf 1, nth dtf 3),
    (nth fo 0, nth fo 2), (nth fo 1, nth fo 3),
    (nth rtt 0, nth rtt 1),
    (nth rtk 0, nth rtk 1),
    (nth tor 0, nth tor 3), (nth tor 1, nth tor 4), (nth tor 2, nth tor 5),
    (nth ttm 0, nth ttm 2), (nth ttm 1, nth ttm 3) ]

/-- the per-function lists have exactly the lengths the positions above assume (no string is left over) -/
theorem pairs_cover_lists :
    [Generated.einsum_tensor_Tensor___init__, Generated.einsum_tensor_Tensor___add__,
     Generated.einsum_tensor_Tensor___mul__, Generated.einsum_tensor_Tensor___getitem__,
     Generated.einsum_tensor_Tensor_decompress_tucker_factors, Generated.einsum_tensor_Tensor_torch,
     Generated.einsum_tensor_Tensor_factor_orthogonalize, Generated.einsum_tensor_Tensor_round_tucker,
     Generated.einsum_tensor_Tensor_round_tt, Generated.einsum_tools_ttm,
     Generated.einsum_matrix_TTMatrix_trace].map List.length = [2, 2, 6, 40, 4, 6, 4, 2, 2, 4, 2] := by decide

/-- the check made on every pair: the batched equation is the batch lift of the plain one (`isBatchLiftOf`); both
    are accepted by `torch.einsum`; the letter counts are within the alphabet; the plain string is in normal form -/
def pairOK (p : String × String) : Bool :=
  isBatchLiftOf (parse p.1) (parse p.2) && (parse p.1).wf && (parse p.2).wf &&
    decide ((parse p.1).letters.length ≤ 27) && decide ((parse p.2).letters.length ≤ 26) &&
    decide (alphaNorm (parse p.2) = parse p.2)

/-- the pairs in blocks of 8 (the kernel evaluates each block separately, a few seconds per block) -/
private def chunk (k : Nat) : List (String × String) := (pairs.drop (8 * k)).take 8

theorem pairs_ok_0 : (chunk 0).all pairOK = true := by decide +kernel
theorem pairs_ok_1 : (chunk 1).all pairOK = true := by decide +kernel
theorem pairs_ok_2 : (chunk 2).all pairOK = true := by decide +kernel
theorem pairs_ok_3 : (chunk 3).all pairOK = true := by decide +kernel
theorem pairs_ok_4 : (chunk 4).all pairOK = true := by decide +kernel

theorem pairs_ok : pairs.all pairOK = true := by
  have e : pairs = chunk 0 ++ (chunk 1 ++ (chunk 2 ++ (chunk 3 ++ chunk 4))) := by decide
  rw [e]
  simp only [List.all_append, pairs_ok_0, pairs_ok_1, pairs_ok_2, pairs_ok_3, pairs_ok_4, Bool.and_self]

/-- **every batched einsum string of the library is the batch lift of the plain string next to it** (up to the
    names of the letters): its output and all its operands start with one letter that occurs nowhere else, and
    dropping it gives the plain equation.  Re-checked against the source on every run. -/
theorem batched_einsums_are_lifts : pairs.all (fun p => isBatchLiftOf (parse p.1) (parse p.2)) = true := by
  apply List.all_eq_true.mpr
  intro p hp
  have h := List.all_eq_true.mp pairs_ok p hp
  simp only [pairOK, Bool.and_eq_true] at h
  exact h.1.1.1.1.1

/-- **the batched code paths act element by element**: for every (batched, plain) pair of the library, all axis
    sizes `d` (of the plain equation's letters; `alphaMap S` reads them for the batched equation's letters, `S` being
    the batched equation without its batch letter), all operands and every batch index `b`: slot `b` of the batched
    einsum is the plain einsum of the `b`-th slices of the operands. -/
theorem batched_einsums_slicewise (p : String × String) (hp : p ∈ pairs) :
    ∃ S, strip (parse p.1) = some S ∧ ∀ (d : Char → Nat) (ops : List (List Nat → R)) (b : Nat) (out : List Nat),
      eval (parse p.1) (fun c => d (alphaMap S c)) ops (b :: out)
        = eval (parse p.2) d (ops.map (fun A idx => A (b :: idx))) out := by
  have h := List.all_eq_true.mp pairs_ok p hp
  simp only [pairOK, Bool.and_eq_true, decide_eq_true_eq] at h
  exact eval_of_isBatchLiftOf_norm _ _ h.1.1.1.1.1 h.1.1.2 h.1.2 h.2

example : ("abcd,aec->abed", "abc,db->adc") ∈ pairs := by decide

/-- the one batched einsum WITHOUT a plain einsum next to it: `truncated_svd` (round.py:180-183) scales the columns
    with `einsum("bij,bj->bij")` for batches and with the broadcast product `left * svd[1][:rank]` otherwise; the
    latter is `"ij,j->ij"`, of which the former is the lift -/
theorem truncated_svd_scale_is_lift :
    isBatchLiftOf (parse (nth Generated.einsum_round_truncated_svd 0)) (parse "ij,j->ij") = true := by decide

/-- the plain branch of `round_tt` (tensor.py:2189-2191) is the only einsum of the library written WITHOUT `->`
    (`"ijk,kl"`): its output is implicit (letters occurring once, alphabetically), i.e. it means `"ijk,kl->ijl"`,
    and the normalised string in `Generated.lean` means the same -/
theorem round_tt_implicit_output :
    parse "ijk,kl" = parse "ijk,kl->ijl" ∧
    alphaNorm (parse "ijk,kl") = parse (nth Generated.einsum_tensor_Tensor_round_tt 1) := by decide

/-! ### completeness of `pairs` (uses `Generated.batchPairs` / `Generated.batchUnpaired`, which only the extract.py
    proposed in REPORT.md §extract emits — drop these two theorems if that change is not merged) -/

/-- **`pairs` is complete**: extract.py finds every `if <…batch…>: A else: B` of the source and pairs the einsum
    strings of `A` and `B` by position; the result is exactly the list `pairs` above -/
theorem pairs_complete : Generated.batchPairs.map (fun t => (t.2.1, t.2.2)) = pairs := by decide

/-- … and the only einsum string in such an `if` without a counterpart in the other branch is the column scaling
    of `truncated_svd` (see `truncated_svd_scale_is_lift`) -/
theorem unpaired_from_source :
    Generated.batchUnpaired = [("round.truncated_svd", "batched", "bij,bj->bij")] := by
  decide

end TN.C18
