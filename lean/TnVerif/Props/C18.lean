import TnVerif.Props.C02
import TnVerif.Props.C03
import TnVerif.Generated
import TnVerif.Lemmas.Einsum
import TnVerif.Model.BatchScalar
/-!
# C18 — batch tensors behave as independent stacks of ordinary tensors

Specification by refinement: a batch tensor *is* the list of its elements, a supported batch
operation is the ordinary operation on each element.  Every theorem about ordinary tensors (C01–C04,
C13) therefore transfers element by element (`elem_*`).  That the batched code paths of /repo refine
to this specification is established by the correspondence (each element's cores against the
non-batch Lean model on that element), not by a theorem: the batched branches are separate Python
code with no Lean model of their own.  The list of functions that reject batch tensors is extracted
from the source on every run.
-/
namespace TN.C18
open TN
variable {R : Type} [CommSemiring R]

/-- a batch tensor: one ordinary tensor per batch element (all of the same format) -/
abbrev BTensor (R : Type) := List (Tensor R)

def addB (x y : BTensor R) : BTensor R := List.zipWith Tensor.add x y
def mulB (x y : BTensor R) : BTensor R := List.zipWith Tensor.mul x y
def getitemB (x : BTensor R) (key : List RawItem) : List (Except IdxErr (Tensor R ⊕ R)) := x.map (·.getitem key)
/-- selection along the batch mode with an integer returns the ordinary tensor -/
def selectB (x : BTensor R) (b : Nat) : Option (Tensor R) := x[b]?

/-- **no mixing, no dropping**: batch element `b` of a sum depends only on elements `b` of the operands,
    and is their ordinary sum — so `C02.add_dense` applies to it -/
theorem elem_add (x y : BTensor R) (b : Nat) (hx : b < x.length) (hy : b < y.length) :
    (addB x y)[b]? = some ((x[b]'hx).add (y[b]'hy)) := by
  simp [addB, List.getElem?_zipWith, hx, hy]

theorem elem_mul (x y : BTensor R) (b : Nat) (hx : b < x.length) (hy : b < y.length) :
    (mulB x y)[b]? = some ((x[b]'hx).mul (y[b]'hy)) := by
  simp [mulB, List.getElem?_zipWith, hx, hy]

/-- the batch size is preserved -/
theorem addB_length (x y : BTensor R) (h : x.length = y.length) : (addB x y).length = x.length := by
  simp [addB, h]

/-- every element of a batched sum decompresses to the element-wise sum of that element's operands -/
theorem addB_dense (x y : BTensor R) (b : Nat) (hx : b < x.length) (hy : b < y.length)
    (hwx : (x[b]'hx).WF) (hwy : (y[b]'hy).WF) (hs : (x[b]'hx).shape = (y[b]'hy).shape) (idx : List Nat) :
    ∃ r, (addB x y)[b]? = some r ∧ r.dense idx = (x[b]'hx).dense idx + (y[b]'hy).dense idx :=
  ⟨_, elem_add x y b hx hy, C02.add_dense _ _ hwx hwy hs idx⟩

theorem mulB_dense (x y : BTensor R) (b : Nat) (hx : b < x.length) (hy : b < y.length)
    (hwx : (x[b]'hx).WF) (hwy : (y[b]'hy).WF) (hs : (x[b]'hx).shape = (y[b]'hy).shape) (idx : List Nat) :
    ∃ r, (mulB x y)[b]? = some r ∧ r.dense idx = (x[b]'hx).dense idx * (y[b]'hy).dense idx :=
  ⟨_, elem_mul x y b hx hy, C02.mul_dense _ _ hwx hwy hs idx⟩

/-- indexing of the non-batch modes acts on every element separately -/
theorem elem_getitem (x : BTensor R) (key : List RawItem) (b : Nat) (hx : b < x.length) :
    (getitemB x key)[b]? = some ((x[b]'hx).getitem key) := by
  simp [getitemB, hx]

/-- **functions that reject batch tensors** — re-extracted from /repo on every run: the functions whose
    body starts with `if <tensor>.batch: raise` -/
theorem batch_guards_from_source :
    Generated.batchGuards = ["anova.anova_decomposition", "automata.accepted_inputs.recursion", "derivatives.active_subspace",
      "derivatives.gradient", "derivatives.partialset", "metrics.sum"] := rfl

/-! ## The batched code paths: every batched einsum of the library acts batch element by batch element

The batched branches of /repo are separate code: next to every plain contraction string (`"ijk,aj->iak"`) there is
a second literal for batch tensors (`"bijk,baj->biak"`).  `Model/Einsum.lean` gives the meaning of such strings;
the theorems below show (1) for EVERY equation: prepending a fresh batch letter to all operands and to the output
gives the einsum that computes, in slot `b`, the plain einsum of the `b`-th slices — nothing is mixed between batch
elements; (2) every batched string extracted from the source is such a lift of the plain string next to it. -/

open TN.Einsum

/-- **no mixing in any batched einsum**: for every equation `s`, every batch letter `β` not occurring in it, all axis
    sizes, operands and batch index `b`, entry `b :: out` of `einsum(lift β s, ops)` is entry `out` of
    `einsum(s, [A[b] for A in ops])`.  Unbounded number of operands, letters and sizes; repeated letters (diagonals,
    as in `"bi,biaaj->bj"`) included. -/
theorem einsum_batch_lift (s : Spec) (β : Char) (hβ : Fresh β s) (dims : Char → Nat) (ops : List (List Nat → R))
    (b : Nat) (out : List Nat) :
    eval (lift β s) dims ops (b :: out) = eval s dims (ops.map (fun A idx => A (b :: idx))) out :=
  eval_lift s β hβ dims ops b out

/-- the hypotheses of `einsum_batch_lift` on the contraction of `__add__` (tensor.py:485-492):
    `lift 'b' "ijk,aj->iak"` is the batched string, and `'b'` is fresh -/
example : lift 'b' (parse "ijk,aj->iak") = parse "bijk,baj->biak" ∧ Fresh 'b' (parse "ijk,aj->iak") := by decide

/-- the same when only some operands carry the batch axis (`mask`), the others being shared by all batch elements
    — no contraction of the library is of this kind today (see `batched_einsums_are_lifts`) -/
theorem einsum_batch_liftMask (s : Spec) (β : Char) (mask : List Bool) (hβ : Fresh β s) (dims : Char → Nat)
    (ops : List (List Nat → R)) (b : Nat) (out : List Nat) :
    eval (liftMask β mask s) dims ops (b :: out) = eval s dims (sliceMask b mask ops) out :=
  eval_liftMask s β mask hβ dims ops b out

example : liftMask 'b' [true, false] (parse "ij,j->i") = parse "bij,j->bi" ∧ Fresh 'b' (parse "ij,j->i") := by decide

/-- **evaluation does not depend on the letter names**, so the alpha-normalised strings of `Generated.lean` mean the
    same as the strings in the source: renaming by a map injective on the equation's letters, sizes renamed along -/
theorem einsum_eval_rename (s : Spec) (ρ : Char → Char) (hρ : InjOn ρ (s.ins.flatten ++ s.out)) (dims : Char → Nat)
    (ops : List (List Nat → R)) (out : List Nat) :
    eval (rename ρ s) dims ops out = eval s (fun c => dims (ρ c)) ops out :=
  eval_rename s ρ hρ dims ops out

example : InjOn (fun c => if c = 'i' then 'x' else c) ((parse "ij,jk->ik").ins.flatten ++ (parse "ij,jk->ik").out) ∧
    rename (fun c => if c = 'i' then 'x' else c) (parse "ij,jk->ik") = parse "xj,jk->xk" := by
  unfold InjOn; decide

/-- … in particular for the renaming `alpha` of extract.py (at most 26 distinct letters) -/
theorem einsum_eval_alpha (s : Spec) (hl : s.letters.length ≤ 26) (dims : Char → Nat) (ops : List (List Nat → R))
    (out : List Nat) :
    eval (alphaNorm s) dims ops out = eval s (fun c => dims (alphaMap s c)) ops out :=
  eval_alphaNorm s hl dims ops out

example : alphaNorm (parse "bijk,baj->biak") = parse "abcd,aec->abed" ∧ (parse "bijk,baj->biak").letters.length ≤ 26 := by
  decide

/-- `strip` is the inverse of `lift`: it succeeds exactly on the lifted equations -/
theorem strip_iff_lift (s t : Spec) : strip s = some t ↔ ∃ β, s = lift β t ∧ Fresh β t :=
  ⟨strip_eq_some, fun ⟨β, hs, hf⟩ => hs ▸ strip_lift β t hf⟩

/-- `torch.einsum` accepts the batched equation whenever it accepts the plain one -/
theorem einsum_lift_wf (β : Char) (s : Spec) (hβ : Fresh β s) (hα : isLetter β = true) (hne : s.ins ≠ [])
    (h : s.wf = true) : (lift β s).wf = true :=
  lift_wf β s hβ hα hne h

example : Fresh 'b' (parse "i,iaaj->j") ∧ isLetter 'b' = true ∧ (parse "i,iaaj->j").ins ≠ [] ∧ (parse "i,iaaj->j").wf = true ∧
    lift 'b' (parse "i,iaaj->j") = parse "bi,biaaj->bj" := by decide

private def nth (l : List String) (i : Nat) : String := l.getD i ""

/-- **the (batched, plain) einsum pairs of the library**, taken by position from the per-function lists that
    extract.py regenerates from /repo on every run: all functions having an `if <…>.batch: … else: …` with einsum
    strings in both branches.  tensor.py: `__init__` 336/345, `__add__` 486/490, `__mul__` 703-709,
    `__getitem__` 1115-1132, 1216-1236, 1324-1341, 1356-1382, 1397-1425, `decompress_tucker_factors` 1703-1716,
    `torch` 1756-1766, `factor_orthogonalize` 1895-1900, `round_tucker` 2107/2109, `round_tt` 2183/2190;
    tools.py `ttm` 320-328; matrix.py `TTMatrix.trace` 169/172. -/
def pairs : List (String × String) :=
  let ini := Generated.einsum_tensor_Tensor___init__
  let add := Generated.einsum_tensor_Tensor___add__
  let mul := Generated.einsum_tensor_Tensor___mul__
  let gi := Generated.einsum_tensor_Tensor___getitem__
  let dtf := Generated.einsum_tensor_Tensor_decompress_tucker_factors
  let tor := Generated.einsum_tensor_Tensor_torch
  let fo := Generated.einsum_tensor_Tensor_factor_orthogonalize
  let rtk := Generated.einsum_tensor_Tensor_round_tucker
  let rtt := Generated.einsum_tensor_Tensor_round_tt
  let ttm := Generated.einsum_tools_ttm
  let tr := Generated.einsum_matrix_TTMatrix_trace
  [ (nth tr 0, nth tr 1),
    (nth add 0, nth add 1),
    -- __getitem__: five blocks of 4 batched followed by 4 plain strings
    (nth gi 0, nth gi 4), (nth gi 1, nth gi 5), (nth gi 2, nth gi 6), (nth gi 3, nth gi 7),
    (nth gi 8, nth gi 12), (nth gi 9, nth gi 13), (nth gi 10, nth gi 14), (nth gi 11, nth gi 15),
    (nth gi 16, nth gi 20), (nth gi 17, nth gi 21), (nth gi 18, nth gi 22), (nth gi 19, nth gi 23),
    (nth gi 24, nth gi 28), (nth gi 25, nth gi 29), (nth gi 26, nth gi 30), (nth gi 27, nth gi 31),
    (nth gi 32, nth gi 36), (nth gi 33, nth gi 37), (nth gi 34, nth gi 38), (nth gi 35, nth gi 39),
    (nth ini 0, nth ini 1),
    (nth mul 0, nth mul 3), (nth mul 1, nth mul 4), (nth mul 2, nth mul 5),
    (nth dtf 0, nth dtf 2), (nth dtf 1, nth dtf 3),
    (nth fo 0, nth fo 2), (nth fo 1, nth fo 3),
    (nth rtt 0, nth rtt 1),
    (nth rtk 0, nth rtk 1),
    (nth tor 0, nth tor 3), (nth tor 1, nth tor 4), (nth tor 2, nth tor 5),
    (nth ttm 0, nth ttm 2), (nth ttm 1, nth ttm 3) ]

/-- the per-function lists have exactly the lengths the positions above assume (no string is left over) -/
theorem pairs_cover_lists :
    [Generated.einsum_tensor_Tensor___init__, Generated.einsum_tensor_Tensor___add__,
     Generated.einsum_tensor_Tensor___mul__, Generated.einsum_tensor_Tensor___getitem__,
     Generated.einsum_tensor_Tensor_decompress_tucker_factors, Generated.einsum_tensor_Tensor_torch,
     Generated.einsum_tensor_Tensor_factor_orthogonalize, Generated.einsum_tensor_Tensor_round_tucker,
     Generated.einsum_tensor_Tensor_round_tt, Generated.einsum_tools_ttm,
     Generated.einsum_matrix_TTMatrix_trace].map List.length = [2, 2, 6, 40, 4, 6, 4, 2, 2, 4, 2] := by decide

/-- the check made on every pair: the batched equation is the batch lift of the plain one (`isBatchLiftOf`); both
    are accepted by `torch.einsum`; the letter counts are within the alphabet; the plain string is in normal form -/
def pairOK (p : String × String) : Bool :=
  isBatchLiftOf (parse p.1) (parse p.2) && (parse p.1).wf && (parse p.2).wf &&
    decide ((parse p.1).letters.length ≤ 27) && decide ((parse p.2).letters.length ≤ 26) &&
    decide (alphaNorm (parse p.2) = parse p.2)

/-- the pairs in blocks of 8 (the kernel evaluates each block separately, a few seconds per block) -/
private def chunk (k : Nat) : List (String × String) := (pairs.drop (8 * k)).take 8

theorem pairs_ok_0 : (chunk 0).all pairOK = true := by decide +kernel
theorem pairs_ok_1 : (chunk 1).all pairOK = true := by decide +kernel
theorem pairs_ok_2 : (chunk 2).all pairOK = true := by decide +kernel
theorem pairs_ok_3 : (chunk 3).all pairOK = true := by decide +kernel
theorem pairs_ok_4 : (chunk 4).all pairOK = true := by decide +kernel

theorem pairs_ok : pairs.all pairOK = true := by
  have e : pairs = chunk 0 ++ (chunk 1 ++ (chunk 2 ++ (chunk 3 ++ chunk 4))) := by decide
  rw [e]
  simp only [List.all_append, pairs_ok_0, pairs_ok_1, pairs_ok_2, pairs_ok_3, pairs_ok_4, Bool.and_self]

/-- **every batched einsum string of the library is the batch lift of the plain string next to it** (up to the
    names of the letters): its output and all its operands start with one letter that occurs nowhere else, and
    dropping it gives the plain equation.  Re-checked against the source on every run. -/
theorem batched_einsums_are_lifts : pairs.all (fun p => isBatchLiftOf (parse p.1) (parse p.2)) = true := by
  apply List.all_eq_true.mpr
  intro p hp
  have h := List.all_eq_true.mp pairs_ok p hp
  simp only [pairOK, Bool.and_eq_true] at h
  exact h.1.1.1.1.1

/-- **the batched code paths act element by element**: for every (batched, plain) pair of the library, all axis
    sizes `d` (of the plain equation's letters; `alphaMap S` reads them for the batched equation's letters, `S` being
    the batched equation without its batch letter), all operands and every batch index `b`: slot `b` of the batched
    einsum is the plain einsum of the `b`-th slices of the operands. -/
theorem batched_einsums_slicewise (p : String × String) (hp : p ∈ pairs) :
    ∃ S, strip (parse p.1) = some S ∧ ∀ (d : Char → Nat) (ops : List (List Nat → R)) (b : Nat) (out : List Nat),
      eval (parse p.1) (fun c => d (alphaMap S c)) ops (b :: out)
        = eval (parse p.2) d (ops.map (fun A idx => A (b :: idx))) out := by
  have h := List.all_eq_true.mp pairs_ok p hp
  simp only [pairOK, Bool.and_eq_true, decide_eq_true_eq] at h
  exact eval_of_isBatchLiftOf_norm _ _ h.1.1.1.1.1 h.1.1.2 h.1.2 h.2

example : ("abcd,aec->abed", "abc,db->adc") ∈ pairs := by decide

/-- the one batched einsum WITHOUT a plain einsum next to it: `truncated_svd` (round.py:180-183) scales the columns
    with `einsum("bij,bj->bij")` for batches and with the broadcast product `left * svd[1][:rank]` otherwise; the
    latter is `"ij,j->ij"`, of which the former is the lift -/
theorem truncated_svd_scale_is_lift :
    isBatchLiftOf (parse (nth Generated.einsum_round_truncated_svd 0)) (parse "ij,j->ij") = true := by decide

/-- the plain branch of `round_tt` (tensor.py:2189-2191) is the only einsum of the library written WITHOUT `->`
    (`"ijk,kl"`): its output is implicit (letters occurring once, alphabetically), i.e. it means `"ijk,kl->ijl"`,
    and the normalised string in `Generated.lean` means the same -/
theorem round_tt_implicit_output :
    parse "ijk,kl" = parse "ijk,kl->ijl" ∧
    alphaNorm (parse "ijk,kl") = parse (nth Generated.einsum_tensor_Tensor_round_tt 1) := by decide

/-! ### completeness of `pairs` (uses `Generated.batchPairs` / `Generated.batchUnpaired`, which only the extract.py
    proposed in REPORT.md §extract emits — drop these two theorems if that change is not merged) -/

/-- **`pairs` is complete**: extract.py finds every `if <…batch…>: A else: B` of the source and pairs the einsum
    strings of `A` and `B` by position; the result is exactly the list `pairs` above -/
theorem pairs_complete : Generated.batchPairs.map (fun t => (t.2.1, t.2.2)) = pairs := by decide

/-- … and the only einsum string in such an `if` without a counterpart in the other branch is the column scaling
    of `truncated_svd` (see `truncated_svd_scale_is_lift`) -/
theorem unpaired_from_source :
    Generated.batchUnpaired = [("round.truncated_svd", "batched", "bij,bj->bij")] := by
  decide

/-! ## Scalar operations on batch tensors (`Model/BatchScalar.lean`)

`bt * c`, `c * bt`, `bt / c`, `-bt`, `bt + c`, `c + bt`, `bt - c`, `c - bt` for a number `c` and a batch tensor `bt`
(tensor.py:449-476, 668-699, 799-805).  Element `b` of the result IS (structurally: same cores, same factors) the
non-batch operation on element `b`; the batch size is unchanged; hence the dense entries are `c * entry`, `entry + c`. -/

/-- **`bt * c`, no mixing**: batch element `b` of `bt * c` is `bt[b] * c` — the same cores: every core of element `b`
    times the common root `ρ = |c|^(1/N)`, its first core times `sign c` -/
theorem elem_smul (ρ sgn : R) (x : BTensor R) (b : Nat) (hx : b < x.length) :
    (smulB ρ sgn x)[b]? = some ((x[b]'hx).scalarMul ρ sgn) := by
  simp [smulB, hx]

/-- **`bt * c`, no dropping**: the result has as many batch elements as `bt` -/
theorem smulB_length (ρ sgn : R) (x : BTensor R) : (smulB ρ sgn x).length = x.length := by
  simp [smulB]

/-- the constant batch tensor that `bt + c` builds has the batch size of `bt` (`self.shape[0]`), every element being the
    non-batch constant tensor of `t + c` -/
theorem elem_constB (c : R) (B : Nat) (shape : List Nat) (b : Nat) (hb : b < B) :
    (constB c B shape)[b]? = some (Tensor.constLike c shape) := by
  simp [constB, hb]

/-- `bt + c` is the batch sum (`addB`) of `bt` and that constant batch tensor -/
theorem saddB_eq_addB (c : R) (x : BTensor R) : saddB c x = addB x (constB c x.length (batchShape x)) := rfl

/-- **`bt + c`, no mixing**: batch element `b` of `bt + c` is `bt[b] + c` (same cores and factors), provided element `b`
    has the batch's shape (all elements of a batch tensor do: the stacked cores have one shape) -/
theorem elem_sadd (c : R) (x : BTensor R) (b : Nat) (hx : b < x.length) (hs : (x[b]'hx).shape = batchShape x) :
    (saddB c x)[b]? = some ((x[b]'hx).scalarAdd c) := by
  simp [saddB, constB, hx, Tensor.scalarAdd, hs]

/-- **`bt + c`, no dropping**: the result has as many batch elements as `bt` (whatever the elements are) -/
theorem saddB_length (c : R) (x : BTensor R) : (saddB c x).length = x.length := by
  simp [saddB, constB]

/-- every entry of every batch element of `bt * c` is `c` times that entry of that element, under the contract of
    `C02.scalarMul_dense` on the root the kernel delivers: `sgn * ρ^N = c`, `N` the number of non-batch modes -/
theorem smulB_dense (ρ sgn c : R) (x : BTensor R) (b : Nat) (hx : b < x.length) (hw : (x[b]'hx).WF)
    (hc : sgn * ρ ^ (x[b]'hx).length = c) (idx : List Nat) (hi : idx.length = (x[b]'hx).length) :
    ∃ r, (smulB ρ sgn x)[b]? = some r ∧ r.dense idx = c * (x[b]'hx).dense idx :=
  ⟨_, elem_smul ρ sgn x b hx, C02.scalarMul_dense ρ sgn c _ hw hc idx hi⟩

/-- every entry of every batch element of `bt + c` is that entry of that element plus `c` -/
theorem saddB_dense (c : R) (x : BTensor R) (b : Nat) (hx : b < x.length) (hw : (x[b]'hx).WF)
    (hs : (x[b]'hx).shape = batchShape x) (idx : List Nat) (hi : idx.length = (x[b]'hx).length) :
    ∃ r, (saddB c x)[b]? = some r ∧ r.dense idx = (x[b]'hx).dense idx + c :=
  ⟨_, elem_sadd c x b hx hs, C02.scalarAdd_dense c _ hw idx hi⟩

/-- a well-formed batch tensor: every element is a well-formed tensor of the batch's shape -/
def BatchWF (x : BTensor R) : Prop := ∀ t ∈ x, t.WF ∧ t.shape = batchShape x

/-- the result of `bt * c` is again a well-formed batch tensor, of the same shape -/
theorem smulB_wf (ρ sgn : R) (x : BTensor R) (h : BatchWF x) :
    BatchWF (smulB ρ sgn x) ∧ batchShape (smulB ρ sgn x) = batchShape x := by
  have hsh : batchShape (smulB ρ sgn x) = batchShape x := by
    cases x with
    | nil => rfl
    | cons t ts => simp [smulB, batchShape, (C02.scalarMul_wf_shape ρ sgn t (h t (by simp)).1).2]
  refine ⟨?_, hsh⟩
  intro t ht
  simp only [smulB, List.mem_map] at ht
  obtain ⟨u, hu, rfl⟩ := ht
  obtain ⟨w, s⟩ := C02.scalarMul_wf_shape ρ sgn u (h u hu).1
  exact ⟨w, by rw [s, hsh, (h u hu).2]⟩

/-- the result of `bt + c` is again a well-formed batch tensor, of the same shape -/
theorem saddB_wf (c : R) (x : BTensor R) (h : BatchWF x) :
    BatchWF (saddB c x) ∧ batchShape (saddB c x) = batchShape x := by
  have key : saddB c x = x.map (Tensor.scalarAdd c) := by
    apply List.ext_getElem?
    intro b
    by_cases hb : b < x.length
    · rw [elem_sadd c x b hb (h _ (List.getElem_mem hb)).2]; simp [hb]
    · have h1 : (saddB c x).length ≤ b := by rw [saddB_length]; omega
      have h2 : (x.map (Tensor.scalarAdd c)).length ≤ b := by simp; omega
      rw [List.getElem?_eq_none h1, List.getElem?_eq_none h2]
  have hsh : batchShape (saddB c x) = batchShape x := by
    rw [key]
    cases x with
    | nil => rfl
    | cons t ts => simp [batchShape, (C02.scalarAdd_wf_shape c t (h t (by simp)).1).2]
  refine ⟨?_, hsh⟩
  intro t ht
  rw [key] at ht
  simp only [List.mem_map] at ht
  obtain ⟨u, hu, rfl⟩ := ht
  obtain ⟨w, s⟩ := C02.scalarAdd_wf_shape c u (h u hu).1
  exact ⟨w, by rw [s, hsh, (h u hu).2]⟩

section ring
variable {S : Type} [CommRing S]

/-- **`-bt`**: batch element `b` of `-bt` is `-(bt[b])` (the same cores: first core negated) -/
theorem elem_neg (x : BTensor S) (b : Nat) (hx : b < x.length) : (negB x)[b]? = some (x[b]'hx).neg := by
  simp [negB, smulB, hx, Tensor.neg]

theorem negB_length (x : BTensor S) : (negB x).length = x.length := smulB_length 1 (-1) x

/-- every entry of every batch element of `-bt` is minus that entry -/
theorem negB_dense (x : BTensor S) (b : Nat) (hx : b < x.length) (hw : (x[b]'hx).WF) (idx : List Nat)
    (hi : idx.length = (x[b]'hx).length) : ∃ r, (negB x)[b]? = some r ∧ r.dense idx = - (x[b]'hx).dense idx :=
  ⟨_, elem_neg x b hx, C02.neg_dense _ hw idx hi⟩

/-- **`bt - c`** (scalar `c`): every entry of batch element `b` is that entry of `bt[b]` minus `c` -/
theorem ssubB_dense (c : S) (x : BTensor S) (b : Nat) (hx : b < x.length) (hw : (x[b]'hx).WF)
    (hs : (x[b]'hx).shape = batchShape x) (idx : List Nat) (hi : idx.length = (x[b]'hx).length) :
    ∃ r, (ssubB c x)[b]? = some r ∧ r.dense idx = (x[b]'hx).dense idx - c := by
  obtain ⟨r, h1, h2⟩ := saddB_dense (-1 * c) x b hx hw hs idx hi
  exact ⟨r, h1, by rw [h2]; ring⟩

/-- **`c - bt`** (scalar `c`): every entry of batch element `b` is `c` minus that entry of `bt[b]` -/
theorem rsubB_dense (c : S) (x : BTensor S) (b : Nat) (hx : b < x.length) (hw : (x[b]'hx).WF)
    (hs : (x[b]'hx).shape = batchShape x) (idx : List Nat) (hi : idx.length = (x[b]'hx).length) :
    ∃ r, (rsubB c x)[b]? = some r ∧ r.dense idx = c - (x[b]'hx).dense idx := by
  have hx' : b < (smulB 1 (-1) x).length := by rw [smulB_length]; exact hx
  have he : (smulB 1 (-1) x)[b]'hx' = (x[b]'hx).scalarMul 1 (-1) := by
    have := elem_smul (1 : S) (-1) x b hx
    rw [List.getElem?_eq_getElem hx'] at this
    exact Option.some.inj this
  obtain ⟨w, s⟩ := C02.scalarMul_wf_shape (1 : S) (-1) _ hw
  have hsh : batchShape (smulB (1 : S) (-1) x) = batchShape x := by
    cases x with
    | nil => rfl
    | cons t ts =>
      cases b with
      | zero => simpa [smulB, batchShape] using s
      | succ k =>
        -- the batch's shape is the first element's, which `hs` relates to element `k+1`; scaling keeps every shape
        simp only [smulB, batchShape, List.map_cons]
        exact shape_scalarMul _ _ t
  have hl : ((x[b]'hx).scalarMul 1 (-1)).length = (x[b]'hx).length := by
    simpa [shape_length] using congrArg List.length s
  obtain ⟨r, h1, h2⟩ := saddB_dense c (smulB 1 (-1) x) b hx' (by rw [he]; exact w)
    (by rw [he, s, hsh]; exact hs) idx (by rw [he, hl]; exact hi)
  refine ⟨r, h1, ?_⟩
  rw [h2, he, C02.scalarMul_dense 1 (-1) (-1) _ hw (by simp) idx hi]; ring

end ring

/-! ### non-vacuity: a batch of two mixed-format elements (Tucker-TT core then CP factor), scalars 0, -4, 7 -/
section nonvacuousScalar

/-- a batch of size 2: both elements have a TT core with a factor, then a CP factor; entries differ -/
def exB : BTensor Int :=
  [ C02.exT,
    [ { core := .tt 1 3 2 (fun _ j b => (j : Int) * 2 - b), U := some { rows := 2, cols := 3, f := fun i j => (i : Int) + j } },
      { core := .cp 2 2 (fun j k => (j : Int) - k), U := none } ] ]

example : BatchWF exB := by
  intro t ht
  simp only [exB, List.mem_cons, List.not_mem_nil, or_false] at ht
  rcases ht with rfl | rfl <;>
    simp [exB, C02.exT, batchShape, Tensor.WF, Tensor.WFfrom, TMode.ok, Core.rl, Core.rr, Core.spatial, Tensor.shape, TMode.n]

/-- **the scalar 0** (`np.abs(0) ** (1/N) = 0`, `np.sign(0) = 0`: ρ = 0, sgn = 0): every element of `bt * 0` has all
    entries `0 * entry` -/
example : ∃ r, (smulB 0 0 exB)[1]? = some r ∧ r.dense [1, 0] = 0 * (exB[1]).dense [1, 0] :=
  smulB_dense 0 0 0 exB 1 (by simp [exB])
    (by simp [exB, Tensor.WF, Tensor.WFfrom, TMode.ok, Core.rl, Core.rr, Core.spatial])
    (by simp [exB]) [1, 0] (by simp [exB])

/-- a negative scalar with an exact square root: `c = -4`, `N = 2`, `ρ = 2`, `sgn = -1` -/
example : ∃ r, (smulB 2 (-1) exB)[0]? = some r ∧ r.dense [1, 1] = (-4) * (exB[0]).dense [1, 1] :=
  smulB_dense 2 (-1) (-4) exB 0 (by simp [exB])
    (by simp [exB, C02.exT, Tensor.WF, Tensor.WFfrom, TMode.ok, Core.rl, Core.rr, Core.spatial])
    (by simp [exB, C02.exT]) [1, 1] (by simp [exB, C02.exT])

/-- `bt + 0` and `bt + 7` on the second element -/
example : ∃ r, (saddB 0 exB)[1]? = some r ∧ r.dense [1, 0] = (exB[1]).dense [1, 0] + 0 :=
  saddB_dense 0 exB 1 (by simp [exB])
    (by simp [exB, Tensor.WF, Tensor.WFfrom, TMode.ok, Core.rl, Core.rr, Core.spatial])
    (by simp [exB, C02.exT, batchShape, Tensor.shape, TMode.n, Core.spatial]) [1, 0] (by simp [exB])

example : ∃ r, (saddB 7 exB)[1]? = some r ∧ r.dense [1, 0] = (exB[1]).dense [1, 0] + 7 :=
  saddB_dense 7 exB 1 (by simp [exB])
    (by simp [exB, Tensor.WF, Tensor.WFfrom, TMode.ok, Core.rl, Core.rr, Core.spatial])
    (by simp [exB, C02.exT, batchShape, Tensor.shape, TMode.n, Core.spatial]) [1, 0] (by simp [exB])

/-- the hypotheses of `elem_smul` / `elem_sadd` / `elem_neg` on `exB` -/
example : (smulB 0 0 exB)[1]? = some ((exB[1]).scalarMul 0 0) ∧ (saddB 3 exB)[1]? = some ((exB[1]).scalarAdd 3) ∧
    (negB exB)[1]? = some (exB[1]).neg :=
  ⟨elem_smul 0 0 exB 1 (by simp [exB]),
   elem_sadd 3 exB 1 (by simp [exB]) (by simp [exB, C02.exT, batchShape, Tensor.shape, TMode.n, Core.spatial]),
   elem_neg exB 1 (by simp [exB])⟩

/-- … and the values: the model run on `exB` (`bt * 0` is zero, `bt + 7`, `7 - bt`) -/
example : ((smulB 0 0 exB).map (·.dense [1, 0]), (saddB 7 exB).map (·.dense [1, 0]), (rsubB 7 exB).map (·.dense [1, 0]),
    exB.map (·.dense [1, 0])) = ([0, 0], [5, -3], [9, 17], [-2, -10]) := by decide

end nonvacuousScalar

end TN.C18
