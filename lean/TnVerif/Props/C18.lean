import TnVerif.Props.C02
import TnVerif.Props.C03
import TnVerif.Generated
/-!
# C18 — batch tensors behave as independent stacks of ordinary tensors

Specification by refinement: a batch tensor *is* the list of its elements, a supported batch
operation is the ordinary operation on each element.  Every theorem about ordinary tensors (C01–C04,
C13) therefore transfers element by element (`elem_*`).  That the batched code paths of /repo refine
to this specification is established by the correspondence (each element's cores against the
non-batch Lean model on that element), not by a theorem: the batched branches are separate Python
code with no Lean model of their own.  The list of functions that reject batch tensors is extracted
from the source on every run.
-/
namespace TN.C18
open TN
variable {R : Type} [CommSemiring R]

/-- a batch tensor: one ordinary tensor per batch element (all of the same format) -/
abbrev BTensor (R : Type) := List (Tensor R)

def addB (x y : BTensor R) : BTensor R := List.zipWith Tensor.add x y
def mulB (x y : BTensor R) : BTensor R := List.zipWith Tensor.mul x y
def getitemB (x : BTensor R) (key : List RawItem) : List (Except IdxErr (Tensor R ⊕ R)) := x.map (·.getitem key)
/-- selection along the batch mode with an integer returns the ordinary tensor -/
def selectB (x : BTensor R) (b : Nat) : Option (Tensor R) := x[b]?

/-- **no mixing, no dropping**: batch element `b` of a sum depends only on elements `b` of the operands,
    and is their ordinary sum — so `C02.add_dense` applies to it -/
theorem elem_add (x y : BTensor R) (b : Nat) (hx : b < x.length) (hy : b < y.length) :
    (addB x y)[b]? = some ((x[b]'hx).add (y[b]'hy)) := by
  simp [addB, List.getElem?_zipWith, hx, hy]

theorem elem_mul (x y : BTensor R) (b : Nat) (hx : b < x.length) (hy : b < y.length) :
    (mulB x y)[b]? = some ((x[b]'hx).mul (y[b]'hy)) := by
  simp [mulB, List.getElem?_zipWith, hx, hy]

/-- the batch size is preserved -/
theorem addB_length (x y : BTensor R) (h : x.length = y.length) : (addB x y).length = x.length := by
  simp [addB, h]

/-- every element of a batched sum decompresses to the element-wise sum of that element's operands -/
theorem addB_dense (x y : BTensor R) (b : Nat) (hx : b < x.length) (hy : b < y.length)
    (hwx : (x[b]'hx).WF) (hwy : (y[b]'hy).WF) (hs : (x[b]'hx).shape = (y[b]'hy).shape) (idx : List Nat) :
    ∃ r, (addB x y)[b]? = some r ∧ r.dense idx = (x[b]'hx).dense idx + (y[b]'hy).dense idx :=
  ⟨_, elem_add x y b hx hy, C02.add_dense _ _ hwx hwy hs idx⟩

theorem mulB_dense (x y : BTensor R) (b : Nat) (hx : b < x.length) (hy : b < y.length)
    (hwx : (x[b]'hx).WF) (hwy : (y[b]'hy).WF) (hs : (x[b]'hx).shape = (y[b]'hy).shape) (idx : List Nat) :
    ∃ r, (mulB x y)[b]? = some r ∧ r.dense idx = (x[b]'hx).dense idx * (y[b]'hy).dense idx :=
  ⟨_, elem_mul x y b hx hy, C02.mul_dense _ _ hwx hwy hs idx⟩

/-- indexing of the non-batch modes acts on every element separately -/
theorem elem_getitem (x : BTensor R) (key : List RawItem) (b : Nat) (hx : b < x.length) :
    (getitemB x key)[b]? = some ((x[b]'hx).getitem key) := by
  simp [getitemB, hx]

/-- **functions that reject batch tensors** — re-extracted from /repo on every run: the functions whose
    body starts with `if <tensor>.batch: raise` -/
theorem batch_guards_from_source :
    Generated.batchGuards = ["anova.anova_decomposition", "automata.accepted_inputs.recursion", "derivatives.active_subspace",
      "derivatives.gradient", "derivatives.partialset", "metrics.sum"] := rfl

end TN.C18
