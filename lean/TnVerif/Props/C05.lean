import TnVerif.Lemmas.RankSelect
import TnVerif.Lemmas.FixedRank
import TnVerif.Lemmas.FixedRankExact
import TnVerif.Lemmas.FixedRankEx
import TnVerif.Model.Round
import Mathlib.Tactic.Ring
import Mathlib.Algebra.BigOperators.Ring.Finset
import Mathlib.Algebra.BigOperators.Intervals
import Mathlib.Tactic.IntervalCases
/-!
# C05 — fixed-rank decompositions: what `truncated_svd` returns, given the SVD kernel's answer

`SVDok`: `M = U·diag(S)·Vh` with `UᵀU = I` (on the first `n` columns).  Then the factor `Uᵀ_r M` the
routine computes for `left_ortho=True` is `diag(S_r)·Vh_r`, i.e. `left·right` **is** the rank-`r`
truncation `U_r diag(S_r) Vh_r`; the rank is the smallest one meeting the budget (TN.leastRank_minimal);
if the tail at the requested rank is zero nothing is discarded (exact reproduction).
-/
namespace TN.C05
open TN Finset
variable {K : Type} [Field K] [LinearOrder K] [IsStrictOrderedRing K]

/-- kernel contract of `torch.linalg.svd` used by `truncated_svd` -/
structure SVDok (m n cols : Nat) (M : Nat → Nat → K) (U : Nat → Nat → K) (S : Nat → K) (Vh : Nat → Nat → K) : Prop where
  factor : ∀ i j, i < m → j < cols → M i j = ∑ l ∈ range n, U i l * (S l * Vh l j)
  ortho : ∀ k l, k < n → l < n → (∑ i ∈ range m, U i k * U i l) = if k = l then 1 else 0

/-- **the two factors multiply to the rank-r truncation**: row `k < r` of `M2 = U_rᵀ·M` is `S_k·Vh_k`, so
    `left·M2 = Σ_{k<r} U[:,k]·S_k·Vh[k,:]`, the Eckart–Young truncation of the kernel's SVD -/
theorem truncation_right_factor (m n cols : Nat) (M U : Nat → Nat → K) (S : Nat → K) (Vh : Nat → Nat → K)
    (h : SVDok m n cols M U S Vh) (k j : Nat) (hk : k < n) (hj : j < cols) :
    (∑ i ∈ range m, U i k * M i j) = S k * Vh k j := by
  have e : ∀ i ∈ range m, U i k * M i j = ∑ l ∈ range n, (U i k * U i l) * (S l * Vh l j) := by
    intro i hi
    rw [h.factor i j (Finset.mem_range.mp hi) hj, Finset.mul_sum]
    apply Finset.sum_congr rfl; intro l _; ring
  rw [Finset.sum_congr rfl e, Finset.sum_comm]
  have e2 : ∀ l ∈ range n, (∑ i ∈ range m, U i k * U i l * (S l * Vh l j)) = (if k = l then 1 else 0) * (S l * Vh l j) := by
    intro l hl
    rw [← Finset.sum_mul, h.ortho k l hk (Finset.mem_range.mp hl)]
  rw [Finset.sum_congr rfl e2, Finset.sum_eq_single k]
  · simp
  · intro l _ hl; simp [Ne.symm hl]
  · intro hh; exact absurd (Finset.mem_range.mpr hk) hh

/-- **smallest rank meeting the budget** and its bounds (restated from C04 for the matrix routine) -/
theorem rank_minimal (S2 : List K) (d2 : K) (hd : 0 ≤ d2) :
    tailSum S2 (leastRank S2 d2 S2.length 0) ≤ d2 ∧ ∀ r, r < leastRank S2 d2 S2.length 0 → ¬ tailSum S2 r ≤ d2 :=
  TN.leastRank_minimal S2 d2 hd

/-- the returned rank never exceeds the request -/
theorem rank_le_request (S2 : List K) (d2 : K) (rmax : Nat) (h : 1 ≤ rmax) : rankSelect S2 d2 rmax ≤ rmax :=
  (TN.rankSelect_bounds S2 d2 rmax).2.1 h

/-- **exact on low-rank input**: if the squared singular values beyond position `r` are all zero, the
    discarded tail at rank `r` is zero — nothing is lost at that rank -/
theorem tail_zero_of_low_rank (S2 : List K) : ∀ r, (∀ i, r ≤ i → S2.getD i 0 = 0) → tailSum S2 r = 0 := by
  induction S2 with
  | nil => intro r _; cases r <;> rfl
  | cons x xs ih =>
    intro r h
    cases r with
    | zero =>
      have hx : x = 0 := by simpa using h 0 (le_refl _)
      have := ih 0 (fun i _ => by simpa using h (i + 1) (Nat.zero_le _))
      simp [tailSum, hx, this]
    | succ r =>
      simp only [tailSum]
      exact ih r (fun i hi => by simpa using h (i + 1) (by omega))

/-- hence a zero budget already selects a rank `≤ r` for input of rank `≤ r` -/
theorem exact_rank (S2 : List K) (r : Nat) (h : ∀ i, r ≤ i → S2.getD i 0 = 0) : leastRank S2 0 S2.length 0 ≤ r := by
  by_contra hc
  have := (TN.leastRank_minimal S2 0 (le_refl _)).2 r (by omega)
  exact this (by rw [tail_zero_of_low_rank S2 r h])

/-- the discarded tail as a finite sum: `tailSum S r = Σ_{r ≤ l < |S|} S_l` -/
theorem tailSum_eq_sum (S : List K) : ∀ r, tailSum S r = ∑ l ∈ Ico r S.length, S.getD l 0 := by
  induction S with
  | nil => intro r; cases r <;> simp [tailSum]
  | cons x xs ih =>
    intro r
    cases r with
    | zero =>
      rw [tailSum, ih 0]
      simp only [List.length_cons, Nat.Ico_zero_eq_range]
      rw [Finset.sum_range_succ']
      simp [add_comm]
    | succ r =>
      rw [tailSum, ih r, List.length_cons, ← Finset.sum_Ico_add' _ r xs.length 1]
      apply Finset.sum_congr rfl; intro l _; simp

/-- full kernel contract: additionally the rows of `Vh` are orthonormal -/
structure SVDok2 (m n cols : Nat) (M : Nat → Nat → K) (U : Nat → Nat → K) (S : Nat → K) (Vh : Nat → Nat → K) : Prop
    extends SVDok m n cols M U S Vh where
  orthoV : ∀ k l, k < n → l < n → (∑ j ∈ range cols, Vh k j * Vh l j) = if k = l then 1 else 0

/-- Frobenius norm under two orthonormal families: `‖U·diag(D)·Vh‖² = Σ D_l²` -/
theorem frob_orth (m n cols : Nat) (U Vh : Nat → Nat → K) (D : Nat → K)
    (hU : ∀ k l, k < n → l < n → (∑ i ∈ range m, U i k * U i l) = if k = l then 1 else 0)
    (hV : ∀ k l, k < n → l < n → (∑ j ∈ range cols, Vh k j * Vh l j) = if k = l then 1 else 0) :
    (∑ i ∈ range m, ∑ j ∈ range cols, (∑ l ∈ range n, U i l * (D l * Vh l j)) ^ 2) = ∑ l ∈ range n, D l ^ 2 := by
  have e1 : ∀ i ∈ range m, ∀ j ∈ range cols, (∑ l ∈ range n, U i l * (D l * Vh l j)) ^ 2
      = ∑ l ∈ range n, ∑ l' ∈ range n, (D l * D l') * ((U i l * U i l') * (Vh l j * Vh l' j)) := by
    intro i _ j _
    rw [sq, Finset.sum_mul_sum]
    apply Finset.sum_congr rfl; intro l _; apply Finset.sum_congr rfl; intro l' _; ring
  rw [Finset.sum_congr rfl (fun i hi => Finset.sum_congr rfl (e1 i hi))]
  have e2 : (∑ i ∈ range m, ∑ j ∈ range cols, ∑ l ∈ range n, ∑ l' ∈ range n, (D l * D l') * ((U i l * U i l') * (Vh l j * Vh l' j)))
      = ∑ l ∈ range n, ∑ l' ∈ range n, (D l * D l') * ((∑ i ∈ range m, U i l * U i l') * (∑ j ∈ range cols, Vh l j * Vh l' j)) := by
    calc _ = ∑ i ∈ range m, ∑ l ∈ range n, ∑ j ∈ range cols, ∑ l' ∈ range n, (D l * D l') * ((U i l * U i l') * (Vh l j * Vh l' j)) := by
            apply Finset.sum_congr rfl; intro i _; rw [Finset.sum_comm]
      _ = ∑ l ∈ range n, ∑ i ∈ range m, ∑ j ∈ range cols, ∑ l' ∈ range n, (D l * D l') * ((U i l * U i l') * (Vh l j * Vh l' j)) := by
            rw [Finset.sum_comm]
      _ = ∑ l ∈ range n, ∑ i ∈ range m, ∑ l' ∈ range n, ∑ j ∈ range cols, (D l * D l') * ((U i l * U i l') * (Vh l j * Vh l' j)) := by
            apply Finset.sum_congr rfl; intro l _; apply Finset.sum_congr rfl; intro i _; rw [Finset.sum_comm]
      _ = ∑ l ∈ range n, ∑ l' ∈ range n, ∑ i ∈ range m, ∑ j ∈ range cols, (D l * D l') * ((U i l * U i l') * (Vh l j * Vh l' j)) := by
            apply Finset.sum_congr rfl; intro l _; rw [Finset.sum_comm]
      _ = _ := by
            apply Finset.sum_congr rfl; intro l _; apply Finset.sum_congr rfl; intro l' _
            rw [Finset.sum_mul_sum, Finset.mul_sum]
            apply Finset.sum_congr rfl; intro i _; rw [Finset.mul_sum]
  rw [e2]
  apply Finset.sum_congr rfl; intro l hl
  rw [Finset.sum_eq_single l]
  · rw [hU l l (Finset.mem_range.mp hl) (Finset.mem_range.mp hl), hV l l (Finset.mem_range.mp hl) (Finset.mem_range.mp hl)]; simp [sq]
  · intro l' hl' hne
    rw [hU l l' (Finset.mem_range.mp hl) (Finset.mem_range.mp hl')]; simp [Ne.symm hne]
  · intro h; exact absurd hl h

/-- **the error of the rank-`r` truncation is exactly the discarded tail**:
    `‖M − U_r diag(S_r) Vh_r‖²_F = Σ_{r ≤ l < n} S_l²` (given the full kernel contract) -/
theorem truncation_error (m n cols : Nat) (M U : Nat → Nat → K) (S : Nat → K) (Vh : Nat → Nat → K)
    (h : SVDok2 m n cols M U S Vh) (r : Nat) (hr : r ≤ n) :
    (∑ i ∈ range m, ∑ j ∈ range cols, (M i j - ∑ l ∈ range r, U i l * (S l * Vh l j)) ^ 2) = ∑ l ∈ Ico r n, S l ^ 2 := by
  have e : ∀ i ∈ range m, ∀ j ∈ range cols, (M i j - ∑ l ∈ range r, U i l * (S l * Vh l j))
      = ∑ l ∈ range n, U i l * ((if l < r then 0 else S l) * Vh l j) := by
    intro i hi j hj
    rw [h.factor i j (Finset.mem_range.mp hi) (Finset.mem_range.mp hj)]
    rw [← Finset.sum_range_add_sum_Ico _ hr, ← Finset.sum_range_add_sum_Ico (fun l => U i l * ((if l < r then 0 else S l) * Vh l j)) hr]
    have z : (∑ l ∈ range r, U i l * ((if l < r then 0 else S l) * Vh l j)) = 0 := by
      apply Finset.sum_eq_zero; intro l hl; simp [Finset.mem_range.mp hl]
    have k : (∑ l ∈ Ico r n, U i l * ((if l < r then 0 else S l) * Vh l j)) = ∑ l ∈ Ico r n, U i l * (S l * Vh l j) := by
      apply Finset.sum_congr rfl; intro l hl
      have : ¬ l < r := by have := (Finset.mem_Ico.mp hl).1; omega
      simp [this]
    rw [z, k]; ring
  rw [Finset.sum_congr rfl (fun i hi => Finset.sum_congr rfl (fun j hj => by rw [e i hi j hj]))]
  rw [frob_orth m n cols U Vh _ h.ortho h.orthoV, ← Finset.sum_range_add_sum_Ico _ hr]
  have z : (∑ l ∈ range r, (if l < r then 0 else S l) ^ 2) = 0 := by
    apply Finset.sum_eq_zero; intro l hl; simp [Finset.mem_range.mp hl]
  rw [z, zero_add]
  apply Finset.sum_congr rfl; intro l hl
  have : ¬ l < r := by have := (Finset.mem_Ico.mp hl).1; omega
  simp [this]

/-- **`truncated_svd` stays within its budget**: with the factors the routine returns (`left = U_r`, `right = U_rᵀM`) and
    the rank it selects when `rmax` does not bind, `‖M − left·right‖² ≤ δ²` — and one rank less would exceed it -/
theorem truncated_svd_within_budget (m n cols : Nat) (M U : Nat → Nat → K) (S : Nat → K) (Vh : Nat → Nat → K)
    (h : SVDok2 m n cols M U S Vh) (d2 : K) (hd : 0 ≤ d2) :
    let S2 := (List.range n).map (fun l => S l ^ 2)
    let r := leastRank S2 d2 S2.length 0
    (∑ i ∈ range m, ∑ j ∈ range cols, (M i j - ∑ l ∈ range r, U i l * (∑ i' ∈ range m, U i' l * M i' j)) ^ 2) ≤ d2 := by
  intro S2 r
  have hlen : S2.length = n := by simp [S2]
  have hr : r ≤ n := by
    have := (TN.leastRank_spec S2 d2 S2.length 0).2.1
    omega
  have e : ∀ i ∈ range m, ∀ j ∈ range cols, (M i j - ∑ l ∈ range r, U i l * (∑ i' ∈ range m, U i' l * M i' j))
      = (M i j - ∑ l ∈ range r, U i l * (S l * Vh l j)) := by
    intro i _ j hj
    congr 1
    apply Finset.sum_congr rfl; intro l hl
    rw [truncation_right_factor m n cols M U S Vh h.toSVDok l j (by have := Finset.mem_range.mp hl; omega) (Finset.mem_range.mp hj)]
  rw [Finset.sum_congr rfl (fun i hi => Finset.sum_congr rfl (fun j hj => by rw [e i hi j hj]))]
  rw [truncation_error m n cols M U S Vh h r hr]
  have t : tailSum S2 r ≤ d2 := (TN.leastRank_minimal S2 d2 hd).1
  rw [tailSum_eq_sum, hlen] at t
  refine le_of_eq_of_le ?_ t
  apply Finset.sum_congr rfl; intro l hl
  have hl' := (Finset.mem_Ico.mp hl).2
  simp [S2, List.getD_eq_getElem?_getD, hl']

/-- non-vacuity: `diag(3,1)` with its trivial SVD meets the full kernel contract -/
example : SVDok2 2 2 2 (fun i j => if i = j then (if i = 0 then (3 : K) else 1) else 0) (fun i j => if i = j then 1 else 0)
    (fun l => if l = 0 then 3 else 1) (fun i j => if i = j then 1 else 0) := by
  refine { factor := ?_, ortho := ?_, orthoV := ?_ }
  · intro i j hi hj; interval_cases i <;> interval_cases j <;> simp [Finset.sum_range_succ]
  · intro k l hk hl; interval_cases k <;> interval_cases l <;> simp [Finset.sum_range_succ]
  · intro k l hk hl; interval_cases k <;> interval_cases l <;> simp [Finset.sum_range_succ]

/-! ## the constructor paths `Tensor(x, ranks_tt=r)`, `Tensor(x, ranks_tucker=r)`, `Tensor(x, eps=e)` (tensor.py:401-408, 436-440)

For a dense array the constructor runs `_full_rank_tt(x)` (`fullRankTT shape x`, row-major entries `x`; `C01.roundtrip`) and then
`round_tt(rmax=r)` / `round_tucker(rmax=r)` / `round(eps)`.  These are compositions of model functions that already exist:

    Tensor(x, ranks_tt=r)      =  roundTTsem thr δ² (leftSweep (fullRankTT shape x).modes qrs) svds
    Tensor(x, ranks_tucker=r)  =  roundTuckerSem thr eps ((leftSweep (fullRankTT shape x).modes qrs).map TkMode.ofMode) as
    Tensor(x, eps=e)           =  roundTuckerSem thr ((1+e)/(1+reached) − 1) ((leftSweep y qrs2).map TkMode.ofMode) as
                                   with y = roundTTsem thr δ² (leftSweep (fullRankTT shape x).modes qrs1) svds

`qrs` are the QR answers of `orthogonalize(N-1)` (contract `qrOK`), `svds` the SVD answers of the truncation steps `mu = N-1, …, 1`
each paired with `rmax[mu-1]` (contract `ansOK`), `as` the four kernel answers of every Tucker iteration (contract `tkOK`);
`δ² = budget2 eps cur (N-1)` with `round_tt`'s own `eps` (default `1e-14`) and `thr` the zero threshold `1e-13` of `truncated_svd`. -/

/-- **`Tensor(x, ranks_tt=r)`: ranks within the request and exact error identity.**  For every dense array `x` (any number of modes, any
    positive mode sizes), given the kernel contracts: the result has the shape of `x`, is a well-formed chain with boundary ranks 1, every
    TT rank (bond `mu-1`, listed in processing order) is at most the requested `rmax[mu-1]`, and
    `‖x − result‖² = Σ_{steps} (sum of the squared singular values discarded at that step)` — an identity, also when `rmax` caps a rank. -/
theorem fixed_rank_tt_error_eq (thr d2 : K) (shape : List Nat) (x : Nat → K) (qrs : List (QRAns K)) (svds : List (SVDAns K × Nat))
    (cur : Mode K) (rest : List (Mode K))
    (hne : shape ≠ []) (hpos : ∀ s ∈ shape, 0 < s) (hlen : qrs.length + 1 = shape.length)
    (hqr : qrOK (fullRankTT shape x).modes qrs)
    (hrev : (leftSweep (fullRankTT shape x).modes qrs).reverse = cur :: rest)
    (hok : ansOK thr d2 (cur :: rest) svds) :
    boxSum shape (fun is => (x (flat is shape) - dense (roundTTsem thr d2 (leftSweep (fullRankTT shape x).modes qrs) svds) is) ^ 2)
        = sweepErr thr d2 (cur :: rest) svds ∧
    fixedrank_bondsLE (roundTTsem thr d2 (leftSweep (fullRankTT shape x).modes qrs) svds).reverse svds ∧
    (roundTTsem thr d2 (leftSweep (fullRankTT shape x).modes qrs) svds).map (·.n) = shape ∧
    wf 1 (roundTTsem thr d2 (leftSweep (fullRankTT shape x).modes qrs) svds) ∧
    outRank 1 (roundTTsem thr d2 (leftSweep (fullRankTT shape x).modes qrs) svds) = 1 := by
  obtain ⟨a, b, c⟩ := fixedrank_tt_chain thr d2 shape x qrs svds cur rest hne hpos hlen hqr hrev
  refine ⟨fixedrank_tt_error_eq thr d2 shape x qrs svds cur rest hne hpos hlen hqr hrev hok, ?_, c, a, b⟩
  unfold roundTTsem
  rw [List.reverse_reverse]
  exact fixedrank_sweep_bonds thr d2 svds _

/-- non-vacuity of `fixed_rank_tt_error_eq` (and of `fixed_rank_exact`, `fixed_rank_tt_within_eps`): the dense 2×2 array `diag(3,1)`,
    `ranks_tt = 7`, with the exact QR and SVD answers, meets every hypothesis -/
example : ∃ (cur : Mode K) (rest : List (Mode K)), ([2, 2] : List Nat) ≠ [] ∧ (∀ s ∈ ([2, 2] : List Nat), 0 < s) ∧
    [fixedrankExQ (3 : K) 1].length + 1 = ([2, 2] : List Nat).length ∧
    qrOK (fullRankTT [2, 2] (fixedrankExX (3 : K) 1)).modes [fixedrankExQ 3 1] ∧
    (leftSweep (fullRankTT [2, 2] (fixedrankExX (3 : K) 1)).modes [fixedrankExQ 3 1]).reverse = cur :: rest ∧
    ansOK (0 : K) (budget2 0 cur rest.length) (cur :: rest) [(fixedrankExA 3 1, 7)] := by
  obtain ⟨cur, rest, h1, h2, _, _, _⟩ := fixedrankEx_hyps (3 : K) 1 (by norm_num) (by norm_num) 0 7
  refine ⟨cur, rest, by simp, by simp, rfl, h2, h1, ?_⟩
  obtain ⟨c', r', h1', _, h3', _, _⟩ := fixedrankEx_hyps (3 : K) 1 (by norm_num) (by norm_num) (budget2 0 cur rest.length) 7
  have := h1.symm.trans h1'
  simp only [List.cons.injEq] at this
  obtain ⟨rfl, rfl⟩ := this
  exact h3'

/-- **exact reproduction when nothing is discarded**: if the discarded tails of all steps sum to zero (e.g. every tail is zero), the
    result of `Tensor(x, ranks_tt=r)` decompresses to `x` entry by entry -/
theorem fixed_rank_exact (thr d2 : K) (shape : List Nat) (x : Nat → K) (qrs : List (QRAns K)) (svds : List (SVDAns K × Nat))
    (cur : Mode K) (rest : List (Mode K))
    (hne : shape ≠ []) (hpos : ∀ s ∈ shape, 0 < s) (hlen : qrs.length + 1 = shape.length)
    (hqr : qrOK (fullRankTT shape x).modes qrs)
    (hrev : (leftSweep (fullRankTT shape x).modes qrs).reverse = cur :: rest)
    (hok : ansOK thr d2 (cur :: rest) svds) (hzero : sweepErr thr d2 (cur :: rest) svds = 0) :
    ∀ is, inShape is shape → dense (roundTTsem thr d2 (leftSweep (fullRankTT shape x).modes qrs) svds) is = x (flat is shape) := by
  have h := fixedrank_tt_error_eq thr d2 shape x qrs svds cur rest hne hpos hlen hqr hrev hok
  rw [hzero] at h
  exact fixedrank_eq_of_err_zero shape (fun is => x (flat is shape)) _ h

/-- **`Tensor(x, ranks_tt=r)` honours `round_tt`'s tolerance when the cap is harmless**: if at every step either `rmax` does not bind or
    all singular values from index `rmax` on are zero (`fixedrank_capOK`), then `‖x − result‖² ≤ eps²·‖x‖²` (`eps` = `round_tt`'s default
    `1e-14` in the constructor) -/
theorem fixed_rank_tt_within_eps (thr eps : K) (shape : List Nat) (x : Nat → K) (qrs : List (QRAns K)) (svds : List (SVDAns K × Nat))
    (cur : Mode K) (rest : List (Mode K))
    (hne : shape ≠ []) (hpos : ∀ s ∈ shape, 0 < s) (hlen : qrs.length + 1 = shape.length)
    (hqr : qrOK (fullRankTT shape x).modes qrs)
    (hrev : (leftSweep (fullRankTT shape x).modes qrs).reverse = cur :: rest)
    (hok : ansOK thr (budget2 eps cur rest.length) (cur :: rest) svds)
    (hcap : fixedrank_capOK thr (budget2 eps cur rest.length) (cur :: rest) svds) :
    boxSum shape (fun is => (x (flat is shape)
        - dense (roundTTsem thr (budget2 eps cur rest.length) (leftSweep (fullRankTT shape x).modes qrs) svds) is) ^ 2)
      ≤ eps ^ 2 * boxSum shape (fun is => x (flat is shape) ^ 2) :=
  fixedrank_tt_within thr eps shape x qrs svds cur rest hne hpos hlen hqr hrev hok hcap

/-- **singular values beyond the rank are zero** (the link between "rank" and "tail"; uses Mathlib's `Matrix.rank_diagonal`,
    `Matrix.rank_mul_le_left`): if an `m × ι` matrix is at the same time a product `B·C` through `ρ` and the kernel's `U·diag(S)·Vh` with
    `UᵀU = I`, `Vh·Vhᵀ = I`, `S` non-negative and non-increasing, then `S_l = 0` for all `l ≥ ρ` -/
theorem singular_values_beyond_rank {ι : Type} [Fintype ι] (m n ρ : Nat) (U : Nat → Nat → K) (S : Nat → K) (Vh : Nat → ι → K)
    (B : Nat → Nat → K) (C : Nat → ι → K)
    (hf : ∀ i, i < m → ∀ j, (∑ k ∈ range ρ, B i k * C k j) = ∑ l ∈ range n, U i l * (S l * Vh l j))
    (hU : ∀ k l, k < n → l < n → (∑ i ∈ range m, U i k * U i l) = if k = l then 1 else 0)
    (hV : ∀ k l, k < n → l < n → (∑ j, Vh k j * Vh l j) = if k = l then 1 else 0)
    (hmono : ∀ l l', l ≤ l' → l' < n → S l' ≤ S l) (hnn : ∀ l, l < n → 0 ≤ S l) :
    ∀ l, ρ ≤ l → l < n → S l = 0 :=
  fixedrank_sv_zero m n ρ U S Vh B C hf hU hV hmono hnn

/-- **low-rank input, factorisation form**: `ρs` lists, in processing order (bond next to the LAST mode first), ranks such that the
    unfolding of `x` with the last `j+1` modes as columns is a product through `ρs[j]` (`fixedrank_unfoldAll`), each `ρs[j] ≤ rmax` of that
    step (`fixedrank_fits`); the SVD kernel returns non-negative, non-increasing singular values (`fixedrank_svSorted`).  Then with
    `round_tt`'s `eps = 0` the result of `Tensor(x, ranks_tt=r)` reproduces `x` exactly.  Every link is proved: the matrix decomposed at
    step `mu` is `(orthonormal interface)ᵀ·(unfolding of the current tensor)`, the current tensor is `x` multiplied on the right by the
    earlier `Vh_rᵀ`, so all these matrices factor through `ρ`; then `singular_values_beyond_rank`. -/
theorem fixed_rank_exact_of_unfolding_factorisations (thr : K) (shape : List Nat) (x : Nat → K) (qrs : List (QRAns K))
    (svds : List (SVDAns K × Nat)) (cur : Mode K) (rest : List (Mode K)) (ρs : List Nat)
    (hne : shape ≠ []) (hpos : ∀ s ∈ shape, 0 < s) (hlen : qrs.length + 1 = shape.length)
    (hqr : qrOK (fullRankTT shape x).modes qrs)
    (hrev : (leftSweep (fullRankTT shape x).modes qrs).reverse = cur :: rest)
    (hok : ansOK thr (budget2 0 cur rest.length) (cur :: rest) svds) (hsort : ∀ Ar ∈ svds, fixedrank_svSorted Ar.1)
    (hfit : fixedrank_fits ρs svds) (hunf : fixedrank_unfoldAll shape x 0 ρs) :
    ∀ is, inShape is shape →
      dense (roundTTsem thr (budget2 0 cur rest.length) (leftSweep (fullRankTT shape x).modes qrs) svds) is = x (flat is shape) := by
  have hcap := fixedrank_capOK_of_unfold thr _ shape x qrs svds cur rest ρs hne hpos hlen hqr hrev hok hsort hfit hunf
  have hb := fixedrank_budget_zero cur rest.length
  rw [hb] at hok hcap ⊢
  exact fixed_rank_exact thr 0 shape x qrs svds cur rest hne hpos hlen hqr hrev hok (fixedrank_sweepErr_zero thr rest cur svds hok hcap)

/-- non-vacuity of `fixed_rank_exact_of_unfolding_factorisations` with a BINDING cap: the rank-1 array `diag(2,0)` with `ranks_tt = 1` -/
example : ∃ (cur : Mode K) (rest : List (Mode K)),
    qrOK (fullRankTT [2, 2] (fixedrankExX (2 : K) 0)).modes [fixedrankExQ 2 0] ∧
    (leftSweep (fullRankTT [2, 2] (fixedrankExX (2 : K) 0)).modes [fixedrankExQ 2 0]).reverse = cur :: rest ∧
    ansOK (0 : K) (budget2 0 cur rest.length) (cur :: rest) [(fixedrankExA 2 0, 1)] ∧
    (∀ Ar ∈ [(fixedrankExA (2 : K) 0, 1)], fixedrank_svSorted Ar.1) ∧
    fixedrank_fits [1] [(fixedrankExA (2 : K) 0, 1)] ∧ fixedrank_unfoldAll [2, 2] (fixedrankExX (2 : K) 0) 0 [1] := by
  obtain ⟨cur, rest, h1, h2, _, h4, _⟩ := fixedrankEx_hyps (2 : K) 0 (by norm_num) (by norm_num) 0 1
  obtain ⟨c', r', h1', _, h3', _, _⟩ := fixedrankEx_hyps (2 : K) 0 (by norm_num) (by norm_num) (budget2 0 cur rest.length) 1
  have := h1.symm.trans h1'
  simp only [List.cons.injEq] at this
  obtain ⟨rfl, rfl⟩ := this
  exact ⟨cur, rest, h2, h1, h3', h4, ⟨le_refl _, trivial⟩, fixedrankEx_unfold 2⟩

/-- **an array whose unfolding ranks fit the request is reproduced exactly** (the property's clause, with Mathlib's `Matrix.rank`):
    `fixedrank_rankAll shape x 0 ρs` says `rank (unfolding of x with the last j+1 modes as columns) ≤ ρs[j]` for the matrix
    `fixedrank_unfoldMat` (entry `(r, q)` = `x[r·ncols + q]`), `fixedrank_fits ρs svds` says `ρs[j] ≤ rmax` of step `j`.  With the kernel
    contracts (QR; SVD incl. non-negative sorted singular values) and `round_tt`'s `eps = 0`, `Tensor(x, ranks_tt=r).torch() = x`. -/
theorem fixed_rank_exact_of_unfolding_ranks (thr : K) (shape : List Nat) (x : Nat → K) (qrs : List (QRAns K))
    (svds : List (SVDAns K × Nat)) (cur : Mode K) (rest : List (Mode K)) (ρs : List Nat)
    (hne : shape ≠ []) (hpos : ∀ s ∈ shape, 0 < s) (hlen : qrs.length + 1 = shape.length)
    (hqr : qrOK (fullRankTT shape x).modes qrs)
    (hrev : (leftSweep (fullRankTT shape x).modes qrs).reverse = cur :: rest)
    (hok : ansOK thr (budget2 0 cur rest.length) (cur :: rest) svds) (hsort : ∀ Ar ∈ svds, fixedrank_svSorted Ar.1)
    (hfit : fixedrank_fits ρs svds) (hrank : fixedrank_rankAll shape x 0 ρs) :
    ∀ is, inShape is shape →
      dense (roundTTsem thr (budget2 0 cur rest.length) (leftSweep (fullRankTT shape x).modes qrs) svds) is = x (flat is shape) :=
  fixed_rank_exact_of_unfolding_factorisations thr shape x qrs svds cur rest ρs hne hpos hlen hqr hrev hok hsort hfit
    (fixedrank_unfoldAll_of_rank shape x ρs 0 hrank)

/-- the same with `round_tt`'s actual tolerance (`eps = 1e-14` in the constructor): low-rank input is reproduced within `eps`, not
    exactly — the sweep may still discard singular values below the budget `eps²‖x‖²/(N-1)` -/
theorem fixed_rank_within_eps_of_unfolding_ranks (thr eps : K) (shape : List Nat) (x : Nat → K) (qrs : List (QRAns K))
    (svds : List (SVDAns K × Nat)) (cur : Mode K) (rest : List (Mode K)) (ρs : List Nat)
    (hne : shape ≠ []) (hpos : ∀ s ∈ shape, 0 < s) (hlen : qrs.length + 1 = shape.length)
    (hqr : qrOK (fullRankTT shape x).modes qrs)
    (hrev : (leftSweep (fullRankTT shape x).modes qrs).reverse = cur :: rest)
    (hok : ansOK thr (budget2 eps cur rest.length) (cur :: rest) svds) (hsort : ∀ Ar ∈ svds, fixedrank_svSorted Ar.1)
    (hfit : fixedrank_fits ρs svds) (hrank : fixedrank_rankAll shape x 0 ρs) :
    boxSum shape (fun is => (x (flat is shape)
        - dense (roundTTsem thr (budget2 eps cur rest.length) (leftSweep (fullRankTT shape x).modes qrs) svds) is) ^ 2)
      ≤ eps ^ 2 * boxSum shape (fun is => x (flat is shape) ^ 2) :=
  fixedrank_tt_within thr eps shape x qrs svds cur rest hne hpos hlen hqr hrev hok
    (fixedrank_capOK_of_unfold thr _ shape x qrs svds cur rest ρs hne hpos hlen hqr hrev hok hsort hfit
      (fixedrank_unfoldAll_of_rank shape x ρs 0 hrank))

/-- non-vacuity of `fixed_rank_exact_of_unfolding_ranks` / `fixed_rank_within_eps_of_unfolding_ranks`: `diag(3,1)` (unfolding rank 2),
    `ranks_tt = 7` -/
example : ∃ (cur : Mode K) (rest : List (Mode K)),
    qrOK (fullRankTT [2, 2] (fixedrankExX (3 : K) 1)).modes [fixedrankExQ 3 1] ∧
    (leftSweep (fullRankTT [2, 2] (fixedrankExX (3 : K) 1)).modes [fixedrankExQ 3 1]).reverse = cur :: rest ∧
    ansOK (0 : K) (budget2 0 cur rest.length) (cur :: rest) [(fixedrankExA 3 1, 7)] ∧
    (∀ Ar ∈ [(fixedrankExA (3 : K) 1, 7)], fixedrank_svSorted Ar.1) ∧
    fixedrank_fits [2] [(fixedrankExA (3 : K) 1, 7)] ∧ fixedrank_rankAll [2, 2] (fixedrankExX (3 : K) 1) 0 [2] := by
  obtain ⟨cur, rest, h1, h2, _, h4, _⟩ := fixedrankEx_hyps (3 : K) 1 (by norm_num) (by norm_num) 0 7
  obtain ⟨c', r', h1', _, h3', _, _⟩ := fixedrankEx_hyps (3 : K) 1 (by norm_num) (by norm_num) (budget2 0 cur rest.length) 7
  have := h1.symm.trans h1'
  simp only [List.cons.injEq] at this
  obtain ⟨rfl, rfl⟩ := this
  exact ⟨cur, rest, h2, h1, h3', h4, ⟨by norm_num, trivial⟩, fixedrankEx_rank _⟩


/-- **`Tensor(x, ranks_tucker=r)`: exact error identity.**  `_full_rank_tt`, `orthogonalize(-1)`, identity factors, then the loop of
    `round_tucker(rmax=r)` (its own `eps`, default `1e-14`): given the kernel contracts of every iteration,
    `‖x − result‖² = Σ_{modes} (sum of the squared singular values of the factor discarded at that mode)` -/
theorem fixed_rank_tucker_error_eq (thr eps : K) (shape : List Nat) (x : Nat → K) (qrs : List (QRAns K)) (as : List (TkAns K × Nat))
    (cur : Mode K) (rest : List (Mode K))
    (hne : shape ≠ []) (hpos : ∀ s ∈ shape, 0 < s) (hlen : qrs.length + 1 = shape.length)
    (hqr : qrOK (fullRankTT shape x).modes qrs)
    (hrev : (leftSweep (fullRankTT shape x).modes qrs).reverse = cur :: rest)
    (hok : tkOK thr eps shape.length ((cur :: rest).map TkMode.ofMode) as) :
    boxSum shape (fun is => (x (flat is shape)
        - dense ((roundTuckerSem thr eps ((leftSweep (fullRankTT shape x).modes qrs).map TkMode.ofMode) as).map TkMode.toMode) is) ^ 2)
      = tkSweepErr thr eps shape.length ((cur :: rest).map TkMode.ofMode) as :=
  fixedrank_tucker_error_eq thr eps shape x qrs as cur rest hne hpos hlen hqr hrev hok

/-- **Tucker ranks within the request**: in processing order (`mu = N-1, …, 0`) every Tucker rank of `Tensor(x, ranks_tucker=r)` is at most
    the mode size and at most `rmax[mu]` (kernels returning reduced factorisations, `tkShapes`) -/
theorem fixed_rank_tucker_ranks (thr eps : K) (shape : List Nat) (x : Nat → K) (qrs : List (QRAns K)) (as : List (TkAns K × Nat))
    (cur : Mode K) (rest : List (Mode K))
    (hne : shape ≠ []) (hpos : ∀ s ∈ shape, 0 < s)
    (hrev : (leftSweep (fullRankTT shape x).modes qrs).reverse = cur :: rest)
    (hl : shape.length ≤ as.length)
    (hok : tkOK thr eps shape.length ((cur :: rest).map TkMode.ofMode) as)
    (hsh : tkShapes thr eps shape.length ((cur :: rest).map TkMode.ofMode) as) :
    tkRankRel (roundTuckerSem thr eps ((leftSweep (fullRankTT shape x).modes qrs).map TkMode.ofMode) as).reverse
      ((cur :: rest).map TkMode.ofMode) as := by
  obtain ⟨_, _, _, hl0⟩ := fixedrank_fullRankTT_chain shape x hne hpos
  have hlen' : ((leftSweep (fullRankTT shape x).modes qrs).map TkMode.ofMode).length = shape.length := by
    rw [List.length_map, leftSweep_length, hl0]
  have hcl : ((cur :: rest).map TkMode.ofMode).length = shape.length := by
    rw [List.length_map, ← hrev, List.length_reverse, leftSweep_length, hl0]
  unfold roundTuckerSem
  rw [List.reverse_reverse, hlen', ← List.map_reverse, hrev]
  exact TN.tk_sweep_rank thr eps shape.length as _ (by rw [hcl]; exact hl) hok hsh

/-- exact reproduction by `Tensor(x, ranks_tucker=r)` when nothing is discarded -/
theorem fixed_rank_tucker_exact (thr eps : K) (shape : List Nat) (x : Nat → K) (qrs : List (QRAns K)) (as : List (TkAns K × Nat))
    (cur : Mode K) (rest : List (Mode K))
    (hne : shape ≠ []) (hpos : ∀ s ∈ shape, 0 < s) (hlen : qrs.length + 1 = shape.length)
    (hqr : qrOK (fullRankTT shape x).modes qrs)
    (hrev : (leftSweep (fullRankTT shape x).modes qrs).reverse = cur :: rest)
    (hok : tkOK thr eps shape.length ((cur :: rest).map TkMode.ofMode) as)
    (hzero : tkSweepErr thr eps shape.length ((cur :: rest).map TkMode.ofMode) as = 0) :
    ∀ is, inShape is shape →
      dense ((roundTuckerSem thr eps ((leftSweep (fullRankTT shape x).modes qrs).map TkMode.ofMode) as).map TkMode.toMode) is
        = x (flat is shape) := by
  have h := fixedrank_tucker_error_eq thr eps shape x qrs as cur rest hne hpos hlen hqr hrev hok
  rw [hzero] at h
  exact fixedrank_eq_of_err_zero shape (fun is => x (flat is shape)) _ h

/-- non-vacuity of the three Tucker theorems: `Tensor(diag(3,1), ranks_tucker=7)` with the exact answers of all kernels -/
example : ∃ (cur : Mode K) (rest : List (Mode K)),
    [fixedrankExQ (3 : K) 1].length + 1 = ([2, 2] : List Nat).length ∧
    qrOK (fullRankTT [2, 2] (fixedrankExX (3 : K) 1)).modes [fixedrankExQ 3 1] ∧
    (leftSweep (fullRankTT [2, 2] (fixedrankExX (3 : K) 1)).modes [fixedrankExQ 3 1]).reverse = cur :: rest ∧
    ([2, 2] : List Nat).length ≤ [(fixedrankExTA (3 : K) 1, 7), (fixedrankExTA 3 1, 7)].length ∧
    tkOK (0 : K) 0 ([2, 2] : List Nat).length ((cur :: rest).map TkMode.ofMode) [(fixedrankExTA 3 1, 7), (fixedrankExTA 3 1, 7)] ∧
    tkShapes (0 : K) 0 ([2, 2] : List Nat).length ((cur :: rest).map TkMode.ofMode) [(fixedrankExTA 3 1, 7), (fixedrankExTA 3 1, 7)] := by
  obtain ⟨m0, m1, hms, hD, hI⟩ := fixedrankEx_modes (3 : K) 1
  have hms' : (fullRankTT [2, 2] (fixedrankExX (3 : K) 1)).modes = [m0, m1] := hms
  rw [hms']
  obtain ⟨hqr, hP, hC⟩ := fixedrankEx_orth (3 : K) 1 m0 m1 hD hI
  obtain ⟨t1, _, t3⟩ := fixedrankEx_tk _ _ hP hC
  exact ⟨(orthStep m0 m1 (fixedrankExQ 3 1)).2, [(orthStep m0 m1 (fixedrankExQ 3 1)).1], rfl, hqr, rfl, by simp, t1, t3⟩

/-- **`Tensor(x, eps=e)` stays within `e`** (tensor.py:436-440 → `Tensor.round`, tensor.py:2194-2208), branch `reached < eps`:
    `_full_rank_tt(x)`; `round_tt(e)` (QR answers `qrs1`, SVD answers `svds`) giving `y`; `reached` = the value `tn.relative_error`
    measured for `y` (hypothesis `hreach`: it is not smaller than the true relative error); `round_tucker((1+e)/(1+reached) − 1)` on `y`
    (QR answers `qrs2` of its `orthogonalize(-1)`, identity factors, kernel answers `as`).  Given the contracts and no cap in the Tucker
    sweep: `‖x − Tensor(x, eps=e)‖² ≤ e²·‖x‖²`.  (Composition of `C01.roundtrip`, the gauge lemmas and `C04.round_within_eps`.) -/
theorem construct_eps_within (thr eps reached : K) (shape : List Nat) (x : Nat → K)
    (qrs1 : List (QRAns K)) (svds : List (SVDAns K × Nat)) (cur1 : Mode K) (rest1 : List (Mode K))
    (qrs2 : List (QRAns K)) (as : List (TkAns K × Nat)) (cur2 : Mode K) (rest2 : List (Mode K))
    (hne : shape ≠ []) (hpos : ∀ s ∈ shape, 0 < s) (hlen1 : qrs1.length + 1 = shape.length)
    (hqr1 : qrOK (fullRankTT shape x).modes qrs1)
    (hrev1 : (leftSweep (fullRankTT shape x).modes qrs1).reverse = cur1 :: rest1)
    (hlen2 : qrs2.length + 1 = shape.length)
    (hqr2 : qrOK (roundTTsem thr (budget2 eps cur1 rest1.length) (leftSweep (fullRankTT shape x).modes qrs1) svds) qrs2)
    (hrev2 : (leftSweep (roundTTsem thr (budget2 eps cur1 rest1.length) (leftSweep (fullRankTT shape x).modes qrs1) svds) qrs2).reverse
      = cur2 :: rest2)
    (h0 : 0 ≤ reached) (h1 : reached ≤ eps)
    (hreach : boxSum shape (fun is => (x (flat is shape)
        - dense (roundTTsem thr (budget2 eps cur1 rest1.length) (leftSweep (fullRankTT shape x).modes qrs1) svds) is) ^ 2)
      ≤ reached ^ 2 * boxSum shape (fun is => x (flat is shape) ^ 2))
    (hok : tkOK thr ((1 + eps) / (1 + reached) - 1) shape.length ((cur2 :: rest2).map TkMode.ofMode) as)
    (hun : tkUncapped thr ((1 + eps) / (1 + reached) - 1) shape.length ((cur2 :: rest2).map TkMode.ofMode) as) :
    boxSum shape (fun is => (x (flat is shape)
        - dense ((roundTuckerSem thr ((1 + eps) / (1 + reached) - 1)
            ((leftSweep (roundTTsem thr (budget2 eps cur1 rest1.length) (leftSweep (fullRankTT shape x).modes qrs1) svds) qrs2).map
              TkMode.ofMode) as).map TkMode.toMode) is) ^ 2)
      ≤ eps ^ 2 * boxSum shape (fun is => x (flat is shape) ^ 2) :=
  fixedrank_construct_eps thr eps reached shape x qrs1 svds cur1 rest1 qrs2 as cur2 rest2 hne hpos hlen1 hqr1 hrev1 hlen2 hqr2 hrev2
    h0 h1 hreach hok hun

/-- the other branch of `round` inside `Tensor(x, eps=e)` (`reached ≥ eps`, no `rmax`): nothing follows `round_tt(e)`, and the TT
    stage alone is within `e` (contracts of the QR and SVD kernels; `rmax = None` never binds: `uncapped`) -/
theorem construct_eps_within_tt_stage (thr eps : K) (shape : List Nat) (x : Nat → K) (qrs : List (QRAns K)) (svds : List (SVDAns K × Nat))
    (cur : Mode K) (rest : List (Mode K))
    (hne : shape ≠ []) (hpos : ∀ s ∈ shape, 0 < s) (hlen : qrs.length + 1 = shape.length)
    (hqr : qrOK (fullRankTT shape x).modes qrs)
    (hrev : (leftSweep (fullRankTT shape x).modes qrs).reverse = cur :: rest)
    (hok : ansOK thr (budget2 eps cur rest.length) (cur :: rest) svds)
    (hun : uncapped thr (budget2 eps cur rest.length) (cur :: rest) svds) :
    boxSum shape (fun is => (x (flat is shape)
        - dense (roundTTsem thr (budget2 eps cur rest.length) (leftSweep (fullRankTT shape x).modes qrs) svds) is) ^ 2)
      ≤ eps ^ 2 * boxSum shape (fun is => x (flat is shape) ^ 2) :=
  fixedrank_tt_within thr eps shape x qrs svds cur rest hne hpos hlen hqr hrev hok (fixedrank_capOK_of_uncapped thr _ svds _ hun)

/-- non-vacuity of `construct_eps_within`: `Tensor(diag(3,1), eps=0)` with `reached = 0` and the exact answers of all kernels of both
    stages meets every hypothesis -/
example : ∃ (cur1 : Mode K) (rest1 : List (Mode K)) (cur2 : Mode K) (rest2 : List (Mode K)),
    qrOK (fullRankTT [2, 2] (fixedrankExX (3 : K) 1)).modes [fixedrankExQ 3 1] ∧
    (leftSweep (fullRankTT [2, 2] (fixedrankExX (3 : K) 1)).modes [fixedrankExQ 3 1]).reverse = cur1 :: rest1 ∧
    qrOK (roundTTsem (0 : K) (budget2 0 cur1 rest1.length)
      (leftSweep (fullRankTT [2, 2] (fixedrankExX (3 : K) 1)).modes [fixedrankExQ 3 1]) [(fixedrankExA 3 1, 7)]) [fixedrankExQ 3 1] ∧
    (leftSweep (roundTTsem (0 : K) (budget2 0 cur1 rest1.length)
      (leftSweep (fullRankTT [2, 2] (fixedrankExX (3 : K) 1)).modes [fixedrankExQ 3 1]) [(fixedrankExA 3 1, 7)])
        [fixedrankExQ 3 1]).reverse = cur2 :: rest2 ∧
    (0 : K) ≤ 0 ∧ (0 : K) ≤ 0 ∧
    boxSum [2, 2] (fun is => (fixedrankExX (3 : K) 1 (flat is [2, 2])
        - dense (roundTTsem (0 : K) (budget2 0 cur1 rest1.length)
            (leftSweep (fullRankTT [2, 2] (fixedrankExX (3 : K) 1)).modes [fixedrankExQ 3 1]) [(fixedrankExA 3 1, 7)]) is) ^ 2)
      ≤ (0 : K) ^ 2 * boxSum [2, 2] (fun is => fixedrankExX (3 : K) 1 (flat is [2, 2]) ^ 2) ∧
    tkOK (0 : K) ((1 + 0) / (1 + 0) - 1) ([2, 2] : List Nat).length ((cur2 :: rest2).map TkMode.ofMode)
      [(fixedrankExTA 3 1, 7), (fixedrankExTA 3 1, 7)] ∧
    tkUncapped (0 : K) ((1 + 0) / (1 + 0) - 1) ([2, 2] : List Nat).length ((cur2 :: rest2).map TkMode.ofMode)
      [(fixedrankExTA 3 1, 7), (fixedrankExTA 3 1, 7)] := by
  obtain ⟨cur1, rest1, cur2, rest2, a1, a2, a3, a4, a5, a6, a7, a8⟩ := fixedrankEx_eps (K := K)
  have e : ((1 + 0) / (1 + 0) - 1 : K) = 0 := by norm_num
  rw [e]
  refine ⟨cur1, rest1, cur2, rest2, a1, a2, a3, a4, le_refl _, le_refl _, ?_, a7, a8⟩
  have h := fixedrank_tt_error_eq (0 : K) (budget2 0 cur1 rest1.length) [2, 2] (fixedrankExX (3 : K) 1) [fixedrankExQ 3 1]
    [(fixedrankExA 3 1, 7)] cur1 rest1 (by simp) (by simp) rfl a1 a2 a5
  rw [a6] at h
  have h' : boxSum [2, 2] (fun is => (fixedrankExX (3 : K) 1 (flat is [2, 2])
        - dense (roundTTsem (0 : K) (budget2 0 cur1 rest1.length)
            (leftSweep (fullRankTT [2, 2] (fixedrankExX (3 : K) 1)).modes [fixedrankExQ 3 1]) [(fixedrankExA 3 1, 7)]) is) ^ 2) = 0 := h
  rw [h']; simp

-- NOT YET PROVED (full statements), and classical facts absent from Mathlib:
--  * the QUASI-OPTIMALITY clause of C05 — "`‖x − Tensor(x, ranks_tt=r)‖²` is at most the sum over the unfoldings of `x` of the squared
--    singular values of THAT UNFOLDING discarded at rank `r_k`, and at least the largest single such tail".  What is proved is the exact
--    identity `fixed_rank_tt_error_eq`: the error equals the sum of the tails of the matrices ACTUALLY decomposed, `M_mu = Xᵀ·A_mu·W`
--    (`A_mu` the `mu`-th unfolding of `x`, `X` the orthonormal interface of the cores to the left, `W` = the product of the earlier
--    `Vh_rᵀ`, which has orthonormal columns; `fixedrank_core_factor` / `fixedrank_FacLE_step` establish this product form).  Two classical
--    facts are missing from Mathlib and were NOT attempted:
--      (1) Eckart–Young–Mirsky: for `M = U·diag(S)·Vh` (contract `SVDok2`) and every `N` of rank `≤ r`, `‖M − N‖²_F ≥ Σ_{l ≥ r} S_l²`;
--          equivalently `Σ_{l ≥ r} σ_l(M)² = min_{rank N ≤ r} ‖M − N‖²_F` (`truncation_error` is the "attained" half only);
--      (2) interlacing / monotonicity of singular values under contraction: `σ_l(P·A·Q) ≤ σ_l(A)` for every `l` when `PᵀP ≤ I`,
--          `Q·Qᵀ ≤ I` (here `P = Xᵀ`, `Q = W` are partial isometries), a consequence of the Courant–Fischer min-max characterisation.
--    Upper bound from them: by (2) each tail `Σ_{l ≥ r_mu} σ_l(M_mu)² ≤ Σ_{l ≥ r_mu} σ_l(A_mu)²`, so `fixed_rank_tt_error_eq` gives
--    `‖x − result‖² ≤ Σ_mu Σ_{l ≥ r_mu} σ_l(A_mu)²`.  Lower bound from (1): the `mu`-th unfolding of the result has rank `≤ r_mu`
--    (`fixed_rank_tt_error_eq`, bond clause), hence `‖x − result‖² = ‖A_mu − unfolding_mu(result)‖²_F ≥ Σ_{l ≥ r_mu} σ_l(A_mu)²` for every
--    `mu`, in particular for the largest tail.  The same two facts give the Tucker version from `fixed_rank_tucker_error_eq`.
--    (Both need the singular values as a FUNCTION of the matrix, i.e. uniqueness of `S` in `SVDok2`, itself a corollary of (1).)
--  * "exact on low-rank input" IS proved for the TT path with every link (`fixed_rank_exact_of_unfolding_ranks`, Mathlib `Matrix.rank`;
--    `fixed_rank_exact_of_unfolding_factorisations`); the only added hypothesis beyond the contracts `qrOK`/`ansOK` is
--    `fixedrank_svSorted` (singular values returned non-negative and non-increasing), and `round_tt`'s `eps` must be `0` for literal
--    equality — with the constructor's `eps = 1e-14` the statement is `fixed_rank_within_eps_of_unfolding_ranks` (relative error `≤ eps`).
--    NOT proved: the corresponding statement for `ranks_tucker` in terms of the ranks of the MODE unfoldings of `x` (only
--    `fixed_rank_tucker_exact`: zero tails ⇒ exact), and the converse direction "factorisation ⇒ `Matrix.rank ≤ ρ`" (not needed);
--  * both `ranks_tucker` and `ranks_tt` given: `round_tucker` then `round_tt` on a tensor WITH Tucker factors; the second stage starts with
--    `orthogonalize(N-1)` + `factor_orthogonalize(N-1)` on TT-Tucker cores, whose replay (factor QR) is not modelled
--    (`C04.roundTT_with_factors` covers the state after it); no composed statement;
--  * `algorithm='eig'` for all constructor paths, `batch=True`;
--  * the absolute-zero special case (`S[0] < 1e-13`, e.g. `x = 0`) is excluded by `ansOK` / `tkOK` (`thr ≤ S 0`): for the zero array the
--    constructor returns rank-1 zero cores, which is exact, but this is not derived here;
--  * in `construct_eps_within` the measured `reached` enters through the hypothesis `hreach` (`tn.relative_error` is not modelled as a
--    kernel); the branch `reached ≥ eps` is `construct_eps_within_tt_stage`;
--  * CP-ALS monotonicity / rank-1 exactness (third sentence of C05): not modelled.

end TN.C05
