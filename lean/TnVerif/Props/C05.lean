import TnVerif.Lemmas.RankSelect
import TnVerif.Model.Round
import Mathlib.Tactic.Ring
import Mathlib.Algebra.BigOperators.Ring.Finset
import Mathlib.Algebra.BigOperators.Intervals
import Mathlib.Tactic.IntervalCases
/-!
# C05 — fixed-rank decompositions: what `truncated_svd` returns, given the SVD kernel's answer

`SVDok`: `M = U·diag(S)·Vh` with `UᵀU = I` (on the first `n` columns).  Then the factor `Uᵀ_r M` the
routine computes for `left_ortho=True` is `diag(S_r)·Vh_r`, i.e. `left·right` **is** the rank-`r`
truncation `U_r diag(S_r) Vh_r`; the rank is the smallest one meeting the budget (TN.leastRank_minimal);
if the tail at the requested rank is zero nothing is discarded (exact reproduction).
-/
namespace TN.C05
open TN Finset
variable {K : Type} [Field K] [LinearOrder K] [IsStrictOrderedRing K]

/-- kernel contract of `torch.linalg.svd` used by `truncated_svd` -/
structure SVDok (m n cols : Nat) (M : Nat → Nat → K) (U : Nat → Nat → K) (S : Nat → K) (Vh : Nat → Nat → K) : Prop where
  factor : ∀ i j, i < m → j < cols → M i j = ∑ l ∈ range n, U i l * (S l * Vh l j)
  ortho : ∀ k l, k < n → l < n → (∑ i ∈ range m, U i k * U i l) = if k = l then 1 else 0

/-- **the two factors multiply to the rank-r truncation**: row `k < r` of `M2 = U_rᵀ·M` is `S_k·Vh_k`, so
    `left·M2 = Σ_{k<r} U[:,k]·S_k·Vh[k,:]`, the Eckart–Young truncation of the kernel's SVD -/
theorem truncation_right_factor (m n cols : Nat) (M U : Nat → Nat → K) (S : Nat → K) (Vh : Nat → Nat → K)
    (h : SVDok m n cols M U S Vh) (k j : Nat) (hk : k < n) (hj : j < cols) :
    (∑ i ∈ range m, U i k * M i j) = S k * Vh k j := by
  have e : ∀ i ∈ range m, U i k * M i j = ∑ l ∈ range n, (U i k * U i l) * (S l * Vh l j) := by
    intro i hi
    rw [h.factor i j (Finset.mem_range.mp hi) hj, Finset.mul_sum]
    apply Finset.sum_congr rfl; intro l _; ring
  rw [Finset.sum_congr rfl e, Finset.sum_comm]
  have e2 : ∀ l ∈ range n, (∑ i ∈ range m, U i k * U i l * (S l * Vh l j)) = (if k = l then 1 else 0) * (S l * Vh l j) := by
    intro l hl
    rw [← Finset.sum_mul, h.ortho k l hk (Finset.mem_range.mp hl)]
  rw [Finset.sum_congr rfl e2, Finset.sum_eq_single k]
  · simp
  · intro l _ hl; simp [Ne.symm hl]
  · intro hh; exact absurd (Finset.mem_range.mpr hk) hh

/-- **smallest rank meeting the budget** and its bounds (restated from C04 for the matrix routine) -/
theorem rank_minimal (S2 : List K) (d2 : K) (hd : 0 ≤ d2) :
    tailSum S2 (leastRank S2 d2 S2.length 0) ≤ d2 ∧ ∀ r, r < leastRank S2 d2 S2.length 0 → ¬ tailSum S2 r ≤ d2 :=
  TN.leastRank_minimal S2 d2 hd

/-- the returned rank never exceeds the request -/
theorem rank_le_request (S2 : List K) (d2 : K) (rmax : Nat) (h : 1 ≤ rmax) : rankSelect S2 d2 rmax ≤ rmax :=
  (TN.rankSelect_bounds S2 d2 rmax).2.1 h

/-- **exact on low-rank input**: if the squared singular values beyond position `r` are all zero, the
    discarded tail at rank `r` is zero — nothing is lost at that rank -/
theorem tail_zero_of_low_rank (S2 : List K) : ∀ r, (∀ i, r ≤ i → S2.getD i 0 = 0) → tailSum S2 r = 0 := by
  induction S2 with
  | nil => intro r _; cases r <;> rfl
  | cons x xs ih =>
    intro r h
    cases r with
    | zero =>
      have hx : x = 0 := by simpa using h 0 (le_refl _)
      have := ih 0 (fun i _ => by simpa using h (i + 1) (Nat.zero_le _))
      simp [tailSum, hx, this]
    | succ r =>
      simp only [tailSum]
      exact ih r (fun i hi => by simpa using h (i + 1) (by omega))

/-- hence a zero budget already selects a rank `≤ r` for input of rank `≤ r` -/
theorem exact_rank (S2 : List K) (r : Nat) (h : ∀ i, r ≤ i → S2.getD i 0 = 0) : leastRank S2 0 S2.length 0 ≤ r := by
  by_contra hc
  have := (TN.leastRank_minimal S2 0 (le_refl _)).2 r (by omega)
  exact this (by rw [tail_zero_of_low_rank S2 r h])

/-- the discarded tail as a finite sum: `tailSum S r = Σ_{r ≤ l < |S|} S_l` -/
theorem tailSum_eq_sum (S : List K) : ∀ r, tailSum S r = ∑ l ∈ Ico r S.length, S.getD l 0 := by
  induction S with
  | nil => intro r; cases r <;> simp [tailSum]
  | cons x xs ih =>
    intro r
    cases r with
    | zero =>
      rw [tailSum, ih 0]
      simp only [List.length_cons, Nat.Ico_zero_eq_range]
      rw [Finset.sum_range_succ']
      simp [add_comm]
    | succ r =>
      rw [tailSum, ih r, List.length_cons, ← Finset.sum_Ico_add' _ r xs.length 1]
      apply Finset.sum_congr rfl; intro l _; simp

/-- full kernel contract: additionally the rows of `Vh` are orthonormal -/
structure SVDok2 (m n cols : Nat) (M : Nat → Nat → K) (U : Nat → Nat → K) (S : Nat → K) (Vh : Nat → Nat → K) : Prop
    extends SVDok m n cols M U S Vh where
  orthoV : ∀ k l, k < n → l < n → (∑ j ∈ range cols, Vh k j * Vh l j) = if k = l then 1 else 0

/-- Frobenius norm under two orthonormal families: `‖U·diag(D)·Vh‖² = Σ D_l²` -/
theorem frob_orth (m n cols : Nat) (U Vh : Nat → Nat → K) (D : Nat → K)
    (hU : ∀ k l, k < n → l < n → (∑ i ∈ range m, U i k * U i l) = if k = l then 1 else 0)
    (hV : ∀ k l, k < n → l < n → (∑ j ∈ range cols, Vh k j * Vh l j) = if k = l then 1 else 0) :
    (∑ i ∈ range m, ∑ j ∈ range cols, (∑ l ∈ range n, U i l * (D l * Vh l j)) ^ 2) = ∑ l ∈ range n, D l ^ 2 := by
  have e1 : ∀ i ∈ range m, ∀ j ∈ range cols, (∑ l ∈ range n, U i l * (D l * Vh l j)) ^ 2
      = ∑ l ∈ range n, ∑ l' ∈ range n, (D l * D l') * ((U i l * U i l') * (Vh l j * Vh l' j)) := by
    intro i _ j _
    rw [sq, Finset.sum_mul_sum]
    apply Finset.sum_congr rfl; intro l _; apply Finset.sum_congr rfl; intro l' _; ring
  rw [Finset.sum_congr rfl (fun i hi => Finset.sum_congr rfl (e1 i hi))]
  have e2 : (∑ i ∈ range m, ∑ j ∈ range cols, ∑ l ∈ range n, ∑ l' ∈ range n, (D l * D l') * ((U i l * U i l') * (Vh l j * Vh l' j)))
      = ∑ l ∈ range n, ∑ l' ∈ range n, (D l * D l') * ((∑ i ∈ range m, U i l * U i l') * (∑ j ∈ range cols, Vh l j * Vh l' j)) := by
    calc _ = ∑ i ∈ range m, ∑ l ∈ range n, ∑ j ∈ range cols, ∑ l' ∈ range n, (D l * D l') * ((U i l * U i l') * (Vh l j * Vh l' j)) := by
            apply Finset.sum_congr rfl; intro i _; rw [Finset.sum_comm]
      _ = ∑ l ∈ range n, ∑ i ∈ range m, ∑ j ∈ range cols, ∑ l' ∈ range n, (D l * D l') * ((U i l * U i l') * (Vh l j * Vh l' j)) := by
            rw [Finset.sum_comm]
      _ = ∑ l ∈ range n, ∑ i ∈ range m, ∑ l' ∈ range n, ∑ j ∈ range cols, (D l * D l') * ((U i l * U i l') * (Vh l j * Vh l' j)) := by
            apply Finset.sum_congr rfl; intro l _; apply Finset.sum_congr rfl; intro i _; rw [Finset.sum_comm]
      _ = ∑ l ∈ range n, ∑ l' ∈ range n, ∑ i ∈ range m, ∑ j ∈ range cols, (D l * D l') * ((U i l * U i l') * (Vh l j * Vh l' j)) := by
            apply Finset.sum_congr rfl; intro l _; rw [Finset.sum_comm]
      _ = _ := by
            apply Finset.sum_congr rfl; intro l _; apply Finset.sum_congr rfl; intro l' _
            rw [Finset.sum_mul_sum, Finset.mul_sum]
            apply Finset.sum_congr rfl; intro i _; rw [Finset.mul_sum]
  rw [e2]
  apply Finset.sum_congr rfl; intro l hl
  rw [Finset.sum_eq_single l]
  · rw [hU l l (Finset.mem_range.mp hl) (Finset.mem_range.mp hl), hV l l (Finset.mem_range.mp hl) (Finset.mem_range.mp hl)]; simp [sq]
  · intro l' hl' hne
    rw [hU l l' (Finset.mem_range.mp hl) (Finset.mem_range.mp hl')]; simp [Ne.symm hne]
  · intro h; exact absurd hl h

/-- **the error of the rank-`r` truncation is exactly the discarded tail**:
    `‖M − U_r diag(S_r) Vh_r‖²_F = Σ_{r ≤ l < n} S_l²` (given the full kernel contract) -/
theorem truncation_error (m n cols : Nat) (M U : Nat → Nat → K) (S : Nat → K) (Vh : Nat → Nat → K)
    (h : SVDok2 m n cols M U S Vh) (r : Nat) (hr : r ≤ n) :
    (∑ i ∈ range m, ∑ j ∈ range cols, (M i j - ∑ l ∈ range r, U i l * (S l * Vh l j)) ^ 2) = ∑ l ∈ Ico r n, S l ^ 2 := by
  have e : ∀ i ∈ range m, ∀ j ∈ range cols, (M i j - ∑ l ∈ range r, U i l * (S l * Vh l j))
      = ∑ l ∈ range n, U i l * ((if l < r then 0 else S l) * Vh l j) := by
    intro i hi j hj
    rw [h.factor i j (Finset.mem_range.mp hi) (Finset.mem_range.mp hj)]
    rw [← Finset.sum_range_add_sum_Ico _ hr, ← Finset.sum_range_add_sum_Ico (fun l => U i l * ((if l < r then 0 else S l) * Vh l j)) hr]
    have z : (∑ l ∈ range r, U i l * ((if l < r then 0 else S l) * Vh l j)) = 0 := by
      apply Finset.sum_eq_zero; intro l hl; simp [Finset.mem_range.mp hl]
    have k : (∑ l ∈ Ico r n, U i l * ((if l < r then 0 else S l) * Vh l j)) = ∑ l ∈ Ico r n, U i l * (S l * Vh l j) := by
      apply Finset.sum_congr rfl; intro l hl
      have : ¬ l < r := by have := (Finset.mem_Ico.mp hl).1; omega
      simp [this]
    rw [z, k]; ring
  rw [Finset.sum_congr rfl (fun i hi => Finset.sum_congr rfl (fun j hj => by rw [e i hi j hj]))]
  rw [frob_orth m n cols U Vh _ h.ortho h.orthoV, ← Finset.sum_range_add_sum_Ico _ hr]
  have z : (∑ l ∈ range r, (if l < r then 0 else S l) ^ 2) = 0 := by
    apply Finset.sum_eq_zero; intro l hl; simp [Finset.mem_range.mp hl]
  rw [z, zero_add]
  apply Finset.sum_congr rfl; intro l hl
  have : ¬ l < r := by have := (Finset.mem_Ico.mp hl).1; omega
  simp [this]

/-- **`truncated_svd` stays within its budget**: with the factors the routine returns (`left = U_r`, `right = U_rᵀM`) and
    the rank it selects when `rmax` does not bind, `‖M − left·right‖² ≤ δ²` — and one rank less would exceed it -/
theorem truncated_svd_within_budget (m n cols : Nat) (M U : Nat → Nat → K) (S : Nat → K) (Vh : Nat → Nat → K)
    (h : SVDok2 m n cols M U S Vh) (d2 : K) (hd : 0 ≤ d2) :
    let S2 := (List.range n).map (fun l => S l ^ 2)
    let r := leastRank S2 d2 S2.length 0
    (∑ i ∈ range m, ∑ j ∈ range cols, (M i j - ∑ l ∈ range r, U i l * (∑ i' ∈ range m, U i' l * M i' j)) ^ 2) ≤ d2 := by
  intro S2 r
  have hlen : S2.length = n := by simp [S2]
  have hr : r ≤ n := by
    have := (TN.leastRank_spec S2 d2 S2.length 0).2.1
    omega
  have e : ∀ i ∈ range m, ∀ j ∈ range cols, (M i j - ∑ l ∈ range r, U i l * (∑ i' ∈ range m, U i' l * M i' j))
      = (M i j - ∑ l ∈ range r, U i l * (S l * Vh l j)) := by
    intro i _ j hj
    congr 1
    apply Finset.sum_congr rfl; intro l hl
    rw [truncation_right_factor m n cols M U S Vh h.toSVDok l j (by have := Finset.mem_range.mp hl; omega) (Finset.mem_range.mp hj)]
  rw [Finset.sum_congr rfl (fun i hi => Finset.sum_congr rfl (fun j hj => by rw [e i hi j hj]))]
  rw [truncation_error m n cols M U S Vh h r hr]
  have t : tailSum S2 r ≤ d2 := (TN.leastRank_minimal S2 d2 hd).1
  rw [tailSum_eq_sum, hlen] at t
  refine le_of_eq_of_le ?_ t
  apply Finset.sum_congr rfl; intro l hl
  have hl' := (Finset.mem_Ico.mp hl).2
  simp [S2, List.getD_eq_getElem?_getD, hl']

/-- non-vacuity: `diag(3,1)` with its trivial SVD meets the full kernel contract -/
example : SVDok2 2 2 2 (fun i j => if i = j then (if i = 0 then (3 : K) else 1) else 0) (fun i j => if i = j then 1 else 0)
    (fun l => if l = 0 then 3 else 1) (fun i j => if i = j then 1 else 0) := by
  refine { factor := ?_, ortho := ?_, orthoV := ?_ }
  · intro i j hi hj; interval_cases i <;> interval_cases j <;> simp [Finset.sum_range_succ]
  · intro k l hk hl; interval_cases k <;> interval_cases l <;> simp [Finset.sum_range_succ]
  · intro k l hk hl; interval_cases k <;> interval_cases l <;> simp [Finset.sum_range_succ]

-- NOT YET PROVED (full statement), and assumed results absent from Mathlib:
--   two-sided bound of the TT/Tucker fixed-rank error by the tails of the ORIGINAL unfoldings
--   (`_assuming_` Eckart–Young and the monotonicity of singular values under orthogonal projection);
--   CP-ALS monotonicity.

end TN.C05
