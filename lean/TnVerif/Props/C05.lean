import TnVerif.Props.C04
import Mathlib.Algebra.BigOperators.Ring.Finset
import Mathlib.Algebra.BigOperators.Intervals
/-!
# C05 — fixed-rank decompositions: what `truncated_svd` returns, given the SVD kernel's answer

`SVDok`: `M = U·diag(S)·Vh` with `UᵀU = I` (on the first `n` columns).  Then the factor `Uᵀ_r M` the
routine computes for `left_ortho=True` is `diag(S_r)·Vh_r`, i.e. `left·right` **is** the rank-`r`
truncation `U_r diag(S_r) Vh_r`; the rank is the smallest one meeting the budget (C04.leastRank_minimal);
if the tail at the requested rank is zero nothing is discarded (exact reproduction).
-/
namespace TN.C05
open TN Finset
variable {K : Type} [Field K] [LinearOrder K] [IsStrictOrderedRing K]

/-- kernel contract of `torch.linalg.svd` used by `truncated_svd` -/
structure SVDok (m n cols : Nat) (M : Nat → Nat → K) (U : Nat → Nat → K) (S : Nat → K) (Vh : Nat → Nat → K) : Prop where
  factor : ∀ i j, i < m → j < cols → M i j = ∑ l ∈ range n, U i l * (S l * Vh l j)
  ortho : ∀ k l, k < n → l < n → (∑ i ∈ range m, U i k * U i l) = if k = l then 1 else 0

/-- **the two factors multiply to the rank-r truncation**: row `k < r` of `M2 = U_rᵀ·M` is `S_k·Vh_k`, so
    `left·M2 = Σ_{k<r} U[:,k]·S_k·Vh[k,:]`, the Eckart–Young truncation of the kernel's SVD -/
theorem truncation_right_factor (m n cols : Nat) (M U : Nat → Nat → K) (S : Nat → K) (Vh : Nat → Nat → K)
    (h : SVDok m n cols M U S Vh) (k j : Nat) (hk : k < n) (hj : j < cols) :
    (∑ i ∈ range m, U i k * M i j) = S k * Vh k j := by
  have e : ∀ i ∈ range m, U i k * M i j = ∑ l ∈ range n, (U i k * U i l) * (S l * Vh l j) := by
    intro i hi
    rw [h.factor i j (Finset.mem_range.mp hi) hj, Finset.mul_sum]
    apply Finset.sum_congr rfl; intro l _; ring
  rw [Finset.sum_congr rfl e, Finset.sum_comm]
  have e2 : ∀ l ∈ range n, (∑ i ∈ range m, U i k * U i l * (S l * Vh l j)) = (if k = l then 1 else 0) * (S l * Vh l j) := by
    intro l hl
    rw [← Finset.sum_mul, h.ortho k l hk (Finset.mem_range.mp hl)]
  rw [Finset.sum_congr rfl e2, Finset.sum_eq_single k]
  · simp
  · intro l _ hl; simp [Ne.symm hl]
  · intro hh; exact absurd (Finset.mem_range.mpr hk) hh

/-- **smallest rank meeting the budget** and its bounds (restated from C04 for the matrix routine) -/
theorem rank_minimal (S2 : List K) (d2 : K) (hd : 0 ≤ d2) :
    tailSum S2 (leastRank S2 d2 S2.length 0) ≤ d2 ∧ ∀ r, r < leastRank S2 d2 S2.length 0 → ¬ tailSum S2 r ≤ d2 :=
  C04.leastRank_minimal S2 d2 hd

/-- the returned rank never exceeds the request -/
theorem rank_le_request (S2 : List K) (d2 : K) (rmax : Nat) (h : 1 ≤ rmax) : rankSelect S2 d2 rmax ≤ rmax :=
  (C04.rankSelect_bounds S2 d2 rmax).2.1 h

/-- **exact on low-rank input**: if the squared singular values beyond position `r` are all zero, the
    discarded tail at rank `r` is zero — nothing is lost at that rank -/
theorem tail_zero_of_low_rank (S2 : List K) : ∀ r, (∀ i, r ≤ i → S2.getD i 0 = 0) → tailSum S2 r = 0 := by
  induction S2 with
  | nil => intro r _; cases r <;> rfl
  | cons x xs ih =>
    intro r h
    cases r with
    | zero =>
      have hx : x = 0 := by simpa using h 0 (le_refl _)
      have := ih 0 (fun i _ => by simpa using h (i + 1) (Nat.zero_le _))
      simp [tailSum, hx, this]
    | succ r =>
      simp only [tailSum]
      exact ih r (fun i hi => by simpa using h (i + 1) (by omega))

/-- hence a zero budget already selects a rank `≤ r` for input of rank `≤ r` -/
theorem exact_rank (S2 : List K) (r : Nat) (h : ∀ i, r ≤ i → S2.getD i 0 = 0) : leastRank S2 0 S2.length 0 ≤ r := by
  by_contra hc
  have := (C04.leastRank_minimal S2 0 (le_refl _)).2 r (by omega)
  exact this (by rw [tail_zero_of_low_rank S2 r h])

-- NOT YET PROVED (full statement), and assumed results absent from Mathlib:
--   ‖M − left·right‖² = Σ_{i≥r} S_i²  (needs VhVhᵀ = I and the Frobenius norm of an orthogonal transform);
--   two-sided bound of the TT/Tucker fixed-rank error by the tails of the ORIGINAL unfoldings
--   (`_assuming_` Eckart–Young and the monotonicity of singular values under orthogonal projection);
--   CP-ALS monotonicity.

end TN.C05
