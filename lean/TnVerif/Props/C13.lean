import TnVerif.Lemmas.Ortho
import TnVerif.Lemmas.OrthSweep
/-!
# C13 — orthogonalisation yields the documented gauge without changing the tensor

The QR factorisations are kernels; their answers `Q`, `R` are arguments with the contract `Q·R = A`
(for "tensor unchanged" nothing else is needed, so this part holds over any commutative semiring)
and `QᵀQ = I` (for the gauge clauses: the new core *is* `Q`).
-/
namespace TN.C13
open TN Finset
variable {R : Type} [CommSemiring R]

/-- `Q·R = A` on the rows the core actually uses -/
def QRok (Q Rm : Mat R) (A : Nat → Nat → R) (rows cols : Nat) : Prop :=
  Q.cols = Rm.rows ∧ ∀ row b, row < rows → b < cols → (∑ c ∈ range Q.cols, Q.f row c * Rm.f c b) = A row b

/-- **factor step**: `U = Q_U · R_U`, the factor becomes `Q_U` and `R_U` goes into the core — the mode
    (hence the tensor) is unchanged. -/
theorem factorOrth_toMode (Q Rm : Mat R) (c : Core R) (U : Fac R) (hok : U.cols = c.spatial)
    (h : QRok Q Rm U.f U.rows U.cols) (hq : Q.rows = U.rows) (hr : Rm.cols = U.cols) (i a b : Nat) (hi : i < U.rows) :
    ((TMode.mk c (some U)).factorOrth Q Rm).toMode.G i a b = (TMode.mk c (some U)).toMode.G i a b := by
  simp only [TMode.factorOrth, TMode.toMode_G, TMode.decomp_some, Fac.apply_get, Core.lin_get, Core.lin_spatial]
  have : ∀ j ∈ range c.spatial, U.f i j * c.get a j b = ∑ k ∈ range Q.cols, Q.f i k * (Rm.f k j * c.get a j b) := by
    intro j hj
    rw [← h.2 i j hi (by rw [hok]; exact Finset.mem_range.mp hj), Finset.sum_mul]
    apply Finset.sum_congr rfl; intro k _; ring
  rw [Finset.sum_congr rfl this, Finset.sum_comm, h.1]
  apply Finset.sum_congr rfl; intro k _
  rw [Finset.mul_sum]

/-- **left orthogonalisation step** (pair at the head of any suffix): with `Q·R =` left unfolding of the
    core, replacing the core by `Q` and pushing `R` into the right neighbour leaves every tail — hence
    the tensor — unchanged. -/
theorem leftOrth_tail (Q Rm : Mat R) (r0 s r1 s' r1' : Nat) (f g : Nat → Nat → Nat → R) (rest : List (Mode R))
    (hQR : QRok Q Rm (Core.leftUnf (.tt r0 s r1 f)) (r0 * s) r1) (hRc : Rm.cols = r1)
    (i j : Nat) (is : List Nat) (a : Nat) (ha : a < r0) (hi : i < s) :
    tail ((leftOrthPair Q Rm ⟨.tt r0 s r1 f, Option.none⟩ ⟨.tt r1 s' r1' g, Option.none⟩).1.toMode ::
          (leftOrthPair Q Rm ⟨.tt r0 s r1 f, Option.none⟩ ⟨.tt r1 s' r1' g, Option.none⟩).2.toMode :: rest) (i :: j :: is) a =
    tail ((TMode.mk (.tt r0 s r1 f) Option.none).toMode :: (TMode.mk (.tt r1 s' r1' g) Option.none).toMode :: rest) (i :: j :: is) a := by
  apply tail_bond _ _ _ _ Rm.f rest i j is a
  · rfl
  · intro b hb
    simp only [leftOrthPair, TMode.toMode_G, TMode.decomp_none, Core.tt_get, TMode.toMode_rr, Core.tt_rr] at hb ⊢
    have hrow : a * s + i < r0 * s := by
      calc a * s + i < a * s + s := by omega
        _ = (a + 1) * s := by ring
        _ ≤ r0 * s := Nat.mul_le_mul_right _ ha
    have := hQR.2 (a * s + i) b hrow hb
    simp only [Core.leftUnf] at this
    have hs : 0 < s := by omega
    rw [show (a * s + i) / s = a from by rw [Nat.mul_comm, Nat.mul_add_div hs, Nat.div_eq_of_lt hi]; simp,
        show (a * s + i) % s = i from by rw [Nat.mul_comm, Nat.mul_add_mod, Nat.mod_eq_of_lt hi]] at this
    rw [← this]
  · intro c b _ _
    simp only [leftOrthPair, TMode.toMode_G, TMode.decomp_none, Core.tt_get, TMode.toMode_rr, Core.tt_rr, sumTo_eq, hRc]

/-- **gauge**: after the step the left unfolding of the new core is `Q` itself, so it has orthonormal
    columns exactly when the kernel's `Q` has (`QᵀQ = I`). -/
theorem leftOrth_unfolding (Q Rm : Mat R) (r0 s r1 s' r1' : Nat) (f g : Nat → Nat → Nat → R) (row b : Nat) (hs : 0 < s) :
    Core.leftUnf ((leftOrthPair Q Rm ⟨.tt r0 s r1 f, Option.none⟩ ⟨.tt r1 s' r1' g, Option.none⟩).1.core) row b = Q.f row b := by
  simp only [leftOrthPair, Core.leftUnf]
  rw [Nat.div_add_mod' row s]

/-- **right orthogonalisation step**: with `L·Q =` right unfolding of the core (`Q` the new core, `L`
    pushed into the left neighbour) the tensor is unchanged. -/
theorem rightOrth_tail (Q L : Mat R) (r0' s' r0 s r1 : Nat) (g f : Nat → Nat → Nat → R) (rest : List (Mode R))
    (hLQ : L.cols = Q.rows ∧ ∀ a i b, a < r0 → i < s → b < r1 → (∑ c ∈ range L.cols, L.f a c * Q.f c (i * r1 + b)) = f a i b)
    (hLr : L.rows = r0) (j i : Nat) (is : List Nat) (a : Nat) (hi : i < s) :
    tail ((TMode.mk (.tt r0' s' r0 g) Option.none).toMode :: (TMode.mk (.tt r0 s r1 f) Option.none).toMode :: rest) (j :: i :: is) a =
    tail ((rightOrthPair Q L ⟨.tt r0' s' r0 g, Option.none⟩ ⟨.tt r0 s r1 f, Option.none⟩).1.toMode ::
          (rightOrthPair Q L ⟨.tt r0' s' r0 g, Option.none⟩ ⟨.tt r0 s r1 f, Option.none⟩).2.toMode :: rest) (j :: i :: is) a := by
  apply tail_bond _ _ _ _ L.f rest j i is a
  · rfl
  · intro b _
    simp only [rightOrthPair, TMode.toMode_G, TMode.decomp_none, Core.tt_get, TMode.toMode_rr, Core.tt_rr, sumTo_eq, hLr]
  · intro c b hc hb
    simp only [rightOrthPair, TMode.toMode_G, TMode.decomp_none, Core.tt_get, TMode.toMode_rr, Core.tt_rr] at hc hb ⊢
    exact (hLQ.2 c i b hc hi hb).symm

/-- lifting to any position `mu`: modes in front of the pair are untouched, and a tail only depends on
    the tails of what follows (`tail_cons_congr`), so the equalities above hold for the whole chain -/
theorem lift_to_position (m : Mode R) (ms ms' : List (Mode R)) (is : List Nat) (a : Nat)
    (h : ∀ (js : List Nat) (b : Nat), b < m.rr → tail ms js b = tail ms' js b) :
    tail (m :: ms) is a = tail (m :: ms') is a := tail_cons_congr m ms ms' is a h


/-! ### sweep level: `orthogonalize(N-1)` on a chain of TT cores (semantic chain, QR answers as arguments) -/
section sweep
variable {S : Type} [CommRing S]

/-- **the whole left sweep leaves the represented array unchanged** (any number of modes, sizes, ranks; contract `Q·R = A` only) -/
theorem orthogonalize_dense (ms : List (Mode S)) (qrs : List (QRAns S)) (is : List Nat) (hok : qrOK ms qrs)
    (hin : inShape is (ms.map (·.n))) : dense (leftSweep ms qrs) is = dense ms is :=
  leftSweep_dense ms qrs is hok hin

/-- **gauge**: after the full sweep every core but the last is left-orthonormal (its left unfolding is the kernel's `Q`, `QᵀQ = I`)
    and the bond ranks chain up from the left boundary -/
theorem orthogonalize_gauge (ms : List (Mode S)) (qrs : List (QRAns S)) (hok : qrOK ms qrs) (hl : qrs.length + 1 = ms.length)
    (hp : ∀ m ∈ ms.head?, m.rl = 1) : fwdLO 1 (leftSweep ms qrs).dropLast :=
  leftSweep_fwdLO qrs ms 1 hok hl hp

/-- shape and boundary ranks are preserved; bond `i` becomes the rank of the kernel's `Q` -/
theorem orthogonalize_shape (ms : List (Mode S)) (qrs : List (QRAns S)) :
    (leftSweep ms qrs).map (·.n) = ms.map (·.n) ∧ outRank 1 (leftSweep ms qrs) = outRank 1 ms :=
  ⟨leftSweep_shape qrs ms, leftSweep_outRank qrs ms 1⟩

/-- **the norm is carried by the last core** after the sweep (with right boundary rank 1): combine the gauge with
    `C04.norm_on_last_core` -/
theorem norm_carried_by_last (ms : List (Mode S)) (cur : Mode S) (rest : List (Mode S)) (hlo : chainLO rest) (hrl : cur.rl = topRank rest) :
    boxSum (shapeRev (cur :: rest)) (fun is => ∑ b ∈ range cur.rr, openRev (cur :: rest) is b ^ 2)
      = ∑ i ∈ range cur.n, ∑ b ∈ range cur.rr, ∑ a ∈ range cur.rl, cur.G i a b ^ 2 := by
  have hs0 : shapeRev (cur :: rest) = cur.n :: shapeRev rest := rfl
  rw [hs0, boxSum_cons]
  apply Finset.sum_congr rfl; intro i _
  rw [boxSum_sum]
  apply Finset.sum_congr rfl; intro b _
  have e : (fun is => openRev (cur :: rest) (i :: is) b ^ 2)
      = (fun is => (∑ a ∈ range cur.rl, openRev rest is a * cur.G i a b) * (∑ a ∈ range cur.rl, openRev rest is a * cur.G i a b)) := by
    funext is; simp only [openRev, sq]
  rw [e, hrl, boxSum_orth_pair (shapeRev rest) (topRank rest) (fun is a => openRev rest is a) (LO_iso rest hlo)]
  apply Finset.sum_congr rfl; intro a _; ring

end sweep

end TN.C13
