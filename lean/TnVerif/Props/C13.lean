import TnVerif.Lemmas.Ortho
import TnVerif.Lemmas.OrthSweep
import TnVerif.Lemmas.OrthFull
/-!
# C13 — orthogonalisation yields the documented gauge without changing the tensor

The QR factorisations are kernels; their answers `Q`, `R` are arguments with the contract `Q·R = A`
(for "tensor unchanged" nothing else is needed, so this part holds over any commutative semiring)
and `QᵀQ = I` (for the gauge clauses: the new core *is* `Q`).
-/
namespace TN.C13
open TN Finset
variable {R : Type} [CommSemiring R]

/-- `Q·R = A` on the rows the core actually uses -/
def QRok (Q Rm : Mat R) (A : Nat → Nat → R) (rows cols : Nat) : Prop :=
  Q.cols = Rm.rows ∧ ∀ row b, row < rows → b < cols → (∑ c ∈ range Q.cols, Q.f row c * Rm.f c b) = A row b

/-- **factor step**: `U = Q_U · R_U`, the factor becomes `Q_U` and `R_U` goes into the core — the mode
    (hence the tensor) is unchanged. -/
theorem factorOrth_toMode (Q Rm : Mat R) (c : Core R) (U : Fac R) (hok : U.cols = c.spatial)
    (h : QRok Q Rm U.f U.rows U.cols) (hq : Q.rows = U.rows) (hr : Rm.cols = U.cols) (i a b : Nat) (hi : i < U.rows) :
    ((TMode.mk c (some U)).factorOrth Q Rm).toMode.G i a b = (TMode.mk c (some U)).toMode.G i a b := by
  simp only [TMode.factorOrth, TMode.toMode_G, TMode.decomp_some, Fac.apply_get, Core.lin_get, Core.lin_spatial]
  have : ∀ j ∈ range c.spatial, U.f i j * c.get a j b = ∑ k ∈ range Q.cols, Q.f i k * (Rm.f k j * c.get a j b) := by
    intro j hj
    rw [← h.2 i j hi (by rw [hok]; exact Finset.mem_range.mp hj), Finset.sum_mul]
    apply Finset.sum_congr rfl; intro k _; ring
  rw [Finset.sum_congr rfl this, Finset.sum_comm, h.1]
  apply Finset.sum_congr rfl; intro k _
  rw [Finset.mul_sum]

/-- **left orthogonalisation step** (pair at the head of any suffix): with `Q·R =` left unfolding of the
    core, replacing the core by `Q` and pushing `R` into the right neighbour leaves every tail — hence
    the tensor — unchanged. -/
theorem leftOrth_tail (Q Rm : Mat R) (r0 s r1 s' r1' : Nat) (f g : Nat → Nat → Nat → R) (rest : List (Mode R))
    (hQR : QRok Q Rm (Core.leftUnf (.tt r0 s r1 f)) (r0 * s) r1) (hRc : Rm.cols = r1)
    (i j : Nat) (is : List Nat) (a : Nat) (ha : a < r0) (hi : i < s) :
    tail ((leftOrthPair Q Rm ⟨.tt r0 s r1 f, Option.none⟩ ⟨.tt r1 s' r1' g, Option.none⟩).1.toMode ::
          (leftOrthPair Q Rm ⟨.tt r0 s r1 f, Option.none⟩ ⟨.tt r1 s' r1' g, Option.none⟩).2.toMode :: rest) (i :: j :: is) a =
    tail ((TMode.mk (.tt r0 s r1 f) Option.none).toMode :: (TMode.mk (.tt r1 s' r1' g) Option.none).toMode :: rest) (i :: j :: is) a := by
  apply tail_bond _ _ _ _ Rm.f rest i j is a
  · rfl
  · intro b hb
    simp only [leftOrthPair, TMode.toMode_G, TMode.decomp_none, Core.tt_get, TMode.toMode_rr, Core.tt_rr] at hb ⊢
    have hrow : a * s + i < r0 * s := by
      calc a * s + i < a * s + s := by omega
        _ = (a + 1) * s := by ring
        _ ≤ r0 * s := Nat.mul_le_mul_right _ ha
    have := hQR.2 (a * s + i) b hrow hb
    simp only [Core.leftUnf] at this
    have hs : 0 < s := by omega
    rw [show (a * s + i) / s = a from by rw [Nat.mul_comm, Nat.mul_add_div hs, Nat.div_eq_of_lt hi]; simp,
        show (a * s + i) % s = i from by rw [Nat.mul_comm, Nat.mul_add_mod, Nat.mod_eq_of_lt hi]] at this
    rw [← this]
  · intro c b _ _
    simp only [leftOrthPair, TMode.toMode_G, TMode.decomp_none, Core.tt_get, TMode.toMode_rr, Core.tt_rr, sumTo_eq, hRc]

/-- **gauge**: after the step the left unfolding of the new core is `Q` itself, so it has orthonormal
    columns exactly when the kernel's `Q` has (`QᵀQ = I`). -/
theorem leftOrth_unfolding (Q Rm : Mat R) (r0 s r1 s' r1' : Nat) (f g : Nat → Nat → Nat → R) (row b : Nat) (hs : 0 < s) :
    Core.leftUnf ((leftOrthPair Q Rm ⟨.tt r0 s r1 f, Option.none⟩ ⟨.tt r1 s' r1' g, Option.none⟩).1.core) row b = Q.f row b := by
  simp only [leftOrthPair, Core.leftUnf]
  rw [Nat.div_add_mod' row s]

/-- **right orthogonalisation step**: with `L·Q =` right unfolding of the core (`Q` the new core, `L`
    pushed into the left neighbour) the tensor is unchanged. -/
theorem rightOrth_tail (Q L : Mat R) (r0' s' r0 s r1 : Nat) (g f : Nat → Nat → Nat → R) (rest : List (Mode R))
    (hLQ : L.cols = Q.rows ∧ ∀ a i b, a < r0 → i < s → b < r1 → (∑ c ∈ range L.cols, L.f a c * Q.f c (i * r1 + b)) = f a i b)
    (hLr : L.rows = r0) (j i : Nat) (is : List Nat) (a : Nat) (hi : i < s) :
    tail ((TMode.mk (.tt r0' s' r0 g) Option.none).toMode :: (TMode.mk (.tt r0 s r1 f) Option.none).toMode :: rest) (j :: i :: is) a =
    tail ((rightOrthPair Q L ⟨.tt r0' s' r0 g, Option.none⟩ ⟨.tt r0 s r1 f, Option.none⟩).1.toMode ::
          (rightOrthPair Q L ⟨.tt r0' s' r0 g, Option.none⟩ ⟨.tt r0 s r1 f, Option.none⟩).2.toMode :: rest) (j :: i :: is) a := by
  apply tail_bond _ _ _ _ L.f rest j i is a
  · rfl
  · intro b _
    simp only [rightOrthPair, TMode.toMode_G, TMode.decomp_none, Core.tt_get, TMode.toMode_rr, Core.tt_rr, sumTo_eq, hLr]
  · intro c b hc hb
    simp only [rightOrthPair, TMode.toMode_G, TMode.decomp_none, Core.tt_get, TMode.toMode_rr, Core.tt_rr] at hc hb ⊢
    exact (hLQ.2 c i b hc hi hb).symm

/-- lifting to any position `mu`: modes in front of the pair are untouched, and a tail only depends on
    the tails of what follows (`tail_cons_congr`), so the equalities above hold for the whole chain -/
theorem lift_to_position (m : Mode R) (ms ms' : List (Mode R)) (is : List Nat) (a : Nat)
    (h : ∀ (js : List Nat) (b : Nat), b < m.rr → tail ms js b = tail ms' js b) :
    tail (m :: ms) is a = tail (m :: ms') is a := tail_cons_congr m ms ms' is a h


/-! ### sweep level: `orthogonalize(N-1)` on a chain of TT cores (semantic chain, QR answers as arguments) -/
section sweep
variable {S : Type} [CommRing S]

/-- **the whole left sweep leaves the represented array unchanged** (any number of modes, sizes, ranks; contract `Q·R = A` only) -/
theorem orthogonalize_dense (ms : List (Mode S)) (qrs : List (QRAns S)) (is : List Nat) (hok : qrOK ms qrs)
    (hin : inShape is (ms.map (·.n))) : dense (leftSweep ms qrs) is = dense ms is :=
  leftSweep_dense ms qrs is hok hin

/-- **gauge**: after the full sweep every core but the last is left-orthonormal (its left unfolding is the kernel's `Q`, `QᵀQ = I`)
    and the bond ranks chain up from the left boundary -/
theorem orthogonalize_gauge (ms : List (Mode S)) (qrs : List (QRAns S)) (hok : qrOK ms qrs) (hl : qrs.length + 1 = ms.length)
    (hp : ∀ m ∈ ms.head?, m.rl = 1) : fwdLO 1 (leftSweep ms qrs).dropLast :=
  leftSweep_fwdLO qrs ms 1 hok hl hp

/-- shape and boundary ranks are preserved; bond `i` becomes the rank of the kernel's `Q` -/
theorem orthogonalize_shape (ms : List (Mode S)) (qrs : List (QRAns S)) :
    (leftSweep ms qrs).map (·.n) = ms.map (·.n) ∧ outRank 1 (leftSweep ms qrs) = outRank 1 ms :=
  ⟨leftSweep_shape qrs ms, leftSweep_outRank qrs ms 1⟩

/-- **the norm is carried by the last core** after the sweep (with right boundary rank 1): combine the gauge with
    `C04.norm_on_last_core` -/
theorem norm_carried_by_last (ms : List (Mode S)) (cur : Mode S) (rest : List (Mode S)) (hlo : chainLO rest) (hrl : cur.rl = topRank rest) :
    boxSum (shapeRev (cur :: rest)) (fun is => ∑ b ∈ range cur.rr, openRev (cur :: rest) is b ^ 2)
      = ∑ i ∈ range cur.n, ∑ b ∈ range cur.rr, ∑ a ∈ range cur.rl, cur.G i a b ^ 2 := by
  have hs0 : shapeRev (cur :: rest) = cur.n :: shapeRev rest := rfl
  rw [hs0, boxSum_cons]
  apply Finset.sum_congr rfl; intro i _
  rw [boxSum_sum]
  apply Finset.sum_congr rfl; intro b _
  have e : (fun is => openRev (cur :: rest) (i :: is) b ^ 2)
      = (fun is => (∑ a ∈ range cur.rl, openRev rest is a * cur.G i a b) * (∑ a ∈ range cur.rl, openRev rest is a * cur.G i a b)) := by
    funext is; simp only [openRev, sq]
  rw [e, hrl, boxSum_orth_pair (shapeRev rest) (topRank rest) (fun is a => openRev rest is a) (LO_iso rest hlo)]
  apply Finset.sum_congr rfl; intro a _; ring

end sweep


/-! ### the general call `Tensor.orthogonalize(mu)` on TT-Tucker tensors (any `mu`, factors on any subset of modes)

`asL` = the answers recorded by the `mu` calls `left_orthogonalize(0 … mu-1)` and `asR` = those of the calls
`right_orthogonalize(N-1 … mu+1)`, both in call order; each answer holds the QR of the Tucker factor (iff the mode has one)
and the QR of the core's unfolding.  `orthfull_okL` / `orthfull_okR` (Lemmas/OrthFull.lean) say that each answer satisfies
`Q·R = A` for the matrix it was computed from (the chain as the earlier steps left it, after `_cp_to_tt`), that a factor QR
was recorded exactly when the mode has a factor, and the dimension bookkeeping of the bond; `orthfull_orthoL/R` add `QᵀQ = I`. -/
section full

/-- **(a) `orthogonalize(mu)` does not change the represented tensor**: for every `mu < N`, any format (CP cores are converted
    first, Tucker factors on any subset of modes), any sizes and ranks, every entry of the decompressed tensor is the same
    before and after, provided every recorded QR answer multiplies back to its input. -/
theorem orthogonalize_mu_dense (t : Tensor R) (mu : Nat) (asL asR : List (OrthAns R)) (is : List Nat)
    (hwf : t.WF) (hmu : mu < t.length) (hlen : asL.length = mu)
    (hL : orthfull_okL asL (cpToTTAll t))
    (hR : orthfull_okR asR.reverse ((orthLeftPart asL (cpToTTAll t)).drop mu))
    (hin : inShape is t.shape) :
    (t.orthFull mu asL asR).dense is = t.dense is := by
  have hsh : (cpToTTAll t).shape = t.shape := cpToTTAll_shape t
  have hl1 : (cpToTTAll t).length = t.length := by simpa [Tensor.shape] using congrArg List.length hsh
  unfold Tensor.orthFull Tensor.dense
  simp only []
  rw [show List.take mu asL = asL from List.take_of_length_le (by omega)]
  rw [orthfull_dense (cpToTTAll t) mu asL asR.reverse is (by omega) hL hR (by rw [hsh]; exact hin)]
  exact dense_cpToTTAll t hwf is

/-- **(b) gauge of the cores**: afterwards every core left of `mu` has an orthonormal left unfolding and every core right of
    `mu` an orthonormal right unfolding (the new cores are the kernels' `Q`s, `QᵀQ = I`). -/
theorem orthogonalize_mu_gauge (t : Tensor R) (mu : Nat) (asL asR : List (OrthAns R))
    (hmu : mu < t.length) (hlen : asL.length = mu) (hlenR : asR.length + mu + 1 = t.length)
    (hL : orthfull_okL asL (cpToTTAll t)) (hoL : ∀ A ∈ asL, orthfull_orthoL A)
    (hR : orthfull_okR asR.reverse ((orthLeftPart asL (cpToTTAll t)).drop mu)) (hoR : ∀ A ∈ asR, orthfull_orthoR A) :
    (∀ x ∈ (t.orthFull mu asL asR).take mu, orthfull_LOcore x.core) ∧
    (∀ x ∈ (t.orthFull mu asL asR).drop (mu + 1), orthfull_ROcore x.core) := by
  have hsh : (cpToTTAll t).shape = t.shape := cpToTTAll_shape t
  have hl1 : (cpToTTAll t).length = t.length := by simpa [Tensor.shape] using congrArg List.length hsh
  have hl2 := orthLeftPart_length asL _ hL
  unfold Tensor.orthFull
  simp only []
  rw [show List.take mu asL = asL from List.take_of_length_le (by omega)]
  have hlt : (List.take mu (orthLeftPart asL (cpToTTAll t))).length = mu := by rw [List.length_take]; omega
  constructor
  · intro x hx
    rw [List.take_left' hlt] at hx
    exact (orthLeftPart_gauge asL _ hL hoL (by omega) x (hlen ▸ hx)).1
  · intro x hx
    rw [← List.drop_drop, List.drop_left' hlt] at hx
    exact (orthRightPart_gauge asR.reverse _ hR (fun A hA => hoR A (by simpa using hA))
      (by simp only [List.length_reverse, List.length_drop]; omega) x (by simpa using hx)).1

/-- **(c) gauge of the Tucker factors**: afterwards the Tucker factor of EVERY mode other than `mu` (every visited mode that
    has one) has orthonormal columns — each visit runs `factor_orthogonalize` first, and the contract demands a recorded factor
    QR for every visited mode that carries a factor. -/
theorem orthogonalize_mu_factors (t : Tensor R) (mu : Nat) (asL asR : List (OrthAns R))
    (hmu : mu < t.length) (hlen : asL.length = mu) (hlenR : asR.length + mu + 1 = t.length)
    (hL : orthfull_okL asL (cpToTTAll t)) (hoL : ∀ A ∈ asL, orthfull_orthoL A)
    (hR : orthfull_okR asR.reverse ((orthLeftPart asL (cpToTTAll t)).drop mu)) (hoR : ∀ A ∈ asR, orthfull_orthoR A) :
    (∀ x ∈ (t.orthFull mu asL asR).take mu, orthfull_facOrtho x) ∧
    (∀ x ∈ (t.orthFull mu asL asR).drop (mu + 1), orthfull_facOrtho x) := by
  have hsh : (cpToTTAll t).shape = t.shape := cpToTTAll_shape t
  have hl1 : (cpToTTAll t).length = t.length := by simpa [Tensor.shape] using congrArg List.length hsh
  have hl2 := orthLeftPart_length asL _ hL
  unfold Tensor.orthFull
  simp only []
  rw [show List.take mu asL = asL from List.take_of_length_le (by omega)]
  have hlt : (List.take mu (orthLeftPart asL (cpToTTAll t))).length = mu := by rw [List.length_take]; omega
  constructor
  · intro x hx
    rw [List.take_left' hlt] at hx
    exact (orthLeftPart_gauge asL _ hL hoL (by omega) x (hlen ▸ hx)).2
  · intro x hx
    rw [← List.drop_drop, List.drop_left' hlt] at hx
    exact (orthRightPart_gauge asR.reverse _ hR (fun A hA => hoR A (by simpa using hA))
      (by simp only [List.length_reverse, List.length_drop]; omega) x (by simpa using hx)).2

/-- the shape is unchanged and no mode is lost -/
theorem orthogonalize_mu_shape (t : Tensor R) (mu : Nat) (asL asR : List (OrthAns R))
    (hmu : mu < t.length) (hlen : asL.length = mu)
    (hL : orthfull_okL asL (cpToTTAll t))
    (hR : orthfull_okR asR.reverse ((orthLeftPart asL (cpToTTAll t)).drop mu)) :
    (t.orthFull mu asL asR).shape = t.shape := by
  have hsh : (cpToTTAll t).shape = t.shape := cpToTTAll_shape t
  unfold Tensor.orthFull
  simp only []
  rw [show List.take mu asL = asL from List.take_of_length_le (by omega)]
  have h2 := orthLeftPart_shape asL _ hL
  have h3 := orthRightPart_shape asR.reverse _ hR
  simp only [Tensor.shape, List.map_append] at h2 h3 hsh ⊢
  rw [h3, ← List.map_append, List.take_append_drop, h2, hsh]

/-- the hypotheses of `orthogonalize_mu_dense/_gauge/_factors/_shape` are satisfiable: 3 modes, `mu = 1`, a `2 × 1` Tucker factor
    on mode 0 (so the left step records a factor QR and a core QR, the right step a core QR only) -/
example : orthfull_exT.WF ∧ 1 < orthfull_exT.length ∧ orthfull_exL.length = 1 ∧ orthfull_exR.length + 1 + 1 = orthfull_exT.length ∧
    inShape [1, 0, 0] orthfull_exT.shape ∧
    orthfull_okL orthfull_exL (cpToTTAll orthfull_exT) ∧ (∀ A ∈ orthfull_exL, orthfull_orthoL A) ∧
    orthfull_okR orthfull_exR.reverse ((orthLeftPart orthfull_exL (cpToTTAll orthfull_exT)).drop 1) ∧
    (∀ A ∈ orthfull_exR, orthfull_orthoR A) := by
  refine ⟨?_, by decide, by decide, by decide, ?_, ?_, ?_, ?_, ?_⟩
  · simp [orthfull_exT, Tensor.WF, Tensor.WFfrom, TMode.ok, Core.rl, Core.rr, Core.spatial]
  · simp [orthfull_exT, Tensor.shape, TMode.n, Core.spatial, inShape]
  · simp [orthfull_exT, orthfull_exL, cpToTTAll, cpToTTAll.go, Core.lift1, Core.liftLast, Core.toTT, orthfull_okL, orthfull_leftOK,
      orthfull_facOK, OrthAns.facStep, TMode.factorOrth, Core.lin, Core.spatial, sumTo]
  · simp [orthfull_exL, orthfull_orthoL, orthfull_QtQ]
  · simp [orthfull_exT, orthfull_exL, orthfull_exR, cpToTTAll, cpToTTAll.go, Core.lift1, Core.liftLast, Core.toTT, orthfull_okR,
      orthfull_rightOK, orthfull_facOK, OrthAns.facStep, TMode.factorOrth, Core.lin, Core.spatial, sumTo, orthLeftPart,
      orthLeftStep, leftOrthPair, orthRightPart]
  · simp [orthfull_exR, orthfull_orthoR, orthfull_QQt]

-- NOT YET PROVED
-- theorem orthogonalize_mu_norm (t : Tensor R) (mu : Nat) (asL asR : List (OrthAns R)) (cmu : TMode R) … (same hypotheses as
--     `orthogonalize_mu_gauge`, `R` a commutative ring, boundary ranks 1) (hc : (t.orthFull mu asL asR)[mu]? = some cmu) :
--     boxSum t.shape (fun is => t.dense is ^ 2)
--       = ∑ i ∈ range cmu.n, ∑ a ∈ range cmu.core.rl, ∑ b ∈ range cmu.core.rr, cmu.toMode.G i a b ^ 2
-- (the squared Frobenius norm equals that of core `mu` contracted with its own factor).  The ingredients are
-- `orthogonalize_mu_dense`, `orthogonalize_mu_gauge`, `orthogonalize_mu_factors` above and the one-sided statement
-- `norm_carried_by_last`; what is missing is the two-sided isometry argument (left-orthonormal prefix AND right-orthonormal
-- suffix, each with orthonormal factors, are isometries of the bond spaces).

end full

end TN.C13
