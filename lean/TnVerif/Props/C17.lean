import TnVerif.Model.Maxvol
import Mathlib.Algebra.Field.Basic
import Mathlib.Algebra.BigOperators.Ring.Finset
import Mathlib.Algebra.BigOperators.Intervals
import Mathlib.Tactic.FieldSimp
import Mathlib.Tactic.Ring
/-!
# C17 — maximum-volume row selection: the swap keeps `C · A[idx] = A`

The LAPACK start is a kernel (contract `LUok`: `C·A[idx] = A`); every swap of the loop preserves that
invariant, for any matrix sizes, over any field, as long as the pivot is non-zero (guaranteed by the
loop guard `|C[i,j]| > tol ≥ 1`).
-/
namespace TN.C17
open TN Finset
variable {K : Type} [Field K] [LinearOrder K] [IsStrictOrderedRing K]

/-- `C · A[idx] = A` : row `l` of `A` is the `C`-combination of the chosen rows -/
def Reconstructs (r : Nat) (s : MVState K) (A : Nat → Nat → K) : Prop :=
  ∀ l c, A l c = ∑ k ∈ range r, s.C k l * A (s.idx k) c

/-- **the swap preserves the reconstruction** -/
theorem swap_reconstructs (r : Nat) (s : MVState K) (A : Nat → Nat → K) (i j : Nat) (hi : i < r)
    (hp : s.C i j ≠ 0) (h : Reconstructs r s A) : Reconstructs r (mvSwap s i j) A := by
  intro l c
  have hi' : i ∈ range r := Finset.mem_range.mpr hi
  -- split off the term k = i on both sides
  rw [← Finset.add_sum_erase _ _ hi']
  have hS := h l c
  have hT := h j c
  rw [← Finset.add_sum_erase _ _ hi'] at hS hT
  have e : ∀ k ∈ (range r).erase i, (mvSwap s i j).C k l * A ((mvSwap s i j).idx k) c =
      s.C k l * A (s.idx k) c - (s.C i l / s.C i j) * (s.C k j * A (s.idx k) c) := by
    intro k hk
    have hne : k ≠ i := (Finset.mem_erase.mp hk).1
    simp only [mvSwap, hne, if_false, sub_zero]
    field_simp
  rw [Finset.sum_congr rfl e, Finset.sum_sub_distrib, ← Finset.mul_sum]
  simp only [mvSwap, if_true]
  have hT' : (∑ k ∈ (range r).erase i, s.C k j * A (s.idx k) c) = A j c - s.C i j * A (s.idx i) c := by
    rw [hT]; ring
  have hS' : (∑ k ∈ (range r).erase i, s.C k l * A (s.idx k) c) = A l c - s.C i l * A (s.idx i) c := by
    rw [hS]; ring
  rw [hT', hS']
  field_simp
  ring

/-- the invariant holds along the whole loop when every pivot it uses is non-zero
    (the guard `tol < |C[i,j]|` with `tol ≥ 0` gives that) -/
theorem loop_reconstructs (r N : Nat) (tol : K) (htol : 0 ≤ tol) (A : Nat → Nat → K) :
    ∀ (fuel : Nat) (s : MVState K) (acc : List (Nat × Nat)), Reconstructs r s A →
      (∀ s' : MVState K, (argmaxAbs s'.C r N).1 < r ∨ r = 0) →
      Reconstructs r (mvLoop r N tol fuel s acc).1 A := by
  intro fuel
  induction fuel with
  | zero => intro s acc h _; exact h
  | succ fuel ih =>
    intro s acc h hidx
    simp only [mvLoop]
    split
    · rename_i hgt
      rcases hidx s with hlt | h0
      · apply ih _ _ _ hidx
        apply swap_reconstructs r s A _ _ hlt _ h
        intro hz
        rw [hz] at hgt
        simp only [absR, lt_irrefl, if_false] at hgt
        exact absurd hgt (not_lt.mpr htol)
      · subst h0
        apply ih _ _ _ hidx
        intro l c; simpa using h l c
    · exact h

end TN.C17
