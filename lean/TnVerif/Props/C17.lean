import TnVerif.Model.Maxvol
import Mathlib.Algebra.Field.Basic
import Mathlib.Algebra.BigOperators.Ring.Finset
import Mathlib.Algebra.BigOperators.Intervals
import Mathlib.Tactic.FieldSimp
import Mathlib.Tactic.Ring
/-!
# C17 — maximum-volume row selection: the swap keeps `C · A[idx] = A`

The LAPACK start is a kernel (contract `LUok`: `C·A[idx] = A`); every swap of the loop preserves that
invariant, for any matrix sizes, over any field, as long as the pivot is non-zero (guaranteed by the
loop guard `|C[i,j]| > tol ≥ 1`).
-/
namespace TN.C17
open TN Finset
variable {K : Type} [Field K] [LinearOrder K] [IsStrictOrderedRing K]

/-- `C · A[idx] = A` : row `l` of `A` is the `C`-combination of the chosen rows -/
def Reconstructs (r : Nat) (s : MVState K) (A : Nat → Nat → K) : Prop :=
  ∀ l c, A l c = ∑ k ∈ range r, s.C k l * A (s.idx k) c

/-- **the swap preserves the reconstruction** -/
theorem swap_reconstructs (r : Nat) (s : MVState K) (A : Nat → Nat → K) (i j : Nat) (hi : i < r)
    (hp : s.C i j ≠ 0) (h : Reconstructs r s A) : Reconstructs r (mvSwap s i j) A := by
  intro l c
  have hi' : i ∈ range r := Finset.mem_range.mpr hi
  -- split off the term k = i on both sides
  rw [← Finset.add_sum_erase _ _ hi']
  have hS := h l c
  have hT := h j c
  rw [← Finset.add_sum_erase _ _ hi'] at hS hT
  have e : ∀ k ∈ (range r).erase i, (mvSwap s i j).C k l * A ((mvSwap s i j).idx k) c =
      s.C k l * A (s.idx k) c - (s.C i l / s.C i j) * (s.C k j * A (s.idx k) c) := by
    intro k hk
    have hne : k ≠ i := (Finset.mem_erase.mp hk).1
    simp only [mvSwap, hne, if_false, sub_zero]
    field_simp
  rw [Finset.sum_congr rfl e, Finset.sum_sub_distrib, ← Finset.mul_sum]
  simp only [mvSwap, if_true]
  have hT' : (∑ k ∈ (range r).erase i, s.C k j * A (s.idx k) c) = A j c - s.C i j * A (s.idx i) c := by
    rw [hT]; ring
  have hS' : (∑ k ∈ (range r).erase i, s.C k l * A (s.idx k) c) = A l c - s.C i l * A (s.idx i) c := by
    rw [hS]; ring
  rw [hT', hS']
  field_simp
  ring

/-- the invariant holds along the whole loop when every pivot it uses is non-zero
    (the guard `tol < |C[i,j]|` with `tol ≥ 0` gives that) -/
theorem loop_reconstructs (r N : Nat) (tol : K) (htol : 0 ≤ tol) (A : Nat → Nat → K) :
    ∀ (fuel : Nat) (s : MVState K) (acc : List (Nat × Nat)), Reconstructs r s A →
      (∀ s' : MVState K, (argmaxAbs s'.C r N).1 < r ∨ r = 0) →
      Reconstructs r (mvLoop r N tol fuel s acc).1 A := by
  intro fuel
  induction fuel with
  | zero => intro s acc h _; exact h
  | succ fuel ih =>
    intro s acc h hidx
    simp only [mvLoop]
    split
    · rename_i hgt
      rcases hidx s with hlt | h0
      · apply ih _ _ _ hidx
        apply swap_reconstructs r s A _ _ hlt _ h
        intro hz
        rw [hz] at hgt
        simp only [absR, lt_irrefl, if_false] at hgt
        exact absurd hgt (not_lt.mpr htol)
      · subst h0
        apply ih _ _ _ hidx
        intro l c; simpa using h l c
    · exact h


/-- `C[idx] = I` : the coefficients of a chosen row are a unit vector -/
def IdOnChosen (r : Nat) (s : MVState K) : Prop :=
  ∀ k, k < r → ∀ k', k' < r → s.C k (s.idx k') = if k = k' then 1 else 0

/-- the chosen rows are pairwise different -/
def Distinct (r : Nat) (s : MVState K) : Prop :=
  ∀ k, k < r → ∀ k', k' < r → k ≠ k' → s.idx k ≠ s.idx k'

/-- **the swap keeps `C[idx] = I`** (pivot non-zero) -/
theorem swap_identity (r : Nat) (s : MVState K) (i j : Nat) (hi : i < r) (hp : s.C i j ≠ 0) (h : IdOnChosen r s) :
    IdOnChosen r (mvSwap s i j) := by
  intro k hk k' hk'
  simp only [mvSwap]
  by_cases hki : k' = i
  · subst hki
    simp only [if_true]
    by_cases hkk : k = k'
    · subst hkk; simp only [if_true]; field_simp; ring
    · simp only [hkk, if_false]; field_simp; ring
  · simp only [hki, if_false]
    rw [h k hk k' hk', h i hi k' hk']
    have : ¬ i = k' := fun e => hki e.symm
    simp [this]

/-- **the swap keeps the chosen rows distinct**: the entering row `j` has a non-zero coefficient in row `i` of `C`, whereas every
    chosen row other than the leaving one has coefficient 0 there -/
theorem swap_distinct (r : Nat) (s : MVState K) (i j : Nat) (hi : i < r) (hp : s.C i j ≠ 0) (h : IdOnChosen r s) (hd : Distinct r s) :
    Distinct r (mvSwap s i j) := by
  have hj : ∀ k', k' < r → k' ≠ i → s.idx k' ≠ j := by
    intro k' hk' hne e
    have := h i hi k' hk'
    rw [e] at this
    have hik : ¬ i = k' := fun e' => hne e'.symm
    simp only [hik, if_false] at this
    exact hp this
  intro k hk k' hk' hne
  simp only [mvSwap]
  by_cases h1 : k = i
  · subst h1
    have : ¬ k' = k := fun e => hne e.symm
    simp only [if_true, this, if_false]
    exact fun e => hj k' hk' this e.symm
  · by_cases h2 : k' = i
    · subst h2; simp only [h1, if_false, if_true]; exact hj k hk h1
    · simp only [h1, h2, if_false]; exact hd k hk k' hk' hne

/-- all three invariants hold along the whole loop -/
theorem loop_invariants (r N : Nat) (tol : K) (htol : 0 ≤ tol) (A : Nat → Nat → K) :
    ∀ (fuel : Nat) (s : MVState K) (acc : List (Nat × Nat)), Reconstructs r s A → IdOnChosen r s → Distinct r s →
      (∀ s' : MVState K, (argmaxAbs s'.C r N).1 < r ∨ r = 0) →
      Reconstructs r (mvLoop r N tol fuel s acc).1 A ∧ IdOnChosen r (mvLoop r N tol fuel s acc).1 ∧ Distinct r (mvLoop r N tol fuel s acc).1 := by
  intro fuel
  induction fuel with
  | zero => intro s acc h1 h2 h3 _; exact ⟨h1, h2, h3⟩
  | succ fuel ih =>
    intro s acc h1 h2 h3 hidx
    simp only [mvLoop]
    split
    · rename_i hgt
      have hp : s.C (argmaxAbs s.C r N).1 (argmaxAbs s.C r N).2 ≠ 0 := by
        intro hz
        rw [hz] at hgt
        simp only [absR, lt_irrefl, if_false] at hgt
        exact absurd hgt (not_lt.mpr htol)
      rcases hidx s with hlt | h0
      · exact ih _ _ (swap_reconstructs r s A _ _ hlt hp h1) (swap_identity r s _ _ hlt hp h2) (swap_distinct r s _ _ hlt hp h2 h3) hidx
      · subst h0
        apply ih _ _ _ _ _ hidx
        · intro l c; simpa using h1 l c
        · intro k hk; omega
        · intro k hk; omega
    · exact ⟨h1, h2, h3⟩

/-- **stopping condition**: when the loop stops before the iteration cap, the entry it looked at — the one `argmax` returned —
    has modulus at most `tol` -/
theorem loop_stops_below_tol (r N : Nat) (tol : K) : ∀ (fuel : Nat) (s : MVState K) (acc : List (Nat × Nat)),
    (mvLoop r N tol fuel s acc).2.length < acc.length + fuel →
    ¬ tol < absR ((mvLoop r N tol fuel s acc).1.C (argmaxAbs (mvLoop r N tol fuel s acc).1.C r N).1 (argmaxAbs (mvLoop r N tol fuel s acc).1.C r N).2) := by
  intro fuel
  induction fuel with
  | zero => intro s acc h; simp [mvLoop] at h
  | succ fuel ih =>
    intro s acc h
    simp only [mvLoop] at h ⊢
    split
    · rename_i hgt
      simp only [hgt, if_true, Prod.mk.eta] at h ⊢
      apply ih
      simp only [List.length_cons]
      omega
    · rename_i hle; exact hle

end TN.C17
