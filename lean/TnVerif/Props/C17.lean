import TnVerif.Model.Maxvol
import TnVerif.Model.RectMaxvol
import TnVerif.Lemmas.RectMaxvol
import Mathlib.Algebra.Order.Field.Rat
import Mathlib.Algebra.Field.Basic
import Mathlib.Algebra.BigOperators.Ring.Finset
import Mathlib.Algebra.BigOperators.Intervals
import Mathlib.Tactic.FieldSimp
import Mathlib.Tactic.Ring
/-!
# C17 — maximum-volume row selection: the swap keeps `C · A[idx] = A`

The LAPACK start is a kernel (contract `LUok`: `C·A[idx] = A`); every swap of the loop preserves that
invariant, for any matrix sizes, over any field, as long as the pivot is non-zero (guaranteed by the
loop guard `|C[i,j]| > tol ≥ 1`).
-/
namespace TN.C17
open TN Finset
variable {K : Type} [Field K] [LinearOrder K] [IsStrictOrderedRing K]

/-- `C · A[idx] = A` : row `l` of `A` is the `C`-combination of the chosen rows -/
def Reconstructs (r : Nat) (s : MVState K) (A : Nat → Nat → K) : Prop :=
  ∀ l c, A l c = ∑ k ∈ range r, s.C k l * A (s.idx k) c

/-- **the swap preserves the reconstruction** -/
theorem swap_reconstructs (r : Nat) (s : MVState K) (A : Nat → Nat → K) (i j : Nat) (hi : i < r)
    (hp : s.C i j ≠ 0) (h : Reconstructs r s A) : Reconstructs r (mvSwap s i j) A := by
  intro l c
  have hi' : i ∈ range r := Finset.mem_range.mpr hi
  -- split off the term k = i on both sides
  rw [← Finset.add_sum_erase _ _ hi']
  have hS := h l c
  have hT := h j c
  rw [← Finset.add_sum_erase _ _ hi'] at hS hT
  have e : ∀ k ∈ (range r).erase i, (mvSwap s i j).C k l * A ((mvSwap s i j).idx k) c =
      s.C k l * A (s.idx k) c - (s.C i l / s.C i j) * (s.C k j * A (s.idx k) c) := by
    intro k hk
    have hne : k ≠ i := (Finset.mem_erase.mp hk).1
    simp only [mvSwap, hne, if_false, sub_zero]
    field_simp
  rw [Finset.sum_congr rfl e, Finset.sum_sub_distrib, ← Finset.mul_sum]
  simp only [mvSwap, if_true]
  have hT' : (∑ k ∈ (range r).erase i, s.C k j * A (s.idx k) c) = A j c - s.C i j * A (s.idx i) c := by
    rw [hT]; ring
  have hS' : (∑ k ∈ (range r).erase i, s.C k l * A (s.idx k) c) = A l c - s.C i l * A (s.idx i) c := by
    rw [hS]; ring
  rw [hT', hS']
  field_simp
  ring

/-- the invariant holds along the whole loop when every pivot it uses is non-zero
    (the guard `tol < |C[i,j]|` with `tol ≥ 0` gives that) -/
theorem loop_reconstructs (r N : Nat) (tol : K) (htol : 0 ≤ tol) (A : Nat → Nat → K) :
    ∀ (fuel : Nat) (s : MVState K) (acc : List (Nat × Nat)), Reconstructs r s A →
      (∀ s' : MVState K, (argmaxAbs s'.C r N).1 < r ∨ r = 0) →
      Reconstructs r (mvLoop r N tol fuel s acc).1 A := by
  intro fuel
  induction fuel with
  | zero => intro s acc h _; exact h
  | succ fuel ih =>
    intro s acc h hidx
    simp only [mvLoop]
    split
    · rename_i hgt
      rcases hidx s with hlt | h0
      · apply ih _ _ _ hidx
        apply swap_reconstructs r s A _ _ hlt _ h
        intro hz
        rw [hz] at hgt
        simp only [absR, lt_irrefl, if_false] at hgt
        exact absurd hgt (not_lt.mpr htol)
      · subst h0
        apply ih _ _ _ hidx
        intro l c; simpa using h l c
    · exact h


/-- `C[idx] = I` : the coefficients of a chosen row are a unit vector -/
def IdOnChosen (r : Nat) (s : MVState K) : Prop :=
  ∀ k, k < r → ∀ k', k' < r → s.C k (s.idx k') = if k = k' then 1 else 0

/-- the chosen rows are pairwise different -/
def Distinct (r : Nat) (s : MVState K) : Prop :=
  ∀ k, k < r → ∀ k', k' < r → k ≠ k' → s.idx k ≠ s.idx k'

/-- **the swap keeps `C[idx] = I`** (pivot non-zero) -/
theorem swap_identity (r : Nat) (s : MVState K) (i j : Nat) (hi : i < r) (hp : s.C i j ≠ 0) (h : IdOnChosen r s) :
    IdOnChosen r (mvSwap s i j) := by
  intro k hk k' hk'
  simp only [mvSwap]
  by_cases hki : k' = i
  · subst hki
    simp only [if_true]
    by_cases hkk : k = k'
    · subst hkk; simp only [if_true]; field_simp; ring
    · simp only [hkk, if_false]; field_simp; ring
  · simp only [hki, if_false]
    rw [h k hk k' hk', h i hi k' hk']
    have : ¬ i = k' := fun e => hki e.symm
    simp [this]

/-- **the swap keeps the chosen rows distinct**: the entering row `j` has a non-zero coefficient in row `i` of `C`, whereas every
    chosen row other than the leaving one has coefficient 0 there -/
theorem swap_distinct (r : Nat) (s : MVState K) (i j : Nat) (hi : i < r) (hp : s.C i j ≠ 0) (h : IdOnChosen r s) (hd : Distinct r s) :
    Distinct r (mvSwap s i j) := by
  have hj : ∀ k', k' < r → k' ≠ i → s.idx k' ≠ j := by
    intro k' hk' hne e
    have := h i hi k' hk'
    rw [e] at this
    have hik : ¬ i = k' := fun e' => hne e'.symm
    simp only [hik, if_false] at this
    exact hp this
  intro k hk k' hk' hne
  simp only [mvSwap]
  by_cases h1 : k = i
  · subst h1
    have : ¬ k' = k := fun e => hne e.symm
    simp only [if_true, this, if_false]
    exact fun e => hj k' hk' this e.symm
  · by_cases h2 : k' = i
    · subst h2; simp only [h1, if_false, if_true]; exact hj k hk h1
    · simp only [h1, h2, if_false]; exact hd k hk k' hk' hne

/-- all three invariants hold along the whole loop -/
theorem loop_invariants (r N : Nat) (tol : K) (htol : 0 ≤ tol) (A : Nat → Nat → K) :
    ∀ (fuel : Nat) (s : MVState K) (acc : List (Nat × Nat)), Reconstructs r s A → IdOnChosen r s → Distinct r s →
      (∀ s' : MVState K, (argmaxAbs s'.C r N).1 < r ∨ r = 0) →
      Reconstructs r (mvLoop r N tol fuel s acc).1 A ∧ IdOnChosen r (mvLoop r N tol fuel s acc).1 ∧ Distinct r (mvLoop r N tol fuel s acc).1 := by
  intro fuel
  induction fuel with
  | zero => intro s acc h1 h2 h3 _; exact ⟨h1, h2, h3⟩
  | succ fuel ih =>
    intro s acc h1 h2 h3 hidx
    simp only [mvLoop]
    split
    · rename_i hgt
      have hp : s.C (argmaxAbs s.C r N).1 (argmaxAbs s.C r N).2 ≠ 0 := by
        intro hz
        rw [hz] at hgt
        simp only [absR, lt_irrefl, if_false] at hgt
        exact absurd hgt (not_lt.mpr htol)
      rcases hidx s with hlt | h0
      · exact ih _ _ (swap_reconstructs r s A _ _ hlt hp h1) (swap_identity r s _ _ hlt hp h2) (swap_distinct r s _ _ hlt hp h2 h3) hidx
      · subst h0
        apply ih _ _ _ _ _ hidx
        · intro l c; simpa using h1 l c
        · intro k hk; omega
        · intro k hk; omega
    · exact ⟨h1, h2, h3⟩

/-- **stopping condition**: when the loop stops before the iteration cap, the entry it looked at — the one `argmax` returned —
    has modulus at most `tol` -/
theorem loop_stops_below_tol (r N : Nat) (tol : K) : ∀ (fuel : Nat) (s : MVState K) (acc : List (Nat × Nat)),
    (mvLoop r N tol fuel s acc).2.length < acc.length + fuel →
    ¬ tol < absR ((mvLoop r N tol fuel s acc).1.C (argmaxAbs (mvLoop r N tol fuel s acc).1.C r N).1 (argmaxAbs (mvLoop r N tol fuel s acc).1.C r N).2) := by
  intro fuel
  induction fuel with
  | zero => intro s acc h; simp [mvLoop] at h
  | succ fuel ih =>
    intro s acc h
    simp only [mvLoop] at h ⊢
    split
    · rename_i hgt
      simp only [hgt, if_true, Prod.mk.eta] at h ⊢
      apply ih
      simp only [List.length_cons]
      omega
    · rename_i hle; exact hle


/-! ## The rectangular routine `py_rect_maxvol` (maxvol.py:30-112)

The answer `(tmp_index, C)` of the inner `py_maxvol` call is the initial state (contract: `C·A[tmp_index] = A`,
the indices are distinct candidate rows).  All statements are for any sizes, over any ordered field (exact arithmetic). -/

/-- `C · A[index[:K]] = A` for a state of the rectangular routine: row `l` of `A` is the combination of the `K` chosen
    rows with the coefficients in row `l` of `C` -/
def RectReconstructs (s : RMVState K) (A : Nat → Nat → K) : Prop :=
  ∀ l c, A l c = ∑ k ∈ range s.K, s.C.get l k * A (s.index.get k) c

omit [IsStrictOrderedRing K] in
/-- **one augmentation keeps `C · A[index[:K]] = A`** (the "SVM formula" step): with row `i` appended and
    `C' = [C − l·v⊗c , l·v]` one has `C'·[A_idx; A_i] = A`, because `A_i = c·A_idx` is row `i` of the identity before the step.
    No condition on `l`, `v` or on the row `i` that enters. -/
theorem rect_step_reconstructs (N top : Nat) (s : RMVState K) (A : Nat → Nat → K) (h : RectReconstructs s A) :
    RectReconstructs (rectmvStep N top s) A := by
  intro l c
  rw [rectmvStep_K, Finset.sum_range_succ]
  have e : ∀ k ∈ range s.K, (rectmvStep N top s).C.get l k * A ((rectmvStep N top s).index.get k) c =
      (s.C.get l k + (-rectmvLam s) * rectmvV s l * s.C.get s.i k) * A (s.index.get k) c := by
    intro k hk
    have hk' := Finset.mem_range.mp hk
    have hne : k ≠ s.K := by omega
    rw [rectmvStep_C, rectmvStep_index]
    simp only [hk', if_true, hne, if_false]
  rw [Finset.sum_congr rfl e, rectmvStep_C, rectmvStep_index]
  simp only [lt_irrefl, if_false, if_true]
  exact (rectmv_recon_update s.K (fun k => s.C.get l k) (fun k => s.C.get s.i k) (fun k => A (s.index.get k) c)
    (rectmvLam s) (rectmvV s l) (A l c) (A s.i c) (h l c) (h s.i c)).symm

omit [IsStrictOrderedRing K] in
/-- **(a) `rect_reconstructs`: the reconstruction `C · A[index[:K]] = A` holds along the whole augmentation loop** of
    `py_rect_maxvol`, whatever the parameters, once it holds for the start (the contract of `py_maxvol`) -/
theorem rect_reconstructs (N top maxK minK : Nat) (tol2 : K) (A : Nat → Nat → K) :
    ∀ (fuel : Nat) (s : RMVState K), RectReconstructs s A →
      RectReconstructs (rectmvLoop N top maxK minK tol2 fuel s) A := by
  intro fuel
  induction fuel with
  | zero => intro s h; exact h
  | succ fuel ih =>
    intro s h
    simp only [rectmvLoop]
    split
    · exact ih _ (rect_step_reconstructs N top s A h)
    · exact h

/-- the bookkeeping invariants of the loop, for `top` candidate rows (`top_k_index` after the clamps) -/
structure RectInv (top : Nat) (s : RMVState K) : Prop where
  /-- `chosen` holds zeros and ones -/
  chosen01 : ∀ l, l < top → s.chosen.get l = 0 ∨ s.chosen.get l = 1
  /-- the chosen rows are candidate rows … -/
  idx_lt : ∀ k, k < s.K → s.index.get k < top
  /-- … marked as chosen -/
  idx_chosen : ∀ k, k < s.K → s.chosen.get (s.index.get k) = 0
  /-- and only they are marked -/
  chosen_idx : ∀ l, l < top → s.chosen.get l = 0 → ∃ k, k < s.K ∧ s.index.get k = l
  /-- the chosen rows are pairwise distinct -/
  distinct : ∀ k, k < s.K → ∀ k', k' < s.K → k ≠ k' → s.index.get k ≠ s.index.get k'
  /-- `row_norm_sqr[l] = chosen[l] · ‖C[l]‖²` -/
  norms : ∀ l, l < top → s.rns.get l = s.chosen.get l * ∑ k ∈ range s.K, s.C.get l k * s.C.get l k
  /-- `i` is the current `argmax` -/
  arg : s.i = rectmvArgmax top s.chosen s.rns

/-- a row that is not chosen yet exists as long as fewer than `top` rows are chosen (pigeonhole) -/
theorem rect_exists_unchosen (top : Nat) (s : RMVState K) (h : RectInv top s) (hK : s.K < top) :
    ∃ l, l < top ∧ 0 < s.chosen.get l := by
  by_contra hno
  have hall : ∀ l, l < top → s.chosen.get l = 0 := by
    intro l hl
    rcases h.chosen01 l hl with h0 | h1
    · exact h0
    · exact absurd ⟨l, hl, by rw [h1]; exact one_pos⟩ hno
  have hsub : range top ⊆ (range s.K).image s.index.get := by
    intro l hl
    obtain ⟨k, hk, e⟩ := h.chosen_idx l (Finset.mem_range.mp hl) (hall l (Finset.mem_range.mp hl))
    exact Finset.mem_image.mpr ⟨k, Finset.mem_range.mpr hk, e⟩
  have h1 := Finset.card_le_card hsub
  have h2 := Finset.card_image_le (s := range s.K) (f := s.index.get)
  simp only [Finset.card_range] at h1 h2
  omega

/-- when the guard of the loop lets row `i` enter, `i` is a candidate row that is not chosen yet — provided
    `minK ≤ top_k_index` (always true with the default `top_k_index = -1`) -/
theorem rect_guard_unchosen (top maxK minK : Nat) (tol2 : K) (htol : 0 ≤ tol2) (htop : 0 < top) (hmin : minK ≤ top)
    (s : RMVState K) (h : RectInv top s) (hg : rectmvGuard maxK minK tol2 s = true) :
    s.i < top ∧ s.chosen.get s.i = 1 := by
  have hi : s.i < top := by rw [h.arg]; exact rectmvArgmax_lt top _ _ htop
  refine ⟨hi, ?_⟩
  simp only [rectmvGuard, Bool.or_eq_true, Bool.and_eq_true, decide_eq_true_eq] at hg
  rcases hg with ⟨hlt, _⟩ | hlt
  · rcases h.chosen01 s.i hi with h0 | h1
    · rw [h.norms s.i hi, h0, zero_mul] at hlt
      exact absurd hlt (not_lt.mpr htol)
    · exact h1
  · obtain ⟨l, hl, hc⟩ := rect_exists_unchosen top s h (by omega)
    have hsp := (rectmvArgmax_spec top s.chosen s.rns l hl hc).1
    rw [← h.arg] at hsp
    rcases h.chosen01 s.i hi with h0 | h1
    · rw [h0] at hsp; exact absurd hsp (lt_irrefl _)
    · exact h1

/-- the row-norm bookkeeping of one augmentation: `‖C'[l]‖² = ‖C[l]‖² − l·v[l]²` (needs `1 + ‖c‖² ≠ 0`: ordered field) -/
theorem rect_step_norm (N top : Nat) (s : RMVState K) (l : Nat) :
    (∑ k ∈ range (s.K + 1), (rectmvStep N top s).C.get l k * (rectmvStep N top s).C.get l k) =
      (∑ k ∈ range s.K, s.C.get l k * s.C.get l k) + -(rectmvLam s * rectmvV s l * rectmvV s l) := by
  rw [Finset.sum_range_succ]
  have e : ∀ k ∈ range s.K, (rectmvStep N top s).C.get l k * (rectmvStep N top s).C.get l k =
      (s.C.get l k + (-rectmvLam s) * rectmvV s l * s.C.get s.i k) * (s.C.get l k + (-rectmvLam s) * rectmvV s l * s.C.get s.i k) := by
    intro k hk
    have hk' := Finset.mem_range.mp hk
    rw [rectmvStep_C]
    simp only [hk', if_true]
  rw [Finset.sum_congr rfl e, rectmvStep_C]
  simp only [lt_irrefl, if_false]
  exact rectmv_norm_update s.K (fun k => s.C.get l k) (fun k => s.C.get s.i k) (rectmvLam s) (rectmvV s l) (rectmvV s s.i)
    rfl rfl rfl

/-- **one augmentation keeps the bookkeeping invariants** when the entering row is an unchosen candidate -/
theorem rect_step_inv (N top : Nat) (s : RMVState K) (h : RectInv top s) (hi : s.i < top) (hc : s.chosen.get s.i = 1) :
    RectInv top (rectmvStep N top s) := by
  have hnew : ∀ k, k < s.K → s.index.get k ≠ s.i := by
    intro k hk e
    have := h.idx_chosen k hk
    rw [e, hc] at this
    exact one_ne_zero this
  constructor
  · intro l hl
    rw [rectmvStep_chosen]
    by_cases e : l = s.i
    · simp [e]
    · simp only [e, if_false]; exact h.chosen01 l hl
  · intro k hk
    rw [rectmvStep_K] at hk
    rw [rectmvStep_index]
    by_cases e : k = s.K
    · simp only [e, if_true]; exact hi
    · simp only [e, if_false]; exact h.idx_lt k (by omega)
  · intro k hk
    rw [rectmvStep_K] at hk
    rw [rectmvStep_index, rectmvStep_chosen]
    by_cases e : k = s.K
    · simp [e]
    · simp only [e, if_false, hnew k (by omega)]; exact h.idx_chosen k (by omega)
  · intro l hl hz
    rw [rectmvStep_chosen] at hz
    by_cases e : l = s.i
    · refine ⟨s.K, by simp, ?_⟩
      rw [rectmvStep_index]; simp [e]
    · simp only [e, if_false] at hz
      obtain ⟨k, hk, hk2⟩ := h.chosen_idx l hl hz
      refine ⟨k, by rw [rectmvStep_K]; omega, ?_⟩
      rw [rectmvStep_index]
      have : k ≠ s.K := by omega
      simp only [this, if_false]; exact hk2
  · intro k hk k' hk' hne
    rw [rectmvStep_K] at hk hk'
    rw [rectmvStep_index, rectmvStep_index]
    by_cases e : k = s.K
    · have e' : k' ≠ s.K := by omega
      simp only [e, if_true, e', if_false]
      exact fun q => hnew k' (by omega) q.symm
    · by_cases e' : k' = s.K
      · simp only [e, if_false, e', if_true]; exact hnew k (by omega)
      · simp only [e, e', if_false]; exact h.distinct k (by omega) k' (by omega) hne
  · intro l hl
    rw [rectmvStep_rns, rectmvStep_chosen, rectmvStep_K, rect_step_norm]
    by_cases e : l = s.i
    · simp [e]
    · simp only [e, if_false]
      rcases h.chosen01 l hl with h0 | h1
      · rw [h0]; ring
      · rw [h.norms l hl, h1]; ring
  · exact rectmvStep_i N top s

/-- **(b) the bookkeeping invariants hold along the whole loop**, in particular the chosen rows stay pairwise
    distinct and `row_norm_sqr` stays the squared row norms of `C` on the unchosen rows — under `minK ≤ top_k_index`
    (both after the clamps; automatically true for the default `top_k_index = -1`) and `tol2 = tol² ≥ 0` -/
theorem rect_loop_inv (N top maxK minK : Nat) (tol2 : K) (htol : 0 ≤ tol2) (htop : 0 < top) (hmin : minK ≤ top) :
    ∀ (fuel : Nat) (s : RMVState K), RectInv top s → RectInv top (rectmvLoop N top maxK minK tol2 fuel s) := by
  intro fuel
  induction fuel with
  | zero => intro s h; exact h
  | succ fuel ih =>
    intro s h
    simp only [rectmvLoop]
    split
    · rename_i hg
      obtain ⟨hi, hc⟩ := rect_guard_unchosen top maxK minK tol2 htol htop hmin s h hg
      exact ih _ (rect_step_inv N top s h hi hc)
    · exact h

/-- **(b) `rect_distinct`: the rows chosen by the loop are pairwise distinct candidate rows** (under `minK ≤ top_k_index`,
    see `rect_exhausted_repeats` for what happens otherwise) -/
theorem rect_distinct (N top maxK minK : Nat) (tol2 : K) (htol : 0 ≤ tol2) (htop : 0 < top) (hmin : minK ≤ top)
    (fuel : Nat) (s : RMVState K) (h : RectInv top s) :
    (∀ k, k < (rectmvLoop N top maxK minK tol2 fuel s).K → ∀ k', k' < (rectmvLoop N top maxK minK tol2 fuel s).K → k ≠ k' →
      (rectmvLoop N top maxK minK tol2 fuel s).index.get k ≠ (rectmvLoop N top maxK minK tol2 fuel s).index.get k') ∧
    (∀ k, k < (rectmvLoop N top maxK minK tol2 fuel s).K → (rectmvLoop N top maxK minK tol2 fuel s).index.get k < top) :=
  ⟨(rect_loop_inv N top maxK minK tol2 htol htop hmin fuel s h).distinct,
   (rect_loop_inv N top maxK minK tol2 htol htop hmin fuel s h).idx_lt⟩

omit [IsStrictOrderedRing K] in
/-- **the side condition `minK ≤ top_k_index` of the distinctness cannot be dropped**: once all `top_k_index` candidate
    rows are chosen (`K = top_k_index`), every `chosen` entry is 0, `argmax` of the all-`-inf` vector answers 0, and if the
    loop goes on (it does while `K < minK`) row 0 — already chosen — enters a second time.  This happens in the library for
    a call such as `py_rect_maxvol(A, minK=r+1, top_k_index=r)`. -/
theorem rect_exhausted_repeats (N top : Nat) (s : RMVState K) (h : RectInv top s) (htop : 0 < top) (hK : s.K = top) :
    s.i = 0 ∧ ∃ k, k < s.K ∧ (rectmvStep N top s).index.get k = (rectmvStep N top s).index.get s.K := by
  -- the K distinct chosen rows fill the candidate range
  have himg : (range s.K).image s.index.get = range top := by
    apply Finset.eq_of_subset_of_card_le
    · intro x hx
      obtain ⟨k, hk, e⟩ := Finset.mem_image.mp hx
      rw [← e]; exact Finset.mem_range.mpr (h.idx_lt k (Finset.mem_range.mp hk))
    · rw [Finset.card_image_of_injOn, Finset.card_range, Finset.card_range, hK]
      intro a ha b hb e
      by_contra hne
      exact h.distinct a (Finset.mem_range.mp (Finset.mem_coe.mp ha)) b (Finset.mem_range.mp (Finset.mem_coe.mp hb)) hne e
  have hall : ∀ l, l < top → s.chosen.get l = 0 := by
    intro l hl
    have : l ∈ (range s.K).image s.index.get := by rw [himg]; exact Finset.mem_range.mpr hl
    obtain ⟨k, hk, e⟩ := Finset.mem_image.mp this
    rw [← e]; exact h.idx_chosen k (Finset.mem_range.mp hk)
  have hi : s.i = 0 := by
    rw [h.arg, rectmvArgmax]
    apply rectmvArgmaxTo_none
    intro l hl
    simp [rectmvMasked, hall l hl]
  refine ⟨hi, ?_⟩
  obtain ⟨k, hk, e⟩ := h.chosen_idx 0 htop (hall 0 htop)
  refine ⟨k, hk, ?_⟩
  have hne : k ≠ s.K := by omega
  rw [rectmvStep_index, rectmvStep_index]
  simp only [hne, if_false, if_true, hi]; exact e

omit [IsStrictOrderedRing K] in
/-- `K` never decreases along the loop -/
theorem rect_loop_K_ge (N top maxK minK : Nat) (tol2 : K) :
    ∀ (fuel : Nat) (s : RMVState K), s.K ≤ (rectmvLoop N top maxK minK tol2 fuel s).K := by
  intro fuel
  induction fuel with
  | zero => intro s; exact Nat.le_refl _
  | succ fuel ih =>
    intro s
    simp only [rectmvLoop]
    split
    · have := ih (rectmvStep N top s); rw [rectmvStep_K] at this; omega
    · exact Nat.le_refl _

omit [IsStrictOrderedRing K] in
/-- `K` never exceeds `maxK` (every pass of the loop has `K < maxK`, because `minK ≤ maxK` after the clamps) -/
theorem rect_loop_K_le (N top maxK minK : Nat) (tol2 : K) (hmm : minK ≤ maxK) :
    ∀ (fuel : Nat) (s : RMVState K), s.K ≤ maxK → (rectmvLoop N top maxK minK tol2 fuel s).K ≤ maxK := by
  intro fuel
  induction fuel with
  | zero => intro s h; exact h
  | succ fuel ih =>
    intro s h
    simp only [rectmvLoop]
    split
    · rename_i hg
      simp only [rectmvGuard, Bool.or_eq_true, Bool.and_eq_true, decide_eq_true_eq] at hg
      apply ih; rw [rectmvStep_K]; omega
    · exact h

omit [IsStrictOrderedRing K] in
/-- **the fuel `maxK − K` is enough**: the state the model returns is one where the `while` condition of the code is
    false, i.e. the model's loop is the code's loop -/
theorem rect_loop_exit (N top maxK minK : Nat) (tol2 : K) (hmm : minK ≤ maxK) :
    ∀ (fuel : Nat) (s : RMVState K), maxK - s.K ≤ fuel →
      rectmvGuard maxK minK tol2 (rectmvLoop N top maxK minK tol2 fuel s) = false := by
  intro fuel
  induction fuel with
  | zero =>
    intro s h
    have h1 : ¬ s.K < maxK := by omega
    have h2 : ¬ s.K < minK := by omega
    simp [rectmvLoop, rectmvGuard, h1, h2]
  | succ fuel ih =>
    intro s h
    simp only [rectmvLoop]
    split
    · rename_i hg
      simp only [rectmvGuard, Bool.or_eq_true, Bool.and_eq_true, decide_eq_true_eq] at hg
      apply ih; rw [rectmvStep_K]; omega
    · rename_i hg; simpa using hg

/-- **(c) `rect_row_norms`: in a state where the loop has stopped with `K < maxK`, every candidate row that is not chosen
    has squared 2-norm at most `tol2 = tol²`** ("2-norm at most the tolerance unless maxK was reached").
    Candidate rows are the rows `l < top_k_index`; rows beyond `top_k_index` are never looked at. -/
theorem rect_row_norms (top maxK minK : Nat) (tol2 : K) (s : RMVState K) (h : RectInv top s)
    (hstop : rectmvGuard maxK minK tol2 s = false) (hK : s.K < maxK)
    (l : Nat) (hl : l < top) (hun : ∀ k, k < s.K → s.index.get k ≠ l) :
    ∑ k ∈ range s.K, s.C.get l k * s.C.get l k ≤ tol2 := by
  have hc : s.chosen.get l = 1 := by
    rcases h.chosen01 l hl with h0 | h1
    · obtain ⟨k, hk, e⟩ := h.chosen_idx l hl h0
      exact absurd e (hun k hk)
    · exact h1
  have hsp := (rectmvArgmax_spec top s.chosen s.rns l hl (by rw [hc]; exact one_pos)).2
  rw [← h.arg, h.norms l hl, hc, one_mul] at hsp
  simp only [rectmvGuard, Bool.or_eq_false_iff, Bool.and_eq_false_iff, decide_eq_false_iff_not] at hstop
  rcases hstop.1 with h1 | h1
  · exact le_trans hsp (not_lt.mp h1)
  · exact absurd hK h1

/-! ### the state before the loop -/

omit [IsStrictOrderedRing K] in
/-- the contract of the inner `py_maxvol` call (`C₀·A[tmp_index] = A`, existing predicate `Reconstructs` on its final state)
    is the reconstruction identity of the state before the loop -/
theorem rect_init_reconstructs (N r top : Nat) (st : MVState K) (A : Nat → Nat → K) (h : Reconstructs r st A) :
    RectReconstructs (rectmvInit N r top st.idx (fun l k => st.C k l)) A := by
  intro l c
  rw [rectmvInit_K, h l c]
  apply Finset.sum_congr rfl
  intro k hk
  rw [rectmvInit_C, rectmvInit_index]
  simp [Finset.mem_range.mp hk]

/-- the bookkeeping invariants hold before the loop when `py_maxvol` returned distinct candidate rows -/
theorem rect_init_inv (N r top : Nat) (tmp : Nat → Nat) (C0 : Nat → Nat → K)
    (hlt : ∀ k, k < r → tmp k < top) (hd : ∀ k, k < r → ∀ k', k' < r → k ≠ k' → tmp k ≠ tmp k') :
    RectInv top (rectmvInit N r top tmp C0) := by
  constructor
  · intro l _
    rw [rectmvInit_chosen]
    by_cases e : ∃ k, k < r ∧ tmp k = l
    · simp [e]
    · simp [e]
  · intro k hk
    rw [rectmvInit_K] at hk
    rw [rectmvInit_index]; simp only [hk, if_true]; exact hlt k hk
  · intro k hk
    rw [rectmvInit_K] at hk
    rw [rectmvInit_index, rectmvInit_chosen]; simp only [hk, if_true]
    have : ∃ k', k' < r ∧ tmp k' = tmp k := ⟨k, hk, rfl⟩
    simp [this]
  · intro l _ hz
    rw [rectmvInit_chosen] at hz
    by_cases e : ∃ k, k < r ∧ tmp k = l
    · obtain ⟨k, hk, hk2⟩ := e
      refine ⟨k, hk, ?_⟩
      rw [rectmvInit_index]; simp only [hk, if_true]; exact hk2
    · simp [e] at hz
  · intro k hk k' hk' hne
    rw [rectmvInit_K] at hk hk'
    rw [rectmvInit_index, rectmvInit_index]; simp only [hk, hk', if_true]
    exact hd k hk k' hk' hne
  · intro l _
    rw [rectmvInit_rns, rectmvInit_K]
    apply congrArg
    apply Finset.sum_congr rfl
    intro k _
    rw [rectmvInit_C]
  · rfl

/-! ### the final assignment `C[index[:K]] = eye(K)` -/

/-- **(d) before the final assignment the chosen rows of `C` are NOT unit vectors**: the row that has just entered is
    `(l·c , 1 − l)` with `l = 1/(1+‖c‖²) < 1` unless `c = 0` (and an earlier chosen row `e_k` becomes `(e_k − l·c_k·c , l·c_k)`).
    `C` is the minimum-norm coefficient matrix; the identity block is only produced by the assignment
    `C[index[:K]] = eye(K)` (`identity_submatrix=True`), which `rect_setRows_reconstructs` shows to be harmless. -/
theorem rect_step_entering_row (N top : Nat) (s : RMVState K) (k : Nat) :
    (rectmvStep N top s).C.get s.i k = if k < s.K then rectmvLam s * s.C.get s.i k else 1 - rectmvLam s := by
  have h := rectmvLam_mul s
  rw [rectmvStep_C]
  split
  · linear_combination (-(s.C.get s.i k)) * h
  · linear_combination h

omit [LinearOrder K] [IsStrictOrderedRing K] in
/-- **(d) the final assignment keeps `C · A[index[:K]] = A`** — with or without repeated rows: the rows it writes are unit
    vectors that reproduce their own row of `A` -/
theorem rect_setRows_reconstructs (m : Nat) (index : Nat → Nat) (C : Nat → Nat → K) (A : Nat → Nat → K)
    (h : ∀ l c, A l c = ∑ k ∈ range m, C l k * A (index k) c) :
    ∀ l c, A l c = ∑ k ∈ range m, rectmvSetRows index C m l k * A (index k) c := by
  intro l c
  rcases rectmvSetRows_row index C l m with ⟨k, hk, hk2, hk3⟩ | hr
  · have e : ∀ k' ∈ range m, rectmvSetRows index C m l k' * A (index k') c = if k = k' then A (index k') c else 0 := by
      intro k' _; rw [hk3 k']; split <;> simp
    rw [Finset.sum_congr rfl e, Finset.sum_ite_eq (range m) k]
    simp [hk, hk2]
  · rw [h l c]
    apply Finset.sum_congr rfl
    intro k _; rw [hr k]

omit [LinearOrder K] [IsStrictOrderedRing K] in
/-- **(d) `rect_identity_rows`: after the final assignment `C[index[:K]] = eye(K)` the chosen rows of `C` form the identity
    (chosen rows distinct) and `C · A[index[:K]] = A` still holds** -/
theorem rect_identity_rows (s : RMVState K) (A : Nat → Nat → K) (hrec : RectReconstructs s A)
    (hd : ∀ k, k < s.K → ∀ k', k' < s.K → k ≠ k' → s.index.get k ≠ s.index.get k') :
    (∀ k, k < s.K → ∀ k', rectmvSetRows s.index.get s.C.get s.K (s.index.get k) k' = if k = k' then 1 else 0) ∧
    (∀ l c, A l c = ∑ k ∈ range s.K, rectmvSetRows s.index.get s.C.get s.K l k * A (s.index.get k) c) :=
  ⟨fun k hk k' => rectmvSetRows_chosen s.index.get s.C.get s.K hd k hk k',
   rect_setRows_reconstructs s.K s.index.get s.C.get A hrec⟩

/-! ### the whole routine -/

/-- **`py_rect_maxvol` on a tall matrix (`N > r`)**, given the answer `st` of the inner `py_maxvol` call with its contract
    (`C₀·A[idx₀] = A`, the `r` indices distinct and among the `top_k_index` candidate rows).  With `p` the parameters after
    the clamps the routine returns `K` rows with

    * `r ≤ minK ≤ K ≤ maxK ≤ N`  (between `r` and `maxK` rows);
    * `C · A[index] = A` for the returned `N × K` matrix `C` — with `identity_submatrix` on or off, whatever the parameters;

    and, when `minK ≤ top_k_index` (both after the clamps; always the case for the default `top_k_index = -1`, see
    `rect_maxvol_spec_default`):

    * the returned rows are pairwise distinct candidate rows;
    * with `identity_submatrix` the chosen rows of `C` form the identity;
    * if `K < maxK`, every candidate row that was not chosen has squared 2-norm at most `tol²` in `C`. -/
theorem rect_maxvol_spec (N r : Nat) (tol : K) (maxK minAddK minK : Option Int) (ident : Bool) (topK : Int)
    (st : MVState K) (A : Nat → Nat → K) (hN : r < N)
    (htop : 0 < (rectmvParams N r maxK minAddK minK topK).top)
    (hrec : Reconstructs r st A) (hdist : Distinct r st)
    (hlt : ∀ k, k < r → st.idx k < (rectmvParams N r maxK minAddK minK topK).top) :
    ∃ res, pyRectMaxvol N r tol maxK minAddK minK ident topK st.idx (fun l k => st.C k l) = some res ∧
      r ≤ res.K ∧ (rectmvParams N r maxK minAddK minK topK).minK ≤ res.K ∧
      res.K ≤ (rectmvParams N r maxK minAddK minK topK).maxK ∧ res.K ≤ N ∧ res.index.length = res.K ∧
      (∀ l c, A l c = ∑ k ∈ range res.K, res.C.get l k * A (res.index.getD k 0) c) ∧
      ((rectmvParams N r maxK minAddK minK topK).minK ≤ (rectmvParams N r maxK minAddK minK topK).top →
        res.index.Nodup ∧ (∀ x ∈ res.index, x < (rectmvParams N r maxK minAddK minK topK).top) ∧
        (ident = true → ∀ k, k < res.K → ∀ k', res.C.get (res.index.getD k 0) k' = if k = k' then 1 else 0) ∧
        (res.K < (rectmvParams N r maxK minAddK minK topK).maxK → ∀ l, l < (rectmvParams N r maxK minAddK minK topK).top →
          l ∉ res.index → ∑ k ∈ range res.K, res.C.get l k * res.C.get l k ≤ tol * tol)) := by
  obtain ⟨hb1, hb2, hb3, _, _⟩ := rectmvParams_bounds N r maxK minAddK minK topK hN
  rw [pyRectMaxvol_tall N r tol maxK minAddK minK ident topK st.idx _ hN htop]
  generalize rectmvParams N r maxK minAddK minK topK = p at *
  -- the state after the loop
  have hs0 : RectReconstructs (rectmvInit N r p.top st.idx (fun l k => st.C k l)) A :=
    rect_init_reconstructs N r p.top st A hrec
  generalize hs : rectmvLoop N p.top p.maxK p.minK (tol * tol) (p.maxK - r)
    (rectmvInit N r p.top st.idx (fun l k => st.C k l)) = s at *
  have hsrec : RectReconstructs s A := by
    rw [← hs]; exact rect_reconstructs N p.top p.maxK p.minK (tol * tol) A _ _ hs0
  have hKge : r ≤ s.K := by
    rw [← hs]; exact rect_loop_K_ge N p.top p.maxK p.minK (tol * tol) _ (rectmvInit N r p.top st.idx (fun l k => st.C k l))
  have hKle : s.K ≤ p.maxK := by
    rw [← hs]; exact rect_loop_K_le N p.top p.maxK p.minK (tol * tol) hb2 _ _ (by rw [rectmvInit_K]; omega)
  have hstop : rectmvGuard p.maxK p.minK (tol * tol) s = false := by
    rw [← hs]; exact rect_loop_exit N p.top p.maxK p.minK (tol * tol) hb2 _ _ (by rw [rectmvInit_K])
  have hKmin : p.minK ≤ s.K := by
    simp only [rectmvGuard, Bool.or_eq_false_iff, decide_eq_false_iff_not] at hstop
    omega
  have hget : ∀ k, k < s.K → ((List.range s.K).map s.index.get).getD k 0 = s.index.get k := by
    intro k hk; simp [hk]
  have hmem : ∀ x, x ∈ (List.range s.K).map s.index.get ↔ ∃ k, k < s.K ∧ s.index.get k = x := by
    intro x; simp [List.mem_map]
  refine ⟨_, rfl, hKge, hKmin, hKle, le_trans hKle hb3, by simp, ?_, ?_⟩
  · -- reconstruction, with or without the final assignment
    intro l c
    have e : ∀ k ∈ range s.K, ∀ x : K, x * A (((List.range s.K).map s.index.get).getD k 0) c = x * A (s.index.get k) c := by
      intro k hk x; rw [hget k (Finset.mem_range.mp hk)]
    cases ident
    · simp only [Bool.false_eq_true, if_false]
      rw [hsrec l c]
      exact Finset.sum_congr rfl fun k hk => (e k hk _).symm
    · simp only [if_true]
      rw [rect_setRows_reconstructs s.K s.index.get s.C.get A hsrec l c]
      apply Finset.sum_congr rfl
      intro k hk
      rw [RmvMat.tab_get, e k hk]
  · intro hmin
    have hinv : RectInv p.top s := by
      rw [← hs]
      exact rect_loop_inv N p.top p.maxK p.minK (tol * tol) (mul_self_nonneg tol) htop hmin _ _
        (rect_init_inv N r p.top st.idx _ hlt hdist)
    refine ⟨?_, ?_, ?_, ?_⟩
    · apply List.Nodup.map_on _ List.nodup_range
      intro a ha b hb e
      by_contra hne
      exact hinv.distinct a (List.mem_range.mp ha) b (List.mem_range.mp hb) hne e
    · intro x hx
      obtain ⟨k, hk, e⟩ := (hmem x).mp hx
      rw [← e]; exact hinv.idx_lt k hk
    · intro hid k hk k'
      simp only [hid, if_true]
      rw [hget k hk, RmvMat.tab_get]
      exact rectmvSetRows_chosen s.index.get s.C.get s.K hinv.distinct k hk k'
    · intro hK l hl hnot
      have hun : ∀ k, k < s.K → s.index.get k ≠ l := fun k hk e => hnot ((hmem l).mpr ⟨k, hk, e⟩)
      have hrow : ∀ k, (if ident = true then RmvMat.tab N s.K (rectmvSetRows s.index.get s.C.get s.K) else s.C).get l k
          = s.C.get l k := by
        intro k
        cases ident
        · simp
        · simp only [if_true]; rw [RmvMat.tab_get]; exact rectmvSetRows_other s.index.get s.C.get l s.K hun k
      simp only [hrow]
      exact rect_row_norms p.top p.maxK p.minK (tol * tol) s hinv hstop hK l hl hun

/-- with the default `top_k_index = -1` every row is a candidate and `minK ≤ top_k_index = N` holds by the clamps: the
    conclusions of `rect_maxvol_spec` hold without side condition, for every `tol`, `maxK`, `min_add_K`, `minK` -/
theorem rect_maxvol_spec_default (N r : Nat) (tol : K) (maxK minAddK minK : Option Int) (ident : Bool)
    (st : MVState K) (A : Nat → Nat → K) (hN : r < N)
    (hrec : Reconstructs r st A) (hdist : Distinct r st) (hlt : ∀ k, k < r → st.idx k < N) :
    ∃ res, pyRectMaxvol N r tol maxK minAddK minK ident (-1) st.idx (fun l k => st.C k l) = some res ∧
      r ≤ res.K ∧ res.K ≤ (rectmvParams N r maxK minAddK minK (-1)).maxK ∧ res.K ≤ N ∧ res.index.length = res.K ∧
      (∀ l c, A l c = ∑ k ∈ range res.K, res.C.get l k * A (res.index.getD k 0) c) ∧
      res.index.Nodup ∧ (∀ x ∈ res.index, x < N) ∧
      (ident = true → ∀ k, k < res.K → ∀ k', res.C.get (res.index.getD k 0) k' = if k = k' then 1 else 0) ∧
      (res.K < (rectmvParams N r maxK minAddK minK (-1)).maxK → ∀ l, l < N →
          l ∉ res.index → ∑ k ∈ range res.K, res.C.get l k * res.C.get l k ≤ tol * tol) := by
  have ht := rectmvParams_top_default N r maxK minAddK minK hN
  obtain ⟨_, hb2, hb3, _, _⟩ := rectmvParams_bounds N r maxK minAddK minK (-1) hN
  obtain ⟨res, h1, h2, _, h4, h5, h6, h7, h8⟩ := rect_maxvol_spec N r tol maxK minAddK minK ident (-1) st A hN
    (by rw [ht]; omega) hrec hdist (by rw [ht]; exact hlt)
  rw [ht] at h8
  obtain ⟨g1, g2, g3, g4⟩ := h8 (by omega)
  exact ⟨res, h1, h2, h4, h5, h6, h7, g1, g2, g3, g4⟩

omit [IsStrictOrderedRing K] in
/-- **(e) `not_tall_returns_all`: for a matrix that is not tall (`N ≤ r`) both routines return all rows `arange(N)` and
    the `N × N` identity**, whatever the other arguments (the start state is not even looked at) -/
theorem not_tall_returns_all (N r : Nat) (hN : N ≤ r) (tol : K) (maxK minAddK minK : Option Int) (ident : Bool) (topK : Int)
    (tmp : Nat → Nat) (C0 : Nat → Nat → K) (tol' : K) (maxIters : Nat) (topK' : Int) (start : MVState K) :
    pyRectMaxvol N r tol maxK minAddK minK ident topK tmp C0 = some (rectmvAll N) ∧
    pyMaxvol N r tol' maxIters topK' start = rectmvAll N ∧
    (rectmvAll N : RectResult K).index = List.range N ∧ (rectmvAll N : RectResult K).K = N ∧
    (∀ l k, (rectmvAll N : RectResult K).C.get l k = if l = k then 1 else 0) := by
  refine ⟨by simp [pyRectMaxvol, hN], by simp [pyMaxvol, hN], rfl, rfl, ?_⟩
  intro l k; simp [rectmvAll]

omit [LinearOrder K] [IsStrictOrderedRing K] in
/-- all rows with the identity reproduce `A`: `I · A[arange(N)] = A` -/
theorem all_rows_reconstruct (N : Nat) (A : Nat → Nat → K) (l : Nat) (hl : l < N) (c : Nat) :
    A l c = ∑ k ∈ range N, (rectmvAll N : RectResult K).C.get l k * A ((rectmvAll N : RectResult K).index.getD k 0) c := by
  have e : ∀ k ∈ range N, (rectmvAll N : RectResult K).C.get l k * A ((rectmvAll N : RectResult K).index.getD k 0) c
      = if l = k then A k c else 0 := by
    intro k hk
    have hk' := Finset.mem_range.mp hk
    simp only [rectmvAll, RmvMat.ofFn_get]
    split <;> simp [hk']
  rw [Finset.sum_congr rfl e, Finset.sum_ite_eq (range N) l]
  simp [hl]

omit [IsStrictOrderedRing K] in
/-- for a tall matrix `py_maxvol` returns the state of its swap loop (about which `loop_invariants`,
    `loop_stops_below_tol` speak), with `C` transposed back -/
theorem py_maxvol_tall (N r : Nat) (hN : r < N) (tol : K) (maxIters : Nat) (start : MVState K) :
    let s := (mvLoop r N (if tol < 1 then 1 else tol) maxIters start []).1
    (pyMaxvol N r tol maxIters (-1) start).index = (List.range r).map s.idx ∧
    (pyMaxvol N r tol maxIters (-1) start).K = r ∧
    ∀ l k, (pyMaxvol N r tol maxIters (-1) start).C.get l k = s.C k l := by
  have h : ¬ N ≤ r := by omega
  have h2 : ¬ (N : Int) < (r : Int) := by omega
  simp [pyMaxvol, h, h2]

/-! ### non-vacuity: the hypotheses of `rect_maxvol_spec(_default)` on a concrete `3 × 1` matrix over `ℚ`
(`A = (2, 1, 1)ᵀ`, `py_maxvol` answers row 0 with `C₀ = (1, 1/2, 1/2)ᵀ`) -/

/-- the answer of `py_maxvol` on `A = (2, 1, 1)ᵀ` -/
def rectExSt : MVState ℚ :=
  { C := fun k l => if k = 0 then (if l = 0 then 1 else if l < 3 then 1/2 else 0) else 0, idx := fun _ => 0 }
/-- `A = (2, 1, 1)ᵀ` -/
def rectExA : Nat → Nat → ℚ := fun l c => if c = 0 then (if l = 0 then 2 else if l < 3 then 1 else 0) else 0

theorem rectEx_reconstructs : Reconstructs 1 rectExSt rectExA := by
  intro l c
  simp only [Finset.sum_range_one, rectExSt, rectExA]
  split_ifs <;> simp
theorem rectEx_distinct : Distinct 1 rectExSt := by intro k hk k' hk' hne; omega
theorem rectEx_lt : ∀ k, k < 1 → rectExSt.idx k < 3 := by intro k _; simp [rectExSt]

example := rect_maxvol_spec_default 3 1 (1 : ℚ) none none none true rectExSt rectExA (by omega)
  rectEx_reconstructs rectEx_distinct rectEx_lt
example := rect_maxvol_spec 3 1 (1/2 : ℚ) (some 2) none none true (-1) rectExSt rectExA (by omega)
  (by rw [rectmvParams_top_default 3 1 _ _ _ (by omega)]; omega)
  rectEx_reconstructs rectEx_distinct (by rw [rectmvParams_top_default 3 1 _ _ _ (by omega)]; exact rectEx_lt)
example := rect_reconstructs 3 3 3 1 (1 : ℚ) rectExA 2 _ (rect_init_reconstructs 3 1 3 rectExSt rectExA rectEx_reconstructs)
example := rect_loop_inv 3 3 3 1 (1 : ℚ) zero_le_one (by omega) (by omega) 2 _
  (rect_init_inv 3 1 3 rectExSt.idx (fun l k => rectExSt.C k l) rectEx_lt rectEx_distinct)
example := not_tall_returns_all 2 3 (by omega) (1 : ℚ) none none none true (-1) (fun _ => 0) (fun _ _ => 0) (1 : ℚ) 10 (-1) rectExSt


end TN.C17
