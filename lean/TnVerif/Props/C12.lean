import TnVerif.Lemmas.Tools
import TnVerif.Lemmas.Cat
import TnVerif.Lemmas.Pad
import TnVerif.Props.C01
import TnVerif.Props.C02
/-!
# C12 — array-manipulation and creation routines match their NumPy/PyTorch counterparts

Every routine that acts on the spatial index of single modes is `Tensor.linModes` with a specific
matrix per mode; `linModes_dense` is the general theorem (tensor-times-matrix products along any
modes), the others are instances: gathers (flip, tiling, slicing) re-index the array, `cumsum`
applies the lower-triangular ones matrix, zero padding / concatenation embed in zeros.
-/
namespace TN.C12
open TN Finset
variable {R : Type} [CommSemiring R]

/-- **tensor-times-matrix along any modes** (`tn.ttm`, and with it `sum`, `mean`, ...): the dense
    array is multiplied mode by mode (`applyMaps`), untouched modes keep their index. -/
theorem linModes_dense (t : Tensor R) (maps : List (Option (Nat × (Nat → Nat → R)))) (idx : List Nat)
    (hl : maps.length = t.length) (hi : idx.length = t.length) :
    (t.ttm maps).dense idx = applyMaps maps t.shape t.dense idx :=
  dense_linModes t maps idx hl hi

/-- **gathers**: index maps applied to modes (flip, repeat/tiling, slicing with any step) re-index the array -/
theorem gather_dense (t : Tensor R) (rows : List Nat) (φs : List (Option (Nat → Nat))) (idx : List Nat)
    (hr : rows.length = φs.length) (hl : φs.length = t.length) (hi : idx.length = t.length)
    (hok : selOK φs t.shape idx) :
    (t.linModes (selMaps rows φs)).dense idx = t.dense (selIdx φs idx) := by
  unfold Tensor.dense
  rw [dense_linModes t _ idx (by simp [selMaps, hr, hl]) hi]
  exact applyMaps_sel φs rows t.shape idx _ hr hok

/-- `tn.flip` is the gather with `i ↦ n − 1 − i` on the flipped modes -/
theorem flip_eq_gather (t : Tensor R) : ∀ dims : List Bool,
    t.flip dims = t.linModes (selMaps t.shape (List.zipWith (fun b n => if b then some (fun i => n - 1 - i) else Option.none) dims t.shape)) := by
  intro dims
  unfold Tensor.flip
  congr 1
  induction t generalizing dims with
  | nil => cases dims <;> simp [selMaps, Tensor.shape]
  | cons m ms ih =>
    cases dims with
    | nil => simp [selMaps]
    | cons b bs =>
      simp only [List.zipWith_cons_cons, Tensor.shape, List.map_cons, selMaps]
      congr 1
      · cases b
        · simp
        · simp only [if_true, Option.map_some]; rfl
      · exact ih bs

/-- `tn.cumsum`: along each selected mode the array is multiplied by the lower-triangular ones matrix,
    i.e. entry `i` becomes `Σ_{j ≤ i}` -/
theorem cumsum_dense (t : Tensor R) (dims : List Bool) (idx : List Nat) (hd : dims.length = t.length)
    (hi : idx.length = t.length) :
    (t.cumsum dims).dense idx =
      applyMaps (List.zipWith (fun b m => if b then some (m.n, cumsumL) else Option.none) dims t) t.shape t.dense idx := by
  unfold Tensor.cumsum Tensor.dense
  exact dense_linModes t _ idx (by simp [hd]) hi

/-- `tn.pad` with zeros: the array embedded in a larger box of zeros -/
theorem pad0_dense (t : Tensor R) (sizes : List (Option Nat)) (idx : List Nat) (hd : sizes.length = t.length)
    (hi : idx.length = t.length) :
    (t.pad0 sizes).dense idx =
      applyMaps (List.zipWith (fun s m => s.map fun n' => (n', embedL 0 m.n)) sizes t) t.shape t.dense idx := by
  unfold Tensor.pad0 Tensor.dense
  exact dense_linModes t _ idx (by simp [hd]) hi

/-- the embedding matrix picks entry `i` inside the original extent and gives `0` in the padding -/
theorem embed_row (n i : Nat) (g : Nat → R) : (∑ j ∈ range n, embedL (R := R) 0 n i j * g j) = if i < n then g i else 0 := by
  by_cases h : i < n
  · rw [Finset.sum_eq_single i]
    · simp [embedL, h]
    · intro j _ hj; simp [embedL, Ne.symm hj]
    · intro hh; exact absurd (Finset.mem_range.mpr h) hh
  · simp only [h, if_false]
    apply Finset.sum_eq_zero
    intro j hj
    have := Finset.mem_range.mp hj
    simp [embedL]; omega

/-- `tn.eye(n, m)` is the identity matrix -/
theorem eye_dense (n m i j : Nat) (hj : j < m) : (Tensor.eye (R := R) n m).dense [i, j] = if i = j then 1 else 0 := by
  simp only [Tensor.eye, Tensor.dense, Tensor.modes, List.map_cons, List.map_nil, dense, tail, sumTo_eq, TMode.toMode_rl,
    TMode.toMode_rr, TMode.toMode_G, TMode.decomp_none, Core.tt_rl, Core.tt_rr, Core.tt_get, Finset.sum_range_one, mul_one]
  by_cases hij : i = j
  · subst hij
    rw [Finset.sum_eq_single i]
    · simp
    · intro b _ hb; simp [Ne.symm hb]
    · intro hh; exact absurd (Finset.mem_range.mpr hj) hh
  · simp only [hij, if_false]
    apply Finset.sum_eq_zero
    intro b _
    by_cases h1 : i = b
    · subst h1; simp [hij]
    · simp [h1]

/-- `ones / zeros / full` (and the scalar operand of `+`) are constant -/
theorem full_dense (c : R) (shape idx : List Nat) (hne : shape ≠ []) (hi : idx.length = shape.length) :
    (Tensor.constLike c shape).dense idx = c :=
  dense_constLike c shape idx hne hi

/-- transposition of the mode order (proved in C01) -/
theorem transpose_dense (t : Tensor R) (ht : t.WF) (idx : List Nat) (hi : idx.length = t.length) :
    t.transpose.dense idx.reverse = t.dense idx := C01.transpose_dense t ht idx hi

/-! ### concatenation (`tn.cat`, tools.py:56-118) -/

/-- **`tn.cat` of two operands, result structure**: for well-formed operands with the same number of modes whose
    shapes agree on every mode but `dim`, the result is a well-formed tensor whose shape is that of the first
    operand with `n_t + n_u` at position `dim`. -/
theorem cat2_wf_shape (t u : Tensor R) (dim : Nat) (ht : t.WF) (hu : u.WF) (hlen : u.length = t.length)
    (hs : ∀ k, k ≠ dim → u.shape.getD k 0 = t.shape.getD k 0) :
    (t.cat2 u dim).WF ∧ (t.cat2 u dim).shape = t.shape.set dim (t.shape.getD dim 0 + u.shape.getD dim 0) := by
  have hS : t.shape.set dim (t.shape.getD dim 0 + u.shape.getD dim 0) =
      u.shape.set dim (t.shape.getD dim 0 + u.shape.getD dim 0) :=
    (set_eq_of_off _ _ dim _ (by simp [shape_length, hlen]) hs).symm
  have h1 := WF_linSingle t (t.shape.getD dim 0 + u.shape.getD dim 0) (embedL 0 (t.shape.getD dim 0)) dim ht
  have h2 := WF_linSingle u (t.shape.getD dim 0 + u.shape.getD dim 0) (embedL (t.shape.getD dim 0) (u.shape.getD dim 0)) dim hu
  have s1 := shape_linSingle t (t.shape.getD dim 0 + u.shape.getD dim 0) (embedL 0 (t.shape.getD dim 0)) dim
  have s2 := shape_linSingle u (t.shape.getD dim 0 + u.shape.getD dim 0) (embedL (t.shape.getD dim 0) (u.shape.getD dim 0)) dim
  have := Tensor.add_wf_shape_eq _ _ h1 h2 (by rw [s1, s2, hS])
  exact ⟨this.1, this.2.trans s1⟩

/-- **`tn.cat` of two operands decompresses to the concatenation of the decompressed operands**: along `dim` the
    first `n_t` positions read `t` at the same index, the next `n_u` positions read `u` at the index shifted by
    `n_t`; beyond `n_t + n_u` (outside the result's shape) the cores only hold zeros.  Any number of modes, any
    format mix, any ranks; the other indices need not even be in range. -/
theorem cat2_dense (t u : Tensor R) (dim : Nat) (ht : t.WF) (hu : u.WF) (hlen : u.length = t.length)
    (hd : dim < t.length) (hs : ∀ k, k ≠ dim → u.shape.getD k 0 = t.shape.getD k 0)
    (idx : List Nat) (hi : idx.length = t.length) :
    (t.cat2 u dim).dense idx =
      if idx.getD dim 0 < t.shape.getD dim 0 then t.dense idx
      else if idx.getD dim 0 < t.shape.getD dim 0 + u.shape.getD dim 0 then
        u.dense (idx.set dim (idx.getD dim 0 - t.shape.getD dim 0))
      else 0 := by
  have hS : t.shape.set dim (t.shape.getD dim 0 + u.shape.getD dim 0) =
      u.shape.set dim (t.shape.getD dim 0 + u.shape.getD dim 0) :=
    (set_eq_of_off _ _ dim _ (by simp [shape_length, hlen]) hs).symm
  have h1 := WF_linSingle t (t.shape.getD dim 0 + u.shape.getD dim 0) (embedL 0 (t.shape.getD dim 0)) dim ht
  have h2 := WF_linSingle u (t.shape.getD dim 0 + u.shape.getD dim 0) (embedL (t.shape.getD dim 0) (u.shape.getD dim 0)) dim hu
  have s1 := shape_linSingle t (t.shape.getD dim 0 + u.shape.getD dim 0) (embedL 0 (t.shape.getD dim 0)) dim
  have s2 := shape_linSingle u (t.shape.getD dim 0 + u.shape.getD dim 0) (embedL (t.shape.getD dim 0) (u.shape.getD dim 0)) dim
  have e1 := dense_linEmbed t (t.shape.getD dim 0 + u.shape.getD dim 0) 0 dim idx hd hi
  have e2 := dense_linEmbed u (t.shape.getD dim 0 + u.shape.getD dim 0) (t.shape.getD dim 0) dim idx (by omega) (by omega)
  have hadd := Tensor.add_dense_eq _ _ h1 h2 (by rw [s1, s2, hS]) idx
  have hcat : (t.cat2 u dim).dense idx =
      ((t.linModes (singleMap t.length dim (t.shape.getD dim 0 + u.shape.getD dim 0, embedL 0 (t.shape.getD dim 0)))).add
        (u.linModes (singleMap u.length dim (t.shape.getD dim 0 + u.shape.getD dim 0,
          embedL (t.shape.getD dim 0) (u.shape.getD dim 0))))).dense idx := rfl
  rw [hcat, hadd, e1, e2]
  have hself : idx.set dim (idx.getD dim 0 - 0) = idx := by
    rw [Nat.sub_zero]; exact set_getD_self idx dim (by omega)
  by_cases c1 : idx.getD dim 0 < t.shape.getD dim 0
  · have n2 : ¬ (t.shape.getD dim 0 ≤ idx.getD dim 0 ∧ idx.getD dim 0 < t.shape.getD dim 0 + u.shape.getD dim 0) := by omega
    have p1 : 0 ≤ idx.getD dim 0 ∧ idx.getD dim 0 < 0 + t.shape.getD dim 0 := by omega
    rw [if_pos p1, if_neg n2, if_pos c1, hself, add_zero]
  · have n1 : ¬ (0 ≤ idx.getD dim 0 ∧ idx.getD dim 0 < 0 + t.shape.getD dim 0) := by omega
    rw [if_neg n1, if_neg c1, zero_add]
    by_cases c2 : idx.getD dim 0 < t.shape.getD dim 0 + u.shape.getD dim 0
    · rw [if_pos ⟨by omega, c2⟩, if_pos c2]
    · rw [if_neg (fun h => c2 h.2), if_neg c2]

/-- **`tn.cat` of any number of operands, result structure** (`Tensor.catN` follows the Python loop): for
    well-formed operands with the same number of modes whose shapes agree with the first operand's on every mode
    but `d`, the result is well-formed and has the first operand's shape with the TOTAL size at position `d`. -/
theorem catN_wf_shape (t0 : Tensor R) (rest : List (Tensor R)) (d : Nat)
    (hwf : ∀ t ∈ t0 :: rest, t.WF) (hlen : ∀ t ∈ rest, t.length = t0.length) (hd : d < t0.length)
    (hs : ∀ t ∈ rest, ∀ k, k ≠ d → t.shape.getD k 0 = t0.shape.getD k 0) :
    (Tensor.catN (t0 :: rest) d).WF ∧
    (Tensor.catN (t0 :: rest) d).shape = t0.shape.set d (((t0 :: rest).map (catSize d)).sum) := by
  cases rest with
  | nil =>
    refine ⟨hwf t0 List.mem_cons_self, ?_⟩
    simp only [Tensor.catN, List.map_cons, List.map_nil, List.sum_cons, List.sum_nil, Nat.add_zero, catSize]
    exact (set_getD_self _ d (by simpa [shape_length] using hd)).symm
  | cons t1 r =>
    have hall : ∀ t ∈ t1 :: r, t.WF ∧ t.length = t0.length ∧ d < t0.length ∧
        t.shape.set d (((t0 :: t1 :: r).map (catSize d)).sum) = t0.shape.set d (((t0 :: t1 :: r).map (catSize d)).sum) := by
      intro t ht
      exact ⟨hwf t (List.mem_cons_of_mem _ ht), hlen t ht, hd,
        set_eq_of_off _ _ d _ (by simp [shape_length, hlen t ht]) (hs t ht)⟩
    have := catGo_spec d (((t0 :: t1 :: r).map (catSize d)).sum) t0.length _ (t1 :: r)
      (t0.embedDim (((t0 :: t1 :: r).map (catSize d)).sum) 0 d) (catSize d t0)
      (WF_embedDim _ _ _ _ (hwf t0 List.mem_cons_self)) (shape_embedDim _ _ _ _) hall
    exact ⟨this.1, this.2.1⟩

/-- with two or more operands the result decompresses to the sum of the operands' block contributions -/
theorem catN_dense_sum (t0 t1 : Tensor R) (r : List (Tensor R)) (d : Nat)
    (hwf : ∀ t ∈ t0 :: t1 :: r, t.WF) (hlen : ∀ t ∈ t1 :: r, t.length = t0.length) (hd : d < t0.length)
    (hs : ∀ t ∈ t1 :: r, ∀ k, k ≠ d → t.shape.getD k 0 = t0.shape.getD k 0)
    (idx : List Nat) (hi : idx.length = t0.length) :
    (Tensor.catN (t0 :: t1 :: r) d).dense idx = catSum d idx 0 (t0 :: t1 :: r) := by
  have hall : ∀ t ∈ t1 :: r, t.WF ∧ t.length = t0.length ∧ d < t0.length ∧
      t.shape.set d (((t0 :: t1 :: r).map (catSize d)).sum) = t0.shape.set d (((t0 :: t1 :: r).map (catSize d)).sum) := by
    intro t ht
    exact ⟨hwf t (List.mem_cons_of_mem _ ht), hlen t ht, hd,
      set_eq_of_off _ _ d _ (by simp [shape_length, hlen t ht]) (hs t ht)⟩
  have := (catGo_spec d (((t0 :: t1 :: r).map (catSize d)).sum) t0.length _ (t1 :: r)
    (t0.embedDim (((t0 :: t1 :: r).map (catSize d)).sum) 0 d) (catSize d t0)
    (WF_embedDim _ _ _ _ (hwf t0 List.mem_cons_self)) (shape_embedDim _ _ _ _) hall).2.2 idx hi
  have hc : (Tensor.catN (t0 :: t1 :: r) d).dense idx =
      (catGo d (((t0 :: t1 :: r).map (catSize d)).sum) (t0.embedDim (((t0 :: t1 :: r).map (catSize d)).sum) 0 d)
        (catSize d t0) (t1 :: r)).dense idx := rfl
  rw [hc, this, dense_embedDim t0 _ 0 d idx hd hi]
  show _ = (if 0 ≤ idx.getD d 0 ∧ idx.getD d 0 < 0 + catSize d t0 then t0.dense (idx.set d (idx.getD d 0 - 0)) else 0)
      + catSum d idx (0 + catSize d t0) (t1 :: r)
  simp only [Nat.zero_add]; rfl

/-- **`tn.cat` of any number of operands decompresses to the concatenation of the decompressed operands**: if
    `idx[d]` lies in the block of operand `k` — at or after the sum of the sizes of the operands before it, before
    that sum plus its own size — the entry is operand `k`'s entry at the index shifted back by that sum.
    Any number of operands (one included: the clone), modes, format mix, ranks. -/
theorem catN_dense (t0 : Tensor R) (rest : List (Tensor R)) (d : Nat)
    (hwf : ∀ t ∈ t0 :: rest, t.WF) (hlen : ∀ t ∈ rest, t.length = t0.length) (hd : d < t0.length)
    (hs : ∀ t ∈ rest, ∀ k, k ≠ d → t.shape.getD k 0 = t0.shape.getD k 0)
    (idx : List Nat) (hi : idx.length = t0.length) (k : Nat) (hk : k < (t0 :: rest).length)
    (hlo : (((t0 :: rest).take k).map (catSize d)).sum ≤ idx.getD d 0)
    (hhi : idx.getD d 0 < (((t0 :: rest).take (k + 1)).map (catSize d)).sum) :
    (Tensor.catN (t0 :: rest) d).dense idx =
      ((t0 :: rest)[k]).dense (idx.set d (idx.getD d 0 - (((t0 :: rest).take k).map (catSize d)).sum)) := by
  cases rest with
  | nil =>
    have hk0 : k = 0 := by simpa using hk
    subst hk0
    simp only [Tensor.catN, List.take_zero, List.map_nil, List.sum_nil, Nat.sub_zero, List.getElem_cons_zero]
    rw [set_getD_self idx d (by omega)]
  | cons t1 r =>
    rw [catN_dense_sum t0 t1 r d hwf hlen hd hs idx hi]
    have := catSum_block d idx (t0 :: t1 :: r) 0 k hk (by omega) (by omega)
    simpa only [Nat.zero_add] using this

/-- with two or more operands, positions at or beyond the total size along `d` (outside the result's shape) hold zeros -/
theorem catN_dense_outside (t0 t1 : Tensor R) (r : List (Tensor R)) (d : Nat)
    (hwf : ∀ t ∈ t0 :: t1 :: r, t.WF) (hlen : ∀ t ∈ t1 :: r, t.length = t0.length) (hd : d < t0.length)
    (hs : ∀ t ∈ t1 :: r, ∀ k, k ≠ d → t.shape.getD k 0 = t0.shape.getD k 0)
    (idx : List Nat) (hi : idx.length = t0.length)
    (hout : ((t0 :: t1 :: r).map (catSize d)).sum ≤ idx.getD d 0) :
    (Tensor.catN (t0 :: t1 :: r) d).dense idx = 0 := by
  rw [catN_dense_sum t0 t1 r d hwf hlen hd hs idx hi]
  exact catSum_outside d idx _ 0 (by omega)

/-- the two-operand model `cat2` and the loop model `catN` decompress to the same array -/
theorem catN_two_eq_cat2 (t u : Tensor R) (dim : Nat) (ht : t.WF) (hu : u.WF) (hlen : u.length = t.length)
    (hd : dim < t.length) (hs : ∀ k, k ≠ dim → u.shape.getD k 0 = t.shape.getD k 0)
    (idx : List Nat) (hi : idx.length = t.length) :
    (Tensor.catN [t, u] dim).dense idx = (t.cat2 u dim).dense idx := by
  have hwf : ∀ x ∈ [t, u], x.WF := by intro x hx; simp at hx; rcases hx with rfl | rfl <;> assumption
  have hl : ∀ x ∈ [u], x.length = t.length := by intro x hx; simp at hx; subst hx; exact hlen
  have hss : ∀ x ∈ [u], ∀ k, k ≠ dim → x.shape.getD k 0 = t.shape.getD k 0 := by
    intro x hx; simp at hx; subst hx; exact hs
  rw [catN_dense_sum t u [] dim hwf hl hd hss idx hi, cat2_dense t u dim ht hu hlen hd hs idx hi]
  have hself : idx.set dim (idx.getD dim 0 - 0) = idx := by
    rw [Nat.sub_zero]; exact set_getD_self idx dim (by omega)
  simp only [catSum, catSize, Nat.zero_add, add_zero, hself]
  by_cases c1 : idx.getD dim 0 < t.shape.getD dim 0
  · have n2 : ¬ (t.shape.getD dim 0 ≤ idx.getD dim 0 ∧ idx.getD dim 0 < t.shape.getD dim 0 + u.shape.getD dim 0) := by omega
    have p1 : 0 ≤ idx.getD dim 0 ∧ idx.getD dim 0 < t.shape.getD dim 0 := by omega
    rw [if_pos p1, if_neg n2, if_pos c1, add_zero]
  · have n1 : ¬ (0 ≤ idx.getD dim 0 ∧ idx.getD dim 0 < t.shape.getD dim 0) := by omega
    rw [if_neg n1, if_neg c1, zero_add]
    by_cases c2 : idx.getD dim 0 < t.shape.getD dim 0 + u.shape.getD dim 0
    · rw [if_pos ⟨by omega, c2⟩, if_pos c2]
    · rw [if_neg (fun h => c2 h.2), if_neg c2]

/-! #### the guards of `tn.cat` (`Tensor.cat : … → Except CatErr (Tensor R)` models them) -/

/-- no operand: Python fails (`ts[0]` on an empty tuple, or `result` never assigned) -/
theorem cat_empty (dim : Int) : Tensor.cat ([] : List (Tensor R)) dim = .error .empty := rfl

/-- one operand: the clone, whatever `dim` is (`dim` is not even range-checked) -/
theorem cat_single (t : Tensor R) (dim : Int) : Tensor.cat [t] dim = .ok t := rfl

/-- **the guards pass exactly on the inputs of `catN_dense`**: with two or more operands, `dim ∈ [-N, N)`
    (negative counts from the end), all operands with `N` modes and shapes equal to the first operand's off the
    normalised mode `d`, `tn.cat` returns what the loop computes. -/
theorem cat_ok (t0 t1 : Tensor R) (r : List (Tensor R)) (dim : Int) (d : Nat)
    (hdv : (d : Int) = if dim < 0 then dim + t0.length else dim) (hd : d < t0.length)
    (hlen : ∀ t ∈ t1 :: r, t.length = t0.length)
    (hs : ∀ t ∈ t1 :: r, ∀ k, k ≠ d → t.shape.getD k 0 = t0.shape.getD k 0) :
    Tensor.cat (t0 :: t1 :: r) dim = .ok (Tensor.catN (t0 :: t1 :: r) d) := by
  unfold Tensor.cat
  dsimp only
  rw [(normInt_eq_ok_iff dim t0.length d).mpr ⟨hdv, hd⟩]
  dsimp only
  have c1 : ¬ ((t1 :: r).any (fun t => (List.range t0.length).any fun n => n != d && decide (t.length ≤ n)) = true) := by
    simp only [List.any_eq_true, List.mem_range, Bool.and_eq_true, bne_iff_ne, decide_eq_true_eq, not_exists, not_and]
    intro t ht n hn _ hle
    have := hlen t ht; omega
  have c2 : ¬ ((t1 :: r).any (fun t => (List.range t0.length).any fun n =>
      n != d && t.shape.getD n 0 != t0.shape.getD n 0) = true) := by
    simp only [List.any_eq_true, List.mem_range, Bool.and_eq_true, bne_iff_ne, not_exists, not_and]
    intro t ht n _ hne hbad
    exact hbad (hs t ht n hne)
  have c3 : ¬ ((t1 :: r).any (fun t => t.length != t0.length) = true) := by
    simp only [List.any_eq_true, bne_iff_ne, not_exists, not_and]
    intro t ht hne
    exact hne (hlen t ht)
  rw [if_neg c1, if_neg c2, if_neg c3]

/-- conversely, whenever `tn.cat` of two or more operands returns, the operands met those conditions (the guard
    plus the later failures leave no other way out) and the result is the loop's -/
theorem cat_ok_inv (t0 t1 : Tensor R) (r : List (Tensor R)) (dim : Int) (res : Tensor R)
    (h : Tensor.cat (t0 :: t1 :: r) dim = .ok res) :
    ∃ d : Nat, ((d : Int) = if dim < 0 then dim + t0.length else dim) ∧ d < t0.length ∧
      (∀ t ∈ t1 :: r, t.length = t0.length) ∧
      (∀ t ∈ t1 :: r, ∀ k, k ≠ d → t.shape.getD k 0 = t0.shape.getD k 0) ∧
      res = Tensor.catN (t0 :: t1 :: r) d := by
  unfold Tensor.cat at h
  dsimp only at h
  cases hn : normInt dim t0.length with
  | error e => rw [hn] at h; cases h
  | ok d =>
    rw [hn] at h
    obtain ⟨hdv, hd⟩ := (normInt_eq_ok_iff dim t0.length d).mp hn
    dsimp only at h
    split at h
    · cases h
    · split at h
      · cases h
      · split at h
        · cases h
        · rename_i c1 c2 c3
          have hlen : ∀ t ∈ t1 :: r, t.length = t0.length := by
            intro t ht
            by_contra hne
            apply c3
            simp only [List.any_eq_true, bne_iff_ne]
            exact ⟨t, ht, hne⟩
          refine ⟨d, hdv, hd, hlen, ?_, ?_⟩
          · intro t ht k hk
            by_cases hkN : k < t0.length
            · by_contra hne
              apply c2
              simp only [List.any_eq_true, List.mem_range, Bool.and_eq_true, bne_iff_ne]
              exact ⟨t, ht, k, hkN, hk, hne⟩
            · have e1 : t.shape.getD k 0 = 0 := by
                simp [List.getD_eq_getElem?_getD, shape_length, hlen t ht, Nat.le_of_not_lt hkN]
              have e2 : t0.shape.getD k 0 = 0 := by
                simp [List.getD_eq_getElem?_getD, shape_length, Nat.le_of_not_lt hkN]
              rw [e1, e2]
          · injection h with h; exact h.symm

/-- the explicit `ValueError`: operands with the right number of modes, one of which differs from the first operand
    in the size of a mode other than `d` -/
theorem cat_shape_error (t0 t1 : Tensor R) (r : List (Tensor R)) (dim : Int) (d : Nat)
    (hdv : (d : Int) = if dim < 0 then dim + t0.length else dim) (hd : d < t0.length)
    (hlen : ∀ t ∈ t1 :: r, t.length = t0.length)
    (hbad : ∃ t ∈ t1 :: r, ∃ k, k < t0.length ∧ k ≠ d ∧ t.shape.getD k 0 ≠ t0.shape.getD k 0) :
    Tensor.cat (t0 :: t1 :: r) dim = .error .shape := by
  unfold Tensor.cat
  dsimp only
  rw [(normInt_eq_ok_iff dim t0.length d).mpr ⟨hdv, hd⟩]
  dsimp only
  have c1 : ¬ ((t1 :: r).any (fun t => (List.range t0.length).any fun n => n != d && decide (t.length ≤ n)) = true) := by
    simp only [List.any_eq_true, List.mem_range, Bool.and_eq_true, bne_iff_ne, decide_eq_true_eq, not_exists, not_and]
    intro t ht n hn _ hle
    have := hlen t ht; omega
  have c2 : (t1 :: r).any (fun t => (List.range t0.length).any fun n =>
      n != d && t.shape.getD n 0 != t0.shape.getD n 0) = true := by
    obtain ⟨t, ht, k, hk, hkd, hne⟩ := hbad
    simp only [List.any_eq_true, List.mem_range, Bool.and_eq_true, bne_iff_ne]
    exact ⟨t, ht, k, hk, hkd, hne⟩
  rw [if_neg c1, if_pos c2]

/-- `dim` outside `[-N, N)`: `np.delete` raises -/
theorem cat_dim_error (t0 t1 : Tensor R) (r : List (Tensor R)) (dim : Int)
    (h : dim < -(t0.length : Int) ∨ (t0.length : Int) ≤ dim) :
    Tensor.cat (t0 :: t1 :: r) dim = .error .dimRange := by
  unfold Tensor.cat
  dsimp only
  cases hn : normInt dim t0.length with
  | error e => rfl
  | ok d =>
    obtain ⟨hdv, hd⟩ := (normInt_eq_ok_iff dim t0.length d).mp hn
    split at hdv <;> omega

/-! #### non-vacuity: three mixed-format operands of shapes [2,2], [3,2], [2,2] concatenated along mode 0 -/
section cat_nonvacuous
/-- a 2-mode tensor of shape [3,2]: TT core without factor, then a CP-free TT core with a factor -/
def exV : Tensor Int :=
  [ { core := .tt 1 3 2 (fun _ j b => (j : Int) * 3 - b), U := none },
    { core := .tt 2 1 1 (fun a _ _ => (a : Int) + 2), U := some { rows := 2, cols := 1, f := fun i _ => (i : Int) - 3 } } ]

theorem exV_wf : exV.WF := by simp [exV, Tensor.WF, Tensor.WFfrom, TMode.ok, Core.rl, Core.rr, Core.spatial]
theorem exT_wf : C02.exT.WF := by simp [C02.exT, Tensor.WF, Tensor.WFfrom, TMode.ok, Core.rl, Core.rr, Core.spatial]
theorem exU_wf : C02.exU.WF := by simp [C02.exU, Tensor.WF, Tensor.WFfrom, TMode.ok, Core.rl, Core.rr, Core.spatial]

theorem ex_off (x : Tensor Int) (hx : x.shape.getD 1 0 = 2) (hl : x.length = 2) :
    ∀ k, k ≠ 0 → x.shape.getD k 0 = C02.exT.shape.getD k 0 := by
  intro k hk
  match k with
  | 0 => exact absurd rfl hk
  | 1 => rw [hx]; rfl
  | k + 2 =>
    have h1 : x.shape.length ≤ k + 2 := by rw [shape_length, hl]; omega
    have h2 : C02.exT.shape.length ≤ k + 2 := by rw [shape_length]; simp [C02.exT]
    rw [List.getD_eq_getElem?_getD, List.getD_eq_getElem?_getD, List.getElem?_eq_none h1, List.getElem?_eq_none h2]

example : (C02.exT.cat2 exV 0).dense [3, 1] = exV.dense [1, 1] := by
  have := cat2_dense C02.exT exV 0 exT_wf exV_wf rfl (by decide) (ex_off exV rfl rfl) [3, 1] rfl
  simpa [C02.exT, exV, Tensor.shape, TMode.n, Core.spatial] using this

example : (C02.exT.cat2 exV 0).WF ∧ (C02.exT.cat2 exV 0).shape = [5, 2] := by
  have := cat2_wf_shape C02.exT exV 0 exT_wf exV_wf rfl (ex_off exV rfl rfl)
  simpa [C02.exT, exV, Tensor.shape, TMode.n, Core.spatial] using this

/-- three operands; index 3 along mode 0 lies in the block of the middle operand (sizes 2, 3, 2) -/
example : (Tensor.catN [C02.exT, exV, C02.exU] 0).dense [3, 1] = exV.dense [1, 1] := by
  have hwf : ∀ t ∈ [C02.exT, exV, C02.exU], t.WF := by
    intro t ht; simp at ht; rcases ht with rfl | rfl | rfl
    · exact exT_wf
    · exact exV_wf
    · exact exU_wf
  have hlen : ∀ t ∈ [exV, C02.exU], t.length = C02.exT.length := by
    intro t ht; simp at ht; rcases ht with rfl | rfl <;> rfl
  have hs : ∀ t ∈ [exV, C02.exU], ∀ k, k ≠ 0 → t.shape.getD k 0 = C02.exT.shape.getD k 0 := by
    intro t ht; simp at ht; rcases ht with rfl | rfl
    · exact ex_off exV rfl rfl
    · exact ex_off C02.exU rfl rfl
  have := catN_dense C02.exT [exV, C02.exU] 0 hwf hlen (by decide) hs [3, 1] rfl 1 (by decide)
    (by simp [catSize, C02.exT, Tensor.shape, TMode.n]) (by simp [catSize, C02.exT, exV, Tensor.shape, TMode.n, Core.spatial])
  simpa [catSize, C02.exT, Tensor.shape, TMode.n] using this

/-- the guarded routine accepts these operands with `dim = -2` -/
example : Tensor.cat [C02.exT, exV, C02.exU] (-2) = .ok (Tensor.catN [C02.exT, exV, C02.exU] 0) := by
  apply cat_ok _ _ _ (-2) 0 (by decide) (by decide)
  · intro t ht; simp at ht; rcases ht with rfl | rfl <;> rfl
  · intro t ht; simp at ht; rcases ht with rfl | rfl
    · exact ex_off exV rfl rfl
    · exact ex_off C02.exU rfl rfl
end cat_nonvacuous

/-! ### padding (`tn.pad`, tools.py:529-609) -/

/-- **`tn.pad` with zeros, evaluated**: at an index that lies inside the original box on every padded mode the
    padded tensor reads the original entry, everywhere else it is 0 (`pad0_dense` with the embedding matrices
    evaluated by `embed_row`). -/
theorem pad0_dense_explicit (t : Tensor R) (sizes : List (Option Nat)) (idx : List Nat) (hd : sizes.length = t.length)
    (hi : idx.length = t.length) :
    (t.pad0 sizes).dense idx = if padInside sizes t.shape idx = true then t.dense idx else 0 :=
  dense_pad0 t sizes idx hd hi

/-- zero padding returns a well-formed tensor with the new sizes on the padded modes -/
theorem pad0_wf_shape (t : Tensor R) (sizes : List (Option Nat)) (ht : t.WF) (hd : sizes.length = t.length) :
    (t.pad0 sizes).WF ∧ (t.pad0 sizes).shape = padShape sizes t.shape :=
  ⟨WF_pad0 t sizes ht, shape_pad0 sizes t hd⟩

section padC
variable {K : Type} [CommRing K]

/-- **`tn.pad` with a non-zero fill value `c`**: at an index inside the original box (on every padded mode) the
    result reads the original entry, everywhere else it reads `c` — for every format mix, any set of padded modes.
    `ρ`, `sgn` are what the scalar multiplication `fill_value * outside` uses (`|c|^(1/N)` and `sign c`; contract
    `sgn · ρ^N = c`).  `hge` (new sizes not smaller than the old ones) is what Python needs not to raise; the
    equation itself does not depend on it.  (Python takes this branch only for `c ≠ 0`; for `c = 0` the statement is
    `pad0_dense_explicit`.) -/
theorem padC_dense (t : Tensor K) (sizes : List (Option Nat)) (ρ sgn c : K) (ht : t.WF)
    (hd : sizes.length = t.length) (_hge : padGE sizes t.shape) (hc : sgn * ρ ^ t.length = c)
    (idx : List Nat) (hi : idx.length = t.length) :
    (t.padC sizes ρ sgn).dense idx = if padInside sizes t.shape idx = true then t.dense idx else c := by
  obtain ⟨hSw, hSs, hSd⟩ := padC_parts t sizes ρ sgn c ht hd hc
  have hT := WF_pad0 t sizes ht
  have hTs := shape_pad0 sizes t hd
  show ((t.pad0 sizes).add _).dense idx = _
  rw [Tensor.add_dense_eq _ _ hT hSw (by rw [hTs, hSs]) idx, hSd idx hi, dense_pad0 t sizes idx hd hi]
  by_cases h : padInside sizes t.shape idx = true
  · simp [h]
  · simp [h]

/-- padding with a constant returns a well-formed tensor of the padded shape -/
theorem padC_wf_shape (t : Tensor K) (sizes : List (Option Nat)) (ρ sgn : K) (ht : t.WF)
    (hd : sizes.length = t.length) (_hge : padGE sizes t.shape) :
    (t.padC sizes ρ sgn).WF ∧ (t.padC sizes ρ sgn).shape = padShape sizes t.shape := by
  obtain ⟨hSw, hSs, _⟩ := padC_parts t sizes ρ sgn _ ht hd rfl
  have hT := WF_pad0 t sizes ht
  have hTs := shape_pad0 sizes t hd
  have := Tensor.add_wf_shape_eq (t.pad0 sizes) _ hT hSw (by rw [hTs, hSs])
  exact ⟨this.1, this.2.trans hTs⟩

/-- `padInside` spelled out: the index is inside the original extent on every padded mode -/
theorem padInside_spec (sizes : List (Option Nat)) (shape idx : List Nat) (hs : sizes.length = shape.length)
    (hi : idx.length = shape.length) :
    padInside sizes shape idx = true ↔ ∀ k n', sizes[k]? = some (some n') → idx.getD k 0 < shape.getD k 0 :=
  padInside_iff sizes shape idx hs hi

/-- non-vacuity: `exV` (shape [3,2]) padded to [4,2] with fill value `-8 = (-1)·2³`… over `Int` the contract needs a
    perfect power, so we pad the 2-mode tensor with `c = sgn · ρ²`, `ρ = 3`, `sgn = -1`, i.e. `c = -9` -/
example : (exV.padC [some 4, Option.none] 3 (-1)).dense [3, 1] = -9 := by
  have := padC_dense exV [some 4, Option.none] 3 (-1) (-9) exV_wf rfl
    (by simp [padGE, exV, Tensor.shape, TMode.n, Core.spatial]) (by simp [exV]) [3, 1] rfl
  simpa [padInside, exV, Tensor.shape, TMode.n, Core.spatial] using this

example : (exV.padC [some 4, Option.none] 3 (-1)).dense [2, 1] = exV.dense [2, 1] := by
  have := padC_dense exV [some 4, Option.none] 3 (-1) (-9) exV_wf rfl
    (by simp [padGE, exV, Tensor.shape, TMode.n, Core.spatial]) (by simp [exV]) [2, 1] rfl
  simpa [padInside, exV, Tensor.shape, TMode.n, Core.spatial] using this
end padC

end TN.C12
