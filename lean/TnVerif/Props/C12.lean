import TnVerif.Lemmas.Tools
import TnVerif.Props.C01
import TnVerif.Props.C02
/-!
# C12 — array-manipulation and creation routines match their NumPy/PyTorch counterparts

Every routine that acts on the spatial index of single modes is `Tensor.linModes` with a specific
matrix per mode; `linModes_dense` is the general theorem (tensor-times-matrix products along any
modes), the others are instances: gathers (flip, tiling, slicing) re-index the array, `cumsum`
applies the lower-triangular ones matrix, zero padding / concatenation embed in zeros.
-/
namespace TN.C12
open TN Finset
variable {R : Type} [CommSemiring R]

/-- **tensor-times-matrix along any modes** (`tn.ttm`, and with it `sum`, `mean`, ...): the dense
    array is multiplied mode by mode (`applyMaps`), untouched modes keep their index. -/
theorem linModes_dense (t : Tensor R) (maps : List (Option (Nat × (Nat → Nat → R)))) (idx : List Nat)
    (hl : maps.length = t.length) (hi : idx.length = t.length) :
    (t.ttm maps).dense idx = applyMaps maps t.shape t.dense idx :=
  dense_linModes t maps idx hl hi

/-- **gathers**: index maps applied to modes (flip, repeat/tiling, slicing with any step) re-index the array -/
theorem gather_dense (t : Tensor R) (rows : List Nat) (φs : List (Option (Nat → Nat))) (idx : List Nat)
    (hr : rows.length = φs.length) (hl : φs.length = t.length) (hi : idx.length = t.length)
    (hok : selOK φs t.shape idx) :
    (t.linModes (selMaps rows φs)).dense idx = t.dense (selIdx φs idx) := by
  unfold Tensor.dense
  rw [dense_linModes t _ idx (by simp [selMaps, hr, hl]) hi]
  exact applyMaps_sel φs rows t.shape idx _ hr hok

/-- `tn.flip` is the gather with `i ↦ n − 1 − i` on the flipped modes -/
theorem flip_eq_gather (t : Tensor R) : ∀ dims : List Bool,
    t.flip dims = t.linModes (selMaps t.shape (List.zipWith (fun b n => if b then some (fun i => n - 1 - i) else Option.none) dims t.shape)) := by
  intro dims
  unfold Tensor.flip
  congr 1
  induction t generalizing dims with
  | nil => cases dims <;> simp [selMaps, Tensor.shape]
  | cons m ms ih =>
    cases dims with
    | nil => simp [selMaps]
    | cons b bs =>
      simp only [List.zipWith_cons_cons, Tensor.shape, List.map_cons, selMaps]
      congr 1
      · cases b
        · simp
        · simp only [if_true, Option.map_some]; rfl
      · exact ih bs

/-- `tn.cumsum`: along each selected mode the array is multiplied by the lower-triangular ones matrix,
    i.e. entry `i` becomes `Σ_{j ≤ i}` -/
theorem cumsum_dense (t : Tensor R) (dims : List Bool) (idx : List Nat) (hd : dims.length = t.length)
    (hi : idx.length = t.length) :
    (t.cumsum dims).dense idx =
      applyMaps (List.zipWith (fun b m => if b then some (m.n, cumsumL) else Option.none) dims t) t.shape t.dense idx := by
  unfold Tensor.cumsum Tensor.dense
  exact dense_linModes t _ idx (by simp [hd]) hi

/-- `tn.pad` with zeros: the array embedded in a larger box of zeros -/
theorem pad0_dense (t : Tensor R) (sizes : List (Option Nat)) (idx : List Nat) (hd : sizes.length = t.length)
    (hi : idx.length = t.length) :
    (t.pad0 sizes).dense idx =
      applyMaps (List.zipWith (fun s m => s.map fun n' => (n', embedL 0 m.n)) sizes t) t.shape t.dense idx := by
  unfold Tensor.pad0 Tensor.dense
  exact dense_linModes t _ idx (by simp [hd]) hi

/-- the embedding matrix picks entry `i` inside the original extent and gives `0` in the padding -/
theorem embed_row (n i : Nat) (g : Nat → R) : (∑ j ∈ range n, embedL (R := R) 0 n i j * g j) = if i < n then g i else 0 := by
  by_cases h : i < n
  · rw [Finset.sum_eq_single i]
    · simp [embedL, h]
    · intro j _ hj; simp [embedL, Ne.symm hj]
    · intro hh; exact absurd (Finset.mem_range.mpr h) hh
  · simp only [h, if_false]
    apply Finset.sum_eq_zero
    intro j hj
    have := Finset.mem_range.mp hj
    simp [embedL]; omega

/-- `tn.eye(n, m)` is the identity matrix -/
theorem eye_dense (n m i j : Nat) (hj : j < m) : (Tensor.eye (R := R) n m).dense [i, j] = if i = j then 1 else 0 := by
  simp only [Tensor.eye, Tensor.dense, Tensor.modes, List.map_cons, List.map_nil, dense, tail, sumTo_eq, TMode.toMode_rl,
    TMode.toMode_rr, TMode.toMode_G, TMode.decomp_none, Core.tt_rl, Core.tt_rr, Core.tt_get, Finset.sum_range_one, mul_one]
  by_cases hij : i = j
  · subst hij
    rw [Finset.sum_eq_single i]
    · simp
    · intro b _ hb; simp [Ne.symm hb]
    · intro hh; exact absurd (Finset.mem_range.mpr hj) hh
  · simp only [hij, if_false]
    apply Finset.sum_eq_zero
    intro b _
    by_cases h1 : i = b
    · subst h1; simp [hij]
    · simp [h1]

/-- `ones / zeros / full` (and the scalar operand of `+`) are constant -/
theorem full_dense (c : R) (shape idx : List Nat) (hne : shape ≠ []) (hi : idx.length = shape.length) :
    (Tensor.constLike c shape).dense idx = c :=
  dense_constLike c shape idx hne hi

/-- transposition of the mode order (proved in C01) -/
theorem transpose_dense (t : Tensor R) (ht : t.WF) (idx : List Nat) (hi : idx.length = t.length) :
    t.transpose.dense idx.reverse = t.dense idx := C01.transpose_dense t ht idx hi

end TN.C12
