import TnVerif.Props.C06
import TnVerif.Props.C10
/-!
# C09 — Sobol indices equal their variance-decomposition definition

`sobol` returns `dot(a, am ⊙ mask) / dot(a, am)` where `a` is the ANOVA-extended tensor with its
empty term removed and `am` is `a` with the non-empty rows weighted by the marginals.  With C06
(`dot` is the sum of products), C02 (`⊙` is element-wise) and C10 (`a` holds the ANOVA terms,
`anova_dense`), numerator and denominator are the mask-weighted and the total sum of `a(j)·am(j)` over
the extended index box — the variance components.
-/
namespace TN.C09
open TN Finset
variable {R : Type}

/-- numerator: `dot(a, am ⊙ mask) = Σ_j a(j) · am(j) · mask(j)` over the extended index box -/
theorem sobol_numerator [CommSemiring R] (a am mk : Tensor R) (ha : a.WF) (hm : am.WF) (hk : mk.WF)
    (h1 : a.shape = am.shape) (h2 : am.shape = mk.shape) :
    a.dot (am.mul mk) = boxSum a.shape (fun j => a.dense j * (am.dense j * mk.dense j)) := by
  obtain ⟨w, s⟩ := C02.mul_wf_shape am mk hm hk h2
  rw [C06.dot_eq a _ ha w (by rw [s, h1])]
  congr 1; funext j
  rw [C02.mul_dense am mk hm hk h2]

/-- denominator: `dot(a, am) = Σ_j a(j) · am(j)` (the total variance once the empty term is removed) -/
theorem sobol_denominator [CommSemiring R] (a am : Tensor R) (ha : a.WF) (hm : am.WF) (h1 : a.shape = am.shape) :
    a.dot am = boxSum a.shape (fun j => a.dense j * am.dense j) :=
  C06.dot_eq a am ha hm h1

/-- **additivity over masks**: the numerator of the sum of two masks is the sum of the numerators
    (indices of disjoint 0/1 masks add up) -/
theorem sobol_additive [CommSemiring R] (a am m1 m2 : Tensor R) (ha : a.WF) (hm : am.WF) (h1w : m1.WF) (h2w : m2.WF)
    (h1 : a.shape = am.shape) (h2 : am.shape = m1.shape) (h3 : m1.shape = m2.shape) :
    a.dot (am.mul (m1.add m2)) = a.dot (am.mul m1) + a.dot (am.mul m2) := by
  obtain ⟨w12, s12⟩ := C02.add_wf_shape m1 m2 h1w h2w h3
  rw [sobol_numerator a am _ ha hm w12 h1 (by rw [s12, h2]), sobol_numerator a am m1 ha hm h1w h1 h2,
    sobol_numerator a am m2 ha hm h2w h1 (by rw [h2, h3]), ← boxSum_add]
  congr 1; funext j
  rw [C02.add_dense m1 m2 h1w h2w h3]; ring

/-- **the mask "any variable"** (all ones on the extended box): numerator = denominator, index 1 -/
theorem sobol_all_ones [CommSemiring R] (a am mk : Tensor R) (ha : a.WF) (hm : am.WF) (hk : mk.WF)
    (h1 : a.shape = am.shape) (h2 : am.shape = mk.shape) (hone : ∀ j, mk.dense j = 1) :
    a.dot (am.mul mk) = a.dot am := by
  rw [sobol_numerator a am mk ha hm hk h1 h2, sobol_denominator a am ha hm h1]
  congr 1; funext j; rw [hone j, mul_one]

/-- **marginals that do not sum to 1** give the same decomposition as their normalised version (the
    operator only sees `w / Σ w`) -/
theorem marginal_scale_invariant [Field R] (I : Nat) (w : Nat → R) (c : R) (hc : c ≠ 0) :
    anovaL I (normW I (fun k => c * w k)) = anovaL I (normW I w) := by
  funext r j
  simp only [anovaL, C10.normW_scale I w c hc]


/-! ### the extended tensor's weighted squares ARE the variance components (Parseval for the ANOVA operator) -/
section parseval
variable [Field R]

/-- `Π_n w_n(x_n)` : the product measure -/
def prodW : List (Nat → R) → List Nat → R
  | w :: ws, x :: xs => w x * prodW ws xs
  | _, _ => 1

/-- weights on the extended box: index 0 (variable integrated out) has weight 1, index `i+1` has weight `w(i)` —
    what `sobol` multiplies into `am` (`am.cores[n][:, 1:, :] *= m`) -/
def extW : List (Nat → R) → List Nat → R
  | w :: ws, j :: js => (if j = 0 then 1 else w (j - 1)) * extW ws js
  | _, _ => 1

/-- the ANOVA operator on every mode -/
def anovaMaps : List (Nat → R) → List Nat → List (Option (Nat × (Nat → Nat → R)))
  | w :: ws, n :: ns => some (n + 1, anovaL n w) :: anovaMaps ws ns
  | _, _ => []

/-- every weight vector sums to 1 over its mode -/
def Normalized : List (Nat → R) → List Nat → Prop
  | w :: ws, n :: ns => (∑ i ∈ range n, w i) = 1 ∧ Normalized ws ns
  | [], [] => True
  | _, _ => False

/-- one mode: `E[uv] = E[u]E[v] + E[(u−Eu)(v−Ev)]`, i.e. `Aᵀ·diag(1,w)·A = diag(w)` -/
theorem mode_parseval (n : Nat) (w : Nat → R) (hw : (∑ i ∈ range n, w i) = 1) (u v : Nat → R) :
    (∑ i ∈ range (n + 1), (if i = 0 then 1 else w (i - 1)) *
        ((∑ j ∈ range n, anovaL n w i j * u j) * (∑ j ∈ range n, anovaL n w i j * v j)))
      = ∑ j ∈ range n, w j * (u j * v j) := by
  rw [Finset.sum_range_succ']
  simp only [C10.anovaL_row, Nat.add_one_ne_zero, if_false, if_true, Nat.add_sub_cancel, one_mul]
  have e : ∀ i ∈ range n, w i * (((if i < n then u i else 0) - ∑ j ∈ range n, w j * u j) * ((if i < n then v i else 0) - ∑ j ∈ range n, w j * v j))
      = w i * (u i * v i) - (∑ j ∈ range n, w j * v j) * (w i * u i) - (∑ j ∈ range n, w j * u j) * (w i * v i)
        + (∑ j ∈ range n, w j * u j) * (∑ j ∈ range n, w j * v j) * w i := by
    intro i hi; simp only [Finset.mem_range.mp hi, if_true]; ring
  rw [Finset.sum_congr rfl e, Finset.sum_add_distrib, Finset.sum_sub_distrib, Finset.sum_sub_distrib,
    ← Finset.mul_sum, ← Finset.mul_sum, ← Finset.mul_sum, hw]
  ring

/-- **Parseval for the ANOVA transform**: the weighted inner product of two functions on the box equals the
    `extW`-weighted inner product of their extended (ANOVA) arrays -/
theorem anova_parseval : ∀ (ws : List (Nat → R)) (ns : List Nat) (f g : List Nat → R), Normalized ws ns →
    boxSum ns (fun x => prodW ws x * (f x * g x))
      = boxSum (ns.map (· + 1)) (fun j => extW ws j *
          (applyMaps (anovaMaps ws ns) ns f j * applyMaps (anovaMaps ws ns) ns g j)) := by
  intro ws
  induction ws with
  | nil =>
    intro ns f g h
    cases ns with
    | nil => simp [boxSum, prodW, extW, anovaMaps, applyMaps]
    | cons _ _ => simp [Normalized] at h
  | cons w ws ih =>
    intro ns f g h
    cases ns with
    | nil => simp [Normalized] at h
    | cons n ns =>
      obtain ⟨hw, hrest⟩ := h
      simp only [List.map_cons, boxSum, sumTo_eq, prodW, extW, anovaMaps, applyMaps]
      -- left: pull w x out and use the induction hypothesis for the slices
      have eL : ∀ x ∈ range n, boxSum ns (fun is => w x * prodW ws is * (f (x :: is) * g (x :: is)))
          = w x * boxSum (ns.map (· + 1)) (fun js => extW ws js *
              (applyMaps (anovaMaps ws ns) ns (fun ks => f (x :: ks)) js * applyMaps (anovaMaps ws ns) ns (fun ks => g (x :: ks)) js)) := by
        intro x _
        rw [← ih ns (fun ks => f (x :: ks)) (fun ks => g (x :: ks)) hrest, ← boxSum_mul_left]
        apply boxSum_congr; intro is; ring
      rw [Finset.sum_congr rfl eL]
      -- right: exchange the sum over the extended index with the box sum, then one-mode Parseval pointwise
      rw [← boxSum_sum]
      have eR : (fun is => ∑ x ∈ range (n + 1), (if x = 0 then 1 else w (x - 1)) * extW ws is *
            ((∑ j ∈ range n, anovaL n w x j * applyMaps (anovaMaps ws ns) ns (fun js => f (j :: js)) is) *
             (∑ j ∈ range n, anovaL n w x j * applyMaps (anovaMaps ws ns) ns (fun js => g (j :: js)) is)))
          = (fun is => ∑ j ∈ range n, w j * (extW ws is *
              (applyMaps (anovaMaps ws ns) ns (fun ks => f (j :: ks)) is * applyMaps (anovaMaps ws ns) ns (fun ks => g (j :: ks)) is))) := by
        funext is
        have := mode_parseval n w hw (fun j => applyMaps (anovaMaps ws ns) ns (fun ks => f (j :: ks)) is)
          (fun j => applyMaps (anovaMaps ws ns) ns (fun ks => g (j :: ks)) is)
        have e1 : ∀ x ∈ range (n + 1), (if x = 0 then 1 else w (x - 1)) * extW ws is *
            ((∑ j ∈ range n, anovaL n w x j * applyMaps (anovaMaps ws ns) ns (fun js => f (j :: js)) is) *
             (∑ j ∈ range n, anovaL n w x j * applyMaps (anovaMaps ws ns) ns (fun js => g (j :: js)) is))
            = extW ws is * ((if x = 0 then 1 else w (x - 1)) *
            ((∑ j ∈ range n, anovaL n w x j * applyMaps (anovaMaps ws ns) ns (fun js => f (j :: js)) is) *
             (∑ j ∈ range n, anovaL n w x j * applyMaps (anovaMaps ws ns) ns (fun js => g (j :: js)) is))) := by
          intro x _; ring
        rw [Finset.sum_congr rfl e1, ← Finset.mul_sum, this, Finset.mul_sum]
        apply Finset.sum_congr rfl; intro j _; ring
      rw [eR, boxSum_sum]
      apply Finset.sum_congr rfl; intro j _
      rw [boxSum_mul_left]

/-- the all-zero extended index holds the mean: `a(0,…,0) = E_w[f]` -/
theorem anova_mean : ∀ (ws : List (Nat → R)) (ns : List Nat) (f : List Nat → R), ws.length = ns.length →
    applyMaps (anovaMaps ws ns) ns f (List.replicate ns.length 0) = boxSum ns (fun x => prodW ws x * f x) := by
  intro ws
  induction ws with
  | nil => intro ns f h; cases ns with
    | nil => simp [anovaMaps, applyMaps, boxSum, prodW]
    | cons _ _ => simp at h
  | cons w ws ih =>
    intro ns f h
    cases ns with
    | nil => simp at h
    | cons n ns =>
      simp only [anovaMaps, List.length_cons, List.replicate_succ, applyMaps, boxSum, sumTo_eq, prodW]
      apply Finset.sum_congr rfl; intro j _
      rw [ih ns (fun js => f (j :: js)) (by simpa using h), ← boxSum_mul_left]
      simp only [anovaL, if_true]
      apply boxSum_congr; intro is; ring

/-- **the total of the extended array's weighted squares is the second moment**, hence (with `anova_mean`)
    removing the empty term leaves the VARIANCE: `Σ_{j≠0} W(j)·a(j)² = E[f²] − (E f)²` — the denominator of `sobol` -/
theorem second_moment (ws : List (Nat → R)) (ns : List Nat) (f : List Nat → R) (h : Normalized ws ns) :
    boxSum (ns.map (· + 1)) (fun j => extW ws j * (applyMaps (anovaMaps ws ns) ns f j) ^ 2)
      = boxSum ns (fun x => prodW ws x * f x ^ 2) := by
  rw [show (fun x => prodW ws x * f x ^ 2) = (fun x => prodW ws x * (f x * f x)) from by funext x; rw [sq],
    anova_parseval ws ns f f h]
  apply boxSum_congr; intro j; rw [sq]

end parseval

end TN.C09
