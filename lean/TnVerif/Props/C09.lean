import TnVerif.Props.C06
import TnVerif.Props.C10
/-!
# C09 — Sobol indices equal their variance-decomposition definition

`sobol` returns `dot(a, am ⊙ mask) / dot(a, am)` where `a` is the ANOVA-extended tensor with its
empty term removed and `am` is `a` with the non-empty rows weighted by the marginals.  With C06
(`dot` is the sum of products), C02 (`⊙` is element-wise) and C10 (`a` holds the ANOVA terms,
`anova_dense`), numerator and denominator are the mask-weighted and the total sum of `a(j)·am(j)` over
the extended index box — the variance components.
-/
namespace TN.C09
open TN Finset
variable {R : Type}

/-- numerator: `dot(a, am ⊙ mask) = Σ_j a(j) · am(j) · mask(j)` over the extended index box -/
theorem sobol_numerator [CommSemiring R] (a am mk : Tensor R) (ha : a.WF) (hm : am.WF) (hk : mk.WF)
    (h1 : a.shape = am.shape) (h2 : am.shape = mk.shape) :
    a.dot (am.mul mk) = boxSum a.shape (fun j => a.dense j * (am.dense j * mk.dense j)) := by
  obtain ⟨w, s⟩ := C02.mul_wf_shape am mk hm hk h2
  rw [C06.dot_eq a _ ha w (by rw [s, h1])]
  congr 1; funext j
  rw [C02.mul_dense am mk hm hk h2]

/-- denominator: `dot(a, am) = Σ_j a(j) · am(j)` (the total variance once the empty term is removed) -/
theorem sobol_denominator [CommSemiring R] (a am : Tensor R) (ha : a.WF) (hm : am.WF) (h1 : a.shape = am.shape) :
    a.dot am = boxSum a.shape (fun j => a.dense j * am.dense j) :=
  C06.dot_eq a am ha hm h1

/-- **additivity over masks**: the numerator of the sum of two masks is the sum of the numerators
    (indices of disjoint 0/1 masks add up) -/
theorem sobol_additive [CommSemiring R] (a am m1 m2 : Tensor R) (ha : a.WF) (hm : am.WF) (h1w : m1.WF) (h2w : m2.WF)
    (h1 : a.shape = am.shape) (h2 : am.shape = m1.shape) (h3 : m1.shape = m2.shape) :
    a.dot (am.mul (m1.add m2)) = a.dot (am.mul m1) + a.dot (am.mul m2) := by
  obtain ⟨w12, s12⟩ := C02.add_wf_shape m1 m2 h1w h2w h3
  rw [sobol_numerator a am _ ha hm w12 h1 (by rw [s12, h2]), sobol_numerator a am m1 ha hm h1w h1 h2,
    sobol_numerator a am m2 ha hm h2w h1 (by rw [h2, h3]), ← boxSum_add]
  congr 1; funext j
  rw [C02.add_dense m1 m2 h1w h2w h3]; ring

/-- **the mask "any variable"** (all ones on the extended box): numerator = denominator, index 1 -/
theorem sobol_all_ones [CommSemiring R] (a am mk : Tensor R) (ha : a.WF) (hm : am.WF) (hk : mk.WF)
    (h1 : a.shape = am.shape) (h2 : am.shape = mk.shape) (hone : ∀ j, mk.dense j = 1) :
    a.dot (am.mul mk) = a.dot am := by
  rw [sobol_numerator a am mk ha hm hk h1 h2, sobol_denominator a am ha hm h1]
  congr 1; funext j; rw [hone j, mul_one]

/-- **marginals that do not sum to 1** give the same decomposition as their normalised version (the
    operator only sees `w / Σ w`) -/
theorem marginal_scale_invariant [Field R] (I : Nat) (w : Nat → R) (c : R) (hc : c ≠ 0) :
    anovaL I (normW I (fun k => c * w k)) = anovaL I (normW I w) := by
  funext r j
  simp only [anovaL, C10.normW_scale I w c hc]

end TN.C09
