import TnVerif.Props.C06
import TnVerif.Props.C10
import TnVerif.Lemmas.Sobol
import TnVerif.Lemmas.SobolOpen
import TnVerif.Props.C16
import TnVerif.Lemmas.PartialSet
import TnVerif.Model.DimDistMask
import TnVerif.Lemmas.DimDistMask
/-!
# C09 — Sobol indices equal their variance-decomposition definition

`sobol` returns `dot(a, am ⊙ mask) / dot(a, am)` where `a` is the ANOVA-extended tensor with its
empty term removed and `am` is `a` with the non-empty rows weighted by the marginals.  With C06
(`dot` is the sum of products), C02 (`⊙` is element-wise) and C10 (`a` holds the ANOVA terms,
`anova_dense`), numerator and denominator are the mask-weighted and the total sum of `a(j)·am(j)` over
the extended index box — the variance components.
-/
namespace TN.C09
open TN Finset
variable {R : Type}

/-- numerator: `dot(a, am ⊙ mask) = Σ_j a(j) · am(j) · mask(j)` over the extended index box -/
theorem sobol_numerator [CommSemiring R] (a am mk : Tensor R) (ha : a.WF) (hm : am.WF) (hk : mk.WF)
    (h1 : a.shape = am.shape) (h2 : am.shape = mk.shape) :
    a.dot (am.mul mk) = boxSum a.shape (fun j => a.dense j * (am.dense j * mk.dense j)) := by
  obtain ⟨w, s⟩ := C02.mul_wf_shape am mk hm hk h2
  rw [C06.dot_eq a _ ha w (by rw [s, h1])]
  congr 1; funext j
  rw [C02.mul_dense am mk hm hk h2]

/-- denominator: `dot(a, am) = Σ_j a(j) · am(j)` (the total variance once the empty term is removed) -/
theorem sobol_denominator [CommSemiring R] (a am : Tensor R) (ha : a.WF) (hm : am.WF) (h1 : a.shape = am.shape) :
    a.dot am = boxSum a.shape (fun j => a.dense j * am.dense j) :=
  C06.dot_eq a am ha hm h1

/-- **additivity over masks**: the numerator of the sum of two masks is the sum of the numerators
    (indices of disjoint 0/1 masks add up) -/
theorem sobol_additive [CommSemiring R] (a am m1 m2 : Tensor R) (ha : a.WF) (hm : am.WF) (h1w : m1.WF) (h2w : m2.WF)
    (h1 : a.shape = am.shape) (h2 : am.shape = m1.shape) (h3 : m1.shape = m2.shape) :
    a.dot (am.mul (m1.add m2)) = a.dot (am.mul m1) + a.dot (am.mul m2) := by
  obtain ⟨w12, s12⟩ := C02.add_wf_shape m1 m2 h1w h2w h3
  rw [sobol_numerator a am _ ha hm w12 h1 (by rw [s12, h2]), sobol_numerator a am m1 ha hm h1w h1 h2,
    sobol_numerator a am m2 ha hm h2w h1 (by rw [h2, h3]), ← boxSum_add]
  congr 1; funext j
  rw [C02.add_dense m1 m2 h1w h2w h3]; ring

/-- **the mask "any variable"** (all ones on the extended box): numerator = denominator, index 1 -/
theorem sobol_all_ones [CommSemiring R] (a am mk : Tensor R) (ha : a.WF) (hm : am.WF) (hk : mk.WF)
    (h1 : a.shape = am.shape) (h2 : am.shape = mk.shape) (hone : ∀ j, mk.dense j = 1) :
    a.dot (am.mul mk) = a.dot am := by
  rw [sobol_numerator a am mk ha hm hk h1 h2, sobol_denominator a am ha hm h1]
  congr 1; funext j; rw [hone j, mul_one]

/-- **marginals that do not sum to 1** give the same decomposition as their normalised version (the
    operator only sees `w / Σ w`) -/
theorem marginal_scale_invariant [Field R] (I : Nat) (w : Nat → R) (c : R) (hc : c ≠ 0) :
    anovaL I (normW I (fun k => c * w k)) = anovaL I (normW I w) := by
  funext r j
  simp only [anovaL, C10.normW_scale I w c hc]


/-! ### the extended tensor's weighted squares ARE the variance components (Parseval for the ANOVA operator) -/
section parseval
variable [Field R]

/-- `Π_n w_n(x_n)` : the product measure -/
def prodW : List (Nat → R) → List Nat → R
  | w :: ws, x :: xs => w x * prodW ws xs
  | _, _ => 1

/-- weights on the extended box: index 0 (variable integrated out) has weight 1, index `i+1` has weight `w(i)` —
    what `sobol` multiplies into `am` (`am.cores[n][:, 1:, :] *= m`) -/
def extW : List (Nat → R) → List Nat → R
  | w :: ws, j :: js => (if j = 0 then 1 else w (j - 1)) * extW ws js
  | _, _ => 1

/-- the ANOVA operator on every mode -/
def anovaMaps : List (Nat → R) → List Nat → List (Option (Nat × (Nat → Nat → R)))
  | w :: ws, n :: ns => some (n + 1, anovaL n w) :: anovaMaps ws ns
  | _, _ => []

/-- every weight vector sums to 1 over its mode -/
def Normalized : List (Nat → R) → List Nat → Prop
  | w :: ws, n :: ns => (∑ i ∈ range n, w i) = 1 ∧ Normalized ws ns
  | [], [] => True
  | _, _ => False

/-- one mode: `E[uv] = E[u]E[v] + E[(u−Eu)(v−Ev)]`, i.e. `Aᵀ·diag(1,w)·A = diag(w)` -/
theorem mode_parseval (n : Nat) (w : Nat → R) (hw : (∑ i ∈ range n, w i) = 1) (u v : Nat → R) :
    (∑ i ∈ range (n + 1), (if i = 0 then 1 else w (i - 1)) *
        ((∑ j ∈ range n, anovaL n w i j * u j) * (∑ j ∈ range n, anovaL n w i j * v j)))
      = ∑ j ∈ range n, w j * (u j * v j) := by
  rw [Finset.sum_range_succ']
  simp only [C10.anovaL_row, Nat.add_one_ne_zero, if_false, if_true, Nat.add_sub_cancel, one_mul]
  have e : ∀ i ∈ range n, w i * (((if i < n then u i else 0) - ∑ j ∈ range n, w j * u j) * ((if i < n then v i else 0) - ∑ j ∈ range n, w j * v j))
      = w i * (u i * v i) - (∑ j ∈ range n, w j * v j) * (w i * u i) - (∑ j ∈ range n, w j * u j) * (w i * v i)
        + (∑ j ∈ range n, w j * u j) * (∑ j ∈ range n, w j * v j) * w i := by
    intro i hi; simp only [Finset.mem_range.mp hi, if_true]; ring
  rw [Finset.sum_congr rfl e, Finset.sum_add_distrib, Finset.sum_sub_distrib, Finset.sum_sub_distrib,
    ← Finset.mul_sum, ← Finset.mul_sum, ← Finset.mul_sum, hw]
  ring

/-- **Parseval for the ANOVA transform**: the weighted inner product of two functions on the box equals the
    `extW`-weighted inner product of their extended (ANOVA) arrays -/
theorem anova_parseval : ∀ (ws : List (Nat → R)) (ns : List Nat) (f g : List Nat → R), Normalized ws ns →
    boxSum ns (fun x => prodW ws x * (f x * g x))
      = boxSum (ns.map (· + 1)) (fun j => extW ws j *
          (applyMaps (anovaMaps ws ns) ns f j * applyMaps (anovaMaps ws ns) ns g j)) := by
  intro ws
  induction ws with
  | nil =>
    intro ns f g h
    cases ns with
    | nil => simp [boxSum, prodW, extW, anovaMaps, applyMaps]
    | cons _ _ => simp [Normalized] at h
  | cons w ws ih =>
    intro ns f g h
    cases ns with
    | nil => simp [Normalized] at h
    | cons n ns =>
      obtain ⟨hw, hrest⟩ := h
      simp only [List.map_cons, boxSum, sumTo_eq, prodW, extW, anovaMaps, applyMaps]
      -- left: pull w x out and use the induction hypothesis for the slices
      have eL : ∀ x ∈ range n, boxSum ns (fun is => w x * prodW ws is * (f (x :: is) * g (x :: is)))
          = w x * boxSum (ns.map (· + 1)) (fun js => extW ws js *
              (applyMaps (anovaMaps ws ns) ns (fun ks => f (x :: ks)) js * applyMaps (anovaMaps ws ns) ns (fun ks => g (x :: ks)) js)) := by
        intro x _
        rw [← ih ns (fun ks => f (x :: ks)) (fun ks => g (x :: ks)) hrest, ← boxSum_mul_left]
        apply boxSum_congr; intro is; ring
      rw [Finset.sum_congr rfl eL]
      -- right: exchange the sum over the extended index with the box sum, then one-mode Parseval pointwise
      rw [← boxSum_sum]
      have eR : (fun is => ∑ x ∈ range (n + 1), (if x = 0 then 1 else w (x - 1)) * extW ws is *
            ((∑ j ∈ range n, anovaL n w x j * applyMaps (anovaMaps ws ns) ns (fun js => f (j :: js)) is) *
             (∑ j ∈ range n, anovaL n w x j * applyMaps (anovaMaps ws ns) ns (fun js => g (j :: js)) is)))
          = (fun is => ∑ j ∈ range n, w j * (extW ws is *
              (applyMaps (anovaMaps ws ns) ns (fun ks => f (j :: ks)) is * applyMaps (anovaMaps ws ns) ns (fun ks => g (j :: ks)) is))) := by
        funext is
        have := mode_parseval n w hw (fun j => applyMaps (anovaMaps ws ns) ns (fun ks => f (j :: ks)) is)
          (fun j => applyMaps (anovaMaps ws ns) ns (fun ks => g (j :: ks)) is)
        have e1 : ∀ x ∈ range (n + 1), (if x = 0 then 1 else w (x - 1)) * extW ws is *
            ((∑ j ∈ range n, anovaL n w x j * applyMaps (anovaMaps ws ns) ns (fun js => f (j :: js)) is) *
             (∑ j ∈ range n, anovaL n w x j * applyMaps (anovaMaps ws ns) ns (fun js => g (j :: js)) is))
            = extW ws is * ((if x = 0 then 1 else w (x - 1)) *
            ((∑ j ∈ range n, anovaL n w x j * applyMaps (anovaMaps ws ns) ns (fun js => f (j :: js)) is) *
             (∑ j ∈ range n, anovaL n w x j * applyMaps (anovaMaps ws ns) ns (fun js => g (j :: js)) is))) := by
          intro x _; ring
        rw [Finset.sum_congr rfl e1, ← Finset.mul_sum, this, Finset.mul_sum]
        apply Finset.sum_congr rfl; intro j _; ring
      rw [eR, boxSum_sum]
      apply Finset.sum_congr rfl; intro j _
      rw [boxSum_mul_left]

/-- the all-zero extended index holds the mean: `a(0,…,0) = E_w[f]` -/
theorem anova_mean : ∀ (ws : List (Nat → R)) (ns : List Nat) (f : List Nat → R), ws.length = ns.length →
    applyMaps (anovaMaps ws ns) ns f (List.replicate ns.length 0) = boxSum ns (fun x => prodW ws x * f x) := by
  intro ws
  induction ws with
  | nil => intro ns f h; cases ns with
    | nil => simp [anovaMaps, applyMaps, boxSum, prodW]
    | cons _ _ => simp at h
  | cons w ws ih =>
    intro ns f h
    cases ns with
    | nil => simp at h
    | cons n ns =>
      simp only [anovaMaps, List.length_cons, List.replicate_succ, applyMaps, boxSum, sumTo_eq, prodW]
      apply Finset.sum_congr rfl; intro j _
      rw [ih ns (fun js => f (j :: js)) (by simpa using h), ← boxSum_mul_left]
      simp only [anovaL, if_true]
      apply boxSum_congr; intro is; ring

/-- **the total of the extended array's weighted squares is the second moment**, hence (with `anova_mean`)
    removing the empty term leaves the VARIANCE: `Σ_{j≠0} W(j)·a(j)² = E[f²] − (E f)²` — the denominator of `sobol` -/
theorem second_moment (ws : List (Nat → R)) (ns : List Nat) (f : List Nat → R) (h : Normalized ws ns) :
    boxSum (ns.map (· + 1)) (fun j => extW ws j * (applyMaps (anovaMaps ws ns) ns f j) ^ 2)
      = boxSum ns (fun x => prodW ws x * f x ^ 2) := by
  rw [show (fun x => prodW ws x * f x ^ 2) = (fun x => prodW ws x * (f x * f x)) from by funext x; rw [sq],
    anova_parseval ws ns f f h]
  apply boxSum_congr; intro j; rw [sq]

end parseval

/-! ## the whole routine `tn.sobol` (extension): model `Tensor.sobol` of `Model/Sobol.lean` -/
/-- `a[(0,) * N]` on a well-formed tensor without empty modes: the indexing state machine never fails and returns the
    scalar entry at the all-zero index -/
theorem getitem_zero [CommSemiring R] (u : Tensor R) (hu : u.WF) (hpos : ∀ n ∈ u.shape, 0 < n) :
    u.getitem (squeezeKey (allDims u)) = .ok (.inr (u.dense (List.replicate u.length 0))) := by
  have hd : (allDims u).length = u.length := allDims_length u
  have hall : (allDims u).all id = true := allDims_all u
  have hp : processKey u.length (squeezeKey (allDims u)) = .ok (squeezeKey (allDims u)) := by
    rw [← hd]; exact processKey_squeeze (allDims u)
  have hsl : (allDims u).length = u.shape.length := by rw [shape_length]; exact hd
  have hn : normKey (squeezeKey (allDims u)) u.shape = .ok (sqItems (allDims u) u.shape) := by
    rw [allDims_eq]; exact sobol_normKey_zero u.shape hpos
  obtain ⟨sobolLastRR, hfin⟩ := getitem_unfold u _ _ _ hp hn
  obtain ⟨r, hr1, hr2, hr3⟩ := goKey_sq (R := R) sobolLastRR (allDims u) u false Option.none hd
  rw [← groupKey_sq] at hr1
  have hg := hfin r hr1
  have hkl := keepShape_length (allDims u) u.shape hsl
  have hks := (keepShape_eq_nil (allDims u) u.shape hsl).mpr hall
  have hk : r.1 = [] := by rw [hks] at hr2; simpa [Tensor.shape] using hr2
  have hkc : keepCount (allDims u) = 0 := by rw [← hkl, hks]; rfl
  have hne : allDims u ≠ [] := by
    intro h
    cases u with
    | nil => simp [Tensor.WF] at hu
    | cons _ _ => simp [allDims] at h
  obtain ⟨l, q⟩ := r
  simp only at hk; subst hk
  have hq := hr3 rfl (Or.inr hne)
  cases q with
  | none => simp at hq
  | some q =>
    simp only [finishKey] at hg
    have hf : fits (groupKey (sqItems (allDims u) u.shape)) u.length 0 := by
      rw [groupKey_sq, ← hd, ← hkc]; exact fits_sq (allDims u) u.shape hsl
    have hx := C03.getitem_scalar u hu _ _ _ hp hn q.total hg hf
    rw [hg, hx, groupKey_sq, srcIdx_sq (allDims u) u.shape [] hsl (by simp [hkc]), fillIdx_all (allDims u) hall, hd]


section pipeline
variable [Field R]

/-- the normalised marginal of every mode as `sobol` uses it: `m / torch.sum(m)` with `m` the given vector, or the
    vector of ones for `None` (anova.py:136-140) -/
def margsN : List Nat → List (Option (Nat → R)) → List (Nat → R)
  | I :: Is, o :: os => normW I (sobolMargS o) :: margsN Is os
  | _, _ => []

theorem margsN_length : ∀ (ns : List Nat) (margs : List (Option (Nat → R))), margs.length = ns.length →
    (margsN ns margs).length = ns.length := by
  intro ns
  induction ns with
  | nil => intro margs _; cases margs <;> rfl
  | cons n ns ih =>
    intro margs h
    cases margs with
    | nil => simp at h
    | cons o os => simp [margsN, ih os (by simpa using h)]

/-- the operator list `anova_decomposition` applies, in terms of the normalised marginals (`None` ↦ uniform) -/
theorem anovaOpt_maps (t : Tensor R) : ∀ (margs : List (Option (Nat → R))), margs.length = t.length →
    List.zipWith (fun w (m : TMode R) => some (m.n + 1, anovaL m.n (normW m.n w)))
        (List.zipWith (fun (m : TMode R) o => sobolMargA m.n o) t margs) t
      = anovaMaps (margsN t.shape margs) t.shape := by
  induction t with
  | nil => intro margs _; cases margs <;> rfl
  | cons m ms ih =>
    intro margs h
    cases margs with
    | nil => simp at h
    | cons o os =>
      simp only [List.zipWith_cons_cons, Tensor.shape, List.map_cons, margsN, anovaMaps, sobol_normW_opt, List.cons.injEq,
        true_and]
      exact ih os (by simpa using h)

theorem sobolWeight_eq (a : Tensor R) : ∀ (ns : List Nat) (margs : List (Option (Nat → R))),
    Tensor.sobolWeight margs ns a = sobolWrowsAll (margsN ns margs) a := by
  induction a with
  | nil => intro ns margs; cases ns <;> cases margs <;> rfl
  | cons m ms ih =>
    intro ns margs
    cases ns with
    | nil => cases margs <;> rfl
    | cons n ns =>
      cases margs with
      | nil => rfl
      | cons o os => simp only [Tensor.sobolWeight, margsN, sobolWrowsAll, ih]

theorem sobolExtW_eq : ∀ (ws : List (Nat → R)) (j : List Nat), sobolExtW ws j = extW ws j := by
  intro ws
  induction ws with
  | nil => intro j; rfl
  | cons w ws ih =>
    intro j
    cases j with
    | nil => rfl
    | cons i is => simp only [sobolExtW, extW, sobolRowW, ih]

/-- the extended ANOVA array of the dense array `f` under the normalised marginals `ws` -/
abbrev anovaArr (ws : List (Nat → R)) (ns : List Nat) (f : List Nat → R) : List Nat → R :=
  applyMaps (anovaMaps ws ns) ns f

/-- **the tensor `a` of `sobol`** (anova.py:118-133): with the kernel contract `sgn · ρ^N = a₀[0,…,0]` (the weighted mean,
    `anova_mean`) the routine does not fail, and `a` is a well-formed tensor on the extended box whose entries are
    the ANOVA terms, the empty term (all-zero index) replaced by 0. -/
theorem sobolA_spec (t : Tensor R) (margs : List (Option (Nat → R))) (ρ sgn : R) (ht : t.WF)
    (hl : margs.length = t.length)
    (hc : sgn * ρ ^ t.length = anovaArr (margsN t.shape margs) t.shape t.dense (List.replicate t.length 0)) :
    ∃ a, t.sobolA margs ρ sgn = .ok a ∧ a.WF ∧ a.shape = t.shape.map (· + 1) ∧
      (∀ j, j.length = t.length → a.dense j =
        if j = List.replicate t.length 0 then 0 else anovaArr (margsN t.shape margs) t.shape t.dense j) ∧
      sobolLastRR a = 1 := by
  have hzl : (List.zipWith (fun (m : TMode R) o => sobolMargA m.n o) t margs).length = t.length := by simp [hl]
  have ha0w : (t.sobolAnovaOpt margs).WF := sobol_WF_anova t _ hzl ht
  have ha0s : (t.sobolAnovaOpt margs).shape = t.shape.map (· + 1) := C10.anova_shape t _ hzl
  have ha0l : (t.sobolAnovaOpt margs).length = t.length := by
    have := congrArg List.length ha0s; simpa [Tensor.shape] using this
  have hpos : ∀ n ∈ (t.sobolAnovaOpt margs).shape, 0 < n := by
    rw [ha0s]; intro n hn; simp only [List.mem_map] at hn; obtain ⟨k, _, rfl⟩ := hn; omega
  have hd0 : ∀ j, j.length = t.length → (t.sobolAnovaOpt margs).dense j = anovaArr (margsN t.shape margs) t.shape t.dense j := by
    intro j hj
    unfold Tensor.sobolAnovaOpt
    rw [C10.anova_dense t _ j hzl hj, anovaOpt_maps t margs hl]
  have hne : (t.sobolAnovaOpt margs).shape ≠ [] := by
    intro h
    cases t with
    | nil => simp [Tensor.WF] at ht
    | cons _ _ => rw [ha0s] at h; simp [Tensor.shape] at h
  have hEw := sobol_WF_emptyT (R := R) _ hne
  have hEs := sobol_shape_emptyT (R := R) (t.sobolAnovaOpt margs).shape
  have hEl : (sobolEmptyT (R := R) (t.sobolAnovaOpt margs).shape).length = t.length := by
    have := congrArg List.length hEs; rw [shape_length, shape_length, ha0l] at this; exact this
  obtain ⟨hXw, hXs⟩ := C02.scalarMul_wf_shape ρ sgn _ hEw
  refine ⟨(t.sobolAnovaOpt margs).sub ((sobolEmptyT (t.sobolAnovaOpt margs).shape).scalarMul ρ sgn), ?_, ?_, ?_, ?_, ?_⟩
  · unfold Tensor.sobolA
    simp only [sobol_memo_eq]
    rw [getitem_zero _ ha0w hpos]
  · unfold Tensor.sub Tensor.neg
    exact (C02.add_wf_shape _ _ ha0w (C02.scalarMul_wf_shape _ _ _ hXw).1
      (by rw [(C02.scalarMul_wf_shape _ _ _ hXw).2, hXs, hEs])).1
  · unfold Tensor.sub Tensor.neg
    rw [(C02.add_wf_shape _ _ ha0w (C02.scalarMul_wf_shape _ _ _ hXw).1
      (by rw [(C02.scalarMul_wf_shape _ _ _ hXw).2, hXs, hEs])).2, ha0s]
  · intro j hj
    rw [C02.sub_dense _ _ ha0w hXw (by rw [hXs, hEs]) j (by rw [hj, ha0l]),
      C02.scalarMul_dense ρ sgn _ _ hEw (by rw [hEl]) j (by rw [hj, hEl]),
      sobol_dense_emptyT _ j hne (by rw [shape_length, ha0l, hj]), sobolZeroInd_eq, hd0 j hj, hj]
    by_cases h : j = List.replicate t.length 0
    · rw [if_pos h, if_pos h, h, ← hc]; ring
    · rw [if_neg h, if_neg h]; ring
  · unfold Tensor.sub Tensor.neg
    have hne' : t.sobolAnovaOpt margs ≠ [] := by
      intro h; rw [h] at ha0w; simp [Tensor.WF] at ha0w
    obtain ⟨m, h1, h2⟩ := sobol_add_last_rr (t.sobolAnovaOpt margs)
      (((sobolEmptyT (t.sobolAnovaOpt margs).shape).scalarMul ρ sgn).scalarMul 1 (-1))
      (by rw [(C02.scalarMul_wf_shape _ _ _ hXw).2, hXs, hEs]) hne'
      (sobol_scalarMul_plain _ _ _ (sobol_scalarMul_plain _ _ _ (sobol_emptyT_plain _)))
    unfold sobolLastRR; rw [h1]; exact h2

end pipeline

section sobolmain
variable [Field R]

/-- the contribution of the extended index `j` to the variance: `W(j) · a(j)²` — the weight of the index under the
    product of the marginals times the squared ANOVA term entry; the empty tuple (all-zero index, the squared mean)
    is excluded.  Summed over the indices with a given support it is the variance of that ANOVA term
    (`varcomp`, `varcomp_eq_term_variance`); summed over everything it is the total variance (`total_variance`). -/
def varTerm (ws : List (Nat → R)) (ns : List Nat) (f : List Nat → R) (j : List Nat) : R :=
  if j = List.replicate ns.length 0 then 0 else extW ws j * anovaArr ws ns f j ^ 2

/-- numerator of the index: the mask-weighted sum of the variance contributions over the extended box -/
def sobolNum (ws : List (Nat → R)) (ns : List Nat) (f : List Nat → R) (m : List Nat → R) : R :=
  boxSum (ns.map (· + 1)) (fun j => varTerm ws ns f j * m j)

/-- denominator of the index: the sum of all variance contributions — the total variance (`total_variance`) -/
def sobolDen (ws : List (Nat → R)) (ns : List Nat) (f : List Nat → R) : R :=
  boxSum (ns.map (· + 1)) (varTerm ws ns f)

/-- **`tn.sobol` equals its variance-decomposition definition, on the extended index box** (closed masks; any tensor, any
    format mix, any marginals incl. `None`, any mask of any format and any number of symbols per mode): the routine does
    not fail and returns
    `sobolNum / sobolDen = Σ_j W(j)·a(j)²·mask(clamp j) / Σ_j W(j)·a(j)²` (both sums over the extended box `{0..I_n}` per
    mode without the all-zero index), resp. the numerator alone for `normalize=False`.  `mask` is read at the clamped index
    (`0 ↦ 0`, `i ≥ 1 ↦ 1` for a 2-symbol mask: "variable n is in the tuple").
    Kernel contract: `sgn · ρ^N` is the weighted mean of the tensor (what `a[(0,)*N]` holds, `anova_mean`). -/
theorem sobol_eq (t mask : Tensor R) (margs : List (Option (Nat → R))) (normalize : Bool) (ρ sgn ρ2 sgn2 : R)
    (ht : t.WF) (hk : mask.WF) (hl : margs.length = t.length) (hkl : mask.length = t.length)
    (hclosed : mask.sobolOpenBond = false)
    (hc : sgn * ρ ^ t.length = boxSum t.shape (fun x => prodW (margsN t.shape margs) x * t.dense x)) :
    t.sobol mask margs normalize ρ sgn ρ2 sgn2 = .ok (.inr (
      if normalize then
        sobolNum (margsN t.shape margs) t.shape t.dense (fun j => mask.dense (sobolClampL mask.shape j))
          / sobolDen (margsN t.shape margs) t.shape t.dense
      else sobolNum (margsN t.shape margs) t.shape t.dense (fun j => mask.dense (sobolClampL mask.shape j)))) := by
  have hwl : (margsN t.shape margs).length = t.shape.length := margsN_length _ _ (by rw [shape_length]; exact hl)
  have hc' : sgn * ρ ^ t.length = anovaArr (margsN t.shape margs) t.shape t.dense (List.replicate t.length 0) := by
    rw [hc, ← shape_length t]; exact (anova_mean _ _ _ hwl).symm
  obtain ⟨a, ha, haw, has, had, _⟩ := sobolA_spec t margs ρ sgn ht hl hc'
  have hal : a.length = t.length := by
    have := congrArg List.length has; simpa [Tensor.shape] using this
  have hwl' : (margsN t.shape margs).length = a.length := by rw [hwl, shape_length, hal]
  have hamw := sobol_WF_wrowsAll a _ hwl' haw
  have hams := sobol_shape_wrowsAll a _ hwl'
  have hml : a.shape.length = mask.length := by rw [shape_length, hal, hkl]
  have hmw := sobol_WF_maskSel mask a.shape hml hk
  have hms := sobol_shape_maskSel mask a.shape hml
  obtain ⟨hmmw, hmms⟩ := C02.mul_wf_shape (sobolWrowsAll (margsN t.shape margs) a) (Tensor.sobolMaskSel a.shape mask) hamw hmw
    (by rw [hams, hms])
  have hnum : a.sobolDotA ((sobolWrowsAll (margsN t.shape margs) a).mul (Tensor.sobolMaskSel a.shape mask)) =
      boxSum (t.shape.map (· + 1)) (fun j => varTerm (margsN t.shape margs) t.shape t.dense j * mask.dense (sobolClampL mask.shape j)) := by
    rw [sobol_dotA_eq a _ haw hmmw (by rw [hmms, hams]),
      sobol_numerator a _ _ haw hamw hmw hams.symm (by rw [hams, hms]), has]
    apply boxSum_congr_in; intro j hj
    have hjl : j.length = t.length := by
      have := inShape_length j _ hj; simpa [shape_length] using this
    rw [sobol_dense_wrowsAll a _ j hwl' (by rw [hjl, hal]), sobol_dense_maskSel mask _ j (by rw [← has]; exact hml) (by rw [hjl, hkl]),
      had j hjl, sobolExtW_eq]
    unfold varTerm
    rw [shape_length]
    by_cases h : j = List.replicate t.length 0
    · rw [if_pos h, if_pos h]; ring
    · rw [if_neg h, if_neg h]; ring
  have hden : a.sobolDotA (sobolWrowsAll (margsN t.shape margs) a) =
      boxSum (t.shape.map (· + 1)) (varTerm (margsN t.shape margs) t.shape t.dense) := by
    rw [sobol_dotA_eq a _ haw hamw hams.symm, sobol_denominator a _ haw hamw hams.symm, has]
    apply boxSum_congr_in; intro j hj
    have hjl : j.length = t.length := by
      have := inShape_length j _ hj; simpa [shape_length] using this
    rw [sobol_dense_wrowsAll a _ j hwl' (by rw [hjl, hal]), had j hjl, sobolExtW_eq]
    unfold varTerm
    rw [shape_length]
    by_cases h : j = List.replicate t.length 0
    · rw [if_pos h, if_pos h]; ring
    · rw [if_neg h, if_neg h]; ring
  unfold Tensor.sobol
  rw [ha]
  simp only [hclosed, sobol_memo_eq, Tensor.clone, Tensor.sobolMaskBy, sobolWeight_eq, hams, hnum, hden]
  cases normalize <;> rfl

end sobolmain

/-! ### the denominator is the variance; order properties -/
section variance
variable [Field R]

theorem Normalized_length : ∀ (ws : List (Nat → R)) (ns : List Nat), Normalized ws ns → ws.length = ns.length := by
  intro ws
  induction ws with
  | nil => intro ns h; cases ns with
    | nil => rfl
    | cons _ _ => simp [Normalized] at h
  | cons w ws ih => intro ns h; cases ns with
    | nil => simp [Normalized] at h
    | cons n ns => simp [ih ns h.2]

theorem extW_zero : ∀ (ws : List (Nat → R)) (k : Nat), extW ws (List.replicate k 0) = 1 := by
  intro ws
  induction ws with
  | nil => intro k; cases k <;> rfl
  | cons w ws ih => intro k; cases k with
    | zero => rfl
    | succ k => simp [List.replicate_succ, extW, ih k]

/-- **the denominator of `sobol` is the variance** of the tensor under the product of the (normalised) marginals:
    `Σ_{j ≠ 0} W(j)·a(j)² = E[f²] − (E f)²` -/
theorem total_variance (ws : List (Nat → R)) (ns : List Nat) (f : List Nat → R) (h : Normalized ws ns) :
    sobolDen ws ns f = boxSum ns (fun x => prodW ws x * f x ^ 2) - (boxSum ns (fun x => prodW ws x * f x)) ^ 2 := by
  unfold sobolDen varTerm
  rw [sobol_boxSum_remove _ _ (fun j => extW ws j * anovaArr ws ns f j ^ 2) (sobol_inShape_zero ns),
    second_moment ws ns f h, extW_zero, one_mul]
  unfold anovaArr
  rw [anova_mean ws ns f (Normalized_length ws ns h)]

/-- the marginals' sums do not vanish (what makes `m / torch.sum(m)` a probability vector); for `None` this says that
    the mode size is not zero in the field -/
def MargsSumNe : List Nat → List (Option (Nat → R)) → Prop
  | I :: Is, o :: os => sumTo I (sobolMargS o) ≠ 0 ∧ MargsSumNe Is os
  | _, _ => True

/-- the normalised marginals `m / torch.sum(m)` sum to 1 on every mode, provided no marginal sums to zero -/
theorem margsN_normalized : ∀ (ns : List Nat) (margs : List (Option (Nat → R))), margs.length = ns.length →
    MargsSumNe ns margs → Normalized (margsN ns margs) ns := by
  intro ns
  induction ns with
  | nil => intro margs hl _; cases margs with
    | nil => trivial
    | cons _ _ => simp at hl
  | cons n ns ih =>
    intro margs hl h
    cases margs with
    | nil => simp at hl
    | cons o os => exact ⟨C10.normW_sum n _ h.1, ih os (by simpa using hl) h.2⟩

end variance

section ordered
variable [Field R] [LinearOrder R] [IsStrictOrderedRing R]

/-- weights that are non-negative inside their mode -/
def NonnegOn : List (Nat → R) → List Nat → Prop
  | w :: ws, n :: ns => (∀ i, i < n → 0 ≤ w i) ∧ NonnegOn ws ns
  | _, _ => True

/-- the given marginal vectors have no negative entry -/
def MargsNonneg : List Nat → List (Option (Nat → R)) → Prop
  | I :: Is, some w :: os => (∀ i, i < I → 0 ≤ w i) ∧ MargsNonneg Is os
  | _ :: Is, Option.none :: os => MargsNonneg Is os
  | _, _ => True

theorem sumTo_nonneg' (n : Nat) (w : Nat → R) (h : ∀ i, i < n → 0 ≤ w i) : 0 ≤ sumTo n w := by
  rw [sumTo_eq]; exact Finset.sum_nonneg (fun i hi => h i (Finset.mem_range.mp hi))

/-- normalising non-negative marginals gives non-negative weights -/
theorem margsN_nonneg : ∀ (ns : List Nat) (margs : List (Option (Nat → R))), MargsNonneg ns margs →
    NonnegOn (margsN ns margs) ns := by
  intro ns
  induction ns with
  | nil => intro margs _; cases margs <;> trivial
  | cons n ns ih =>
    intro margs h
    cases margs with
    | nil => trivial
    | cons o os =>
      cases o with
      | none =>
        refine ⟨fun i _ => ?_, ih os h⟩
        simp only [normW, sobolMargS]
        exact div_nonneg zero_le_one (sumTo_nonneg' n _ (fun _ _ => zero_le_one))
      | some w =>
        refine ⟨fun i hi => ?_, ih os h.2⟩
        simp only [normW, sobolMargS]
        exact div_nonneg (h.1 i hi) (sumTo_nonneg' n w h.1)

theorem extW_nonneg : ∀ (ws : List (Nat → R)) (ns j : List Nat), NonnegOn ws ns → inShape j (ns.map (· + 1)) →
    0 ≤ extW ws j := by
  intro ws
  induction ws with
  | nil => intro ns j _ _; cases j <;> simp [extW]
  | cons w ws ih =>
    intro ns j hw hj
    cases ns with
    | nil => cases j with
      | nil => simp [extW]
      | cons _ _ => simp [inShape] at hj
    | cons n ns =>
      cases j with
      | nil => simp [inShape] at hj
      | cons i is =>
        obtain ⟨hi, his⟩ := hj
        simp only [extW]
        apply mul_nonneg _ (ih ns is hw.2 his)
        by_cases h0 : i = 0
        · simp [h0]
        · simp only [h0, if_false]
          exact hw.1 (i - 1) (by have : i < n + 1 := hi; omega)

/-- **every variance contribution is non-negative** (a weight times a square) -/
theorem varTerm_nonneg (ws : List (Nat → R)) (ns : List Nat) (f : List Nat → R) (j : List Nat) (hw : NonnegOn ws ns)
    (hj : inShape j (ns.map (· + 1))) : 0 ≤ varTerm ws ns f j := by
  unfold varTerm
  split
  · exact le_refl 0
  · exact mul_nonneg (extW_nonneg ws ns j hw hj) (sq_nonneg _)

theorem sobolDen_nonneg (ws : List (Nat → R)) (ns : List Nat) (f : List Nat → R) (hw : NonnegOn ws ns) :
    0 ≤ sobolDen ws ns f :=
  sobol_boxSum_nonneg_in _ _ (fun j hj => varTerm_nonneg ws ns f j hw hj)

/-- **monotonicity in the mask**: if `m₁ ≤ m₂` on the extended box then the index of `m₁` is at most the index of `m₂`
    (closed ≤ total indices, total indices dominate the variance components they contain) -/
theorem sobol_mono (ws : List (Nat → R)) (ns : List Nat) (f : List Nat → R) (m1 m2 : List Nat → R) (hw : NonnegOn ws ns)
    (hm : ∀ j, inShape j (ns.map (· + 1)) → m1 j ≤ m2 j) :
    sobolNum ws ns f m1 / sobolDen ws ns f ≤ sobolNum ws ns f m2 / sobolDen ws ns f := by
  apply div_le_div_of_nonneg_right _ (sobolDen_nonneg ws ns f hw)
  exact sobol_boxSum_le_in _ _ _ (fun j hj => mul_le_mul_of_nonneg_left (hm j hj) (varTerm_nonneg ws ns f j hw hj))

/-- **indices of masks with values in `[0,1]` (in particular 0/1 masks) lie in `[0,1]`** when the total variance is
    positive -/
theorem sobol_mem_unit (ws : List (Nat → R)) (ns : List Nat) (f : List Nat → R) (m : List Nat → R) (hw : NonnegOn ws ns)
    (hm : ∀ j, inShape j (ns.map (· + 1)) → 0 ≤ m j ∧ m j ≤ 1) (hD : 0 < sobolDen ws ns f) :
    0 ≤ sobolNum ws ns f m / sobolDen ws ns f ∧ sobolNum ws ns f m / sobolDen ws ns f ≤ 1 := by
  have h0 : 0 ≤ sobolNum ws ns f m :=
    sobol_boxSum_nonneg_in _ _ (fun j hj => mul_nonneg (varTerm_nonneg ws ns f j hw hj) (hm j hj).1)
  have h1 : sobolNum ws ns f m ≤ sobolDen ws ns f := by
    apply sobol_boxSum_le_in; intro j hj
    have := mul_le_mul_of_nonneg_left (hm j hj).2 (varTerm_nonneg ws ns f j hw hj)
    simpa using this
  exact ⟨div_nonneg h0 hD.le, (div_le_one hD).mpr h1⟩

end ordered

/-! ### variance components of the tuples of variables (masks over the 2-symbol box) -/
section subsets
variable [Field R]

/-- **variance component of a tuple of variables** given by its 0/1 pattern `u` (1 = the variable belongs to the tuple):
    the sum of the variance contributions of the extended indices with support `u`; it is the variance of the ANOVA
    term of that tuple (`varcomp_eq_term_variance`) -/
def varcomp (ws : List (Nat → R)) (ns : List Nat) (f : List Nat → R) (u : List Nat) : R :=
  boxSum (ns.map (· + 1)) (fun j => if sobolSuppL j = u then varTerm ws ns f j else 0)

/-- a mask that only looks at the support of the index (every mask over the 2-symbol box does): the numerator is
    `Σ_u mask(u) · varcomp(u)` over the `2^N` tuples of variables -/
theorem sobolNum_subsets (ws : List (Nat → R)) (ns : List Nat) (f : List Nat → R) (μ : List Nat → R) :
    sobolNum ws ns f (fun j => μ (sobolSuppL j)) = boxSum (List.replicate ns.length 2) (fun u => μ u * varcomp ws ns f u) := by
  unfold sobolNum varcomp
  rw [← sobol_boxSum_fiber ns μ (varTerm ws ns f)]
  apply boxSum_congr; intro j; ring

/-- the total variance is the sum of the variance components of all tuples -/
theorem sobolDen_subsets (ws : List (Nat → R)) (ns : List Nat) (f : List Nat → R) :
    sobolDen ws ns f = boxSum (List.replicate ns.length 2) (varcomp ws ns f) := by
  have := sobolNum_subsets ws ns f (fun _ => 1)
  simp only [one_mul] at this
  rw [← this]
  unfold sobolDen sobolNum
  apply boxSum_congr; intro j; ring

theorem clampIdx_two (i : Nat) : sobolClampIdx 2 i = if i = 0 then 0 else 1 := by
  unfold sobolClampIdx
  by_cases h : 2 ≤ i
  · have : ¬ i = 0 := by omega
    simp [h, this]
  · have : i = 0 ∨ i = 1 := by omega
    rcases this with rfl | rfl <;> simp

theorem clampL_two : ∀ (k : Nat) (j : List Nat), j.length = k → sobolClampL (List.replicate k 2) j = sobolSuppL j := by
  intro k
  induction k with
  | zero => intro j h; cases j with
    | nil => rfl
    | cons _ _ => simp at h
  | succ k ih =>
    intro j h
    cases j with
    | nil => simp at h
    | cons i is =>
      simp only [List.replicate_succ, sobolClampL, sobolSuppL_cons, clampIdx_two, ih is (by simpa using h)]

/-- **`tn.sobol` for masks over the 2-symbol box** (`tn.symbols`, `tn.only`, Boolean formulas, weight automata): the
    index is the mask-weighted sum of the variance components of the tuples of variables divided by the sum of all
    variance components, `Σ_u mask(u)·D_u / Σ_u D_u`, `u` over the `2^N` tuples (the empty tuple has `D_∅ = 0`) -/
theorem sobol_eq_subsets (t mask : Tensor R) (margs : List (Option (Nat → R))) (normalize : Bool) (ρ sgn ρ2 sgn2 : R)
    (ht : t.WF) (hk : mask.WF) (hl : margs.length = t.length) (hks : mask.shape = List.replicate t.length 2)
    (hclosed : mask.sobolOpenBond = false)
    (hc : sgn * ρ ^ t.length = boxSum t.shape (fun x => prodW (margsN t.shape margs) x * t.dense x)) :
    t.sobol mask margs normalize ρ sgn ρ2 sgn2 = .ok (.inr (
      if normalize then
        boxSum (List.replicate t.length 2) (fun u => mask.dense u * varcomp (margsN t.shape margs) t.shape t.dense u)
          / boxSum (List.replicate t.length 2) (varcomp (margsN t.shape margs) t.shape t.dense)
      else boxSum (List.replicate t.length 2) (fun u => mask.dense u * varcomp (margsN t.shape margs) t.shape t.dense u))) := by
  have hkl : mask.length = t.length := by
    have := congrArg List.length hks; simpa [Tensor.shape] using this
  rw [sobol_eq t mask margs normalize ρ sgn ρ2 sgn2 ht hk hl hkl hclosed hc]
  have e : sobolNum (margsN t.shape margs) t.shape t.dense (fun j => mask.dense (sobolClampL mask.shape j))
      = sobolNum (margsN t.shape margs) t.shape t.dense (fun j => mask.dense (sobolSuppL j)) := by
    unfold sobolNum
    apply boxSum_congr_in; intro j hj
    have hjl : j.length = t.length := by
      have := inShape_length j _ hj; simpa [shape_length] using this
    simp only [hks, clampL_two t.length j hjl]
  rw [e, sobolNum_subsets, sobolDen_subsets, shape_length]

end subsets

section termvar
variable [Field R]

/-- the extended index of the entry `x` of the ANOVA term of the tuple `u`: `x_n + 1` for the variables of the tuple,
    `0` (integrated out) for the others -/
def embedL : List Nat → List Nat → List Nat
  | b :: u, x :: xs => (if b = 0 then 0 else x + 1) :: embedL u xs
  | _, _ => []

/-- change of variables: the weighted sum over the extended indices with support `u` is the expectation, under the
    product of the marginals, of the function read at the embedded index -/
theorem boxSum_support_eq : ∀ (ws : List (Nat → R)) (ns u : List Nat) (G : List Nat → R), Normalized ws ns →
    inShape u (List.replicate ns.length 2) →
    boxSum (ns.map (· + 1)) (fun j => if sobolSuppL j = u then extW ws j * G j else 0)
      = boxSum ns (fun x => prodW ws x * G (embedL u x)) := by
  intro ws
  induction ws with
  | nil =>
    intro ns u G h hu
    cases ns with
    | nil =>
      cases u with
      | nil => simp [boxSum, sobolSuppL, extW, prodW, embedL]
      | cons _ _ => simp [inShape] at hu
    | cons _ _ => simp [Normalized] at h
  | cons w ws ih =>
    intro ns u G h hu
    cases ns with
    | nil => simp [Normalized] at h
    | cons n ns =>
      obtain ⟨hw, hrest⟩ := h
      cases u with
      | nil => simp [inShape] at hu
      | cons b u =>
        obtain ⟨hb, hu'⟩ := hu
        simp only [List.map_cons, boxSum, sumTo_eq, sobolSuppL_cons, extW, prodW, embedL, List.cons.injEq]
        -- every slice of the left side, by the induction hypothesis
        have eL : ∀ i ∈ range (n + 1),
            boxSum (ns.map (· + 1)) (fun js => if (if i = 0 then 0 else 1) = b ∧ sobolSuppL js = u then
                (if i = 0 then 1 else w (i - 1)) * extW ws js * G (i :: js) else 0)
              = if (if i = 0 then 0 else 1) = b then (if i = 0 then 1 else w (i - 1)) *
                  boxSum ns (fun xs => prodW ws xs * G (i :: embedL u xs)) else 0 := by
          intro i _
          by_cases hi : (if i = 0 then 0 else 1) = b
          · simp only [hi, true_and, if_true]
            rw [← ih ns u (fun js => G (i :: js)) hrest hu', ← boxSum_mul_left]
            apply boxSum_congr; intro js
            split <;> ring
          · simp only [hi, false_and, if_false]
            rw [boxSum_const]; simp
        rw [Finset.sum_congr rfl eL]
        have hb2 : b = 0 ∨ b = 1 := by omega
        rcases hb2 with rfl | rfl
        · -- the variable is integrated out: only index 0, and the weights sum to 1
          rw [Finset.sum_eq_single 0]
          · simp only [if_true, one_mul]
            have eR : ∀ x ∈ range n, boxSum ns (fun xs => w x * prodW ws xs * G (0 :: embedL u xs))
                = w x * boxSum ns (fun xs => prodW ws xs * G (0 :: embedL u xs)) := by
              intro x _; rw [← boxSum_mul_left]; apply boxSum_congr; intro xs; ring
            rw [Finset.sum_congr rfl eR, ← Finset.sum_mul, hw, one_mul]
          · intro i _ hi; simp [hi]
          · intro hh; exact absurd (Finset.mem_range.mpr (Nat.succ_pos n)) hh
        · -- the variable is present: index x + 1 carries weight w x
          rw [Finset.sum_range_succ']
          simp only [Nat.add_one_ne_zero, if_false, if_true, Nat.add_sub_cancel, zero_ne_one, add_zero]
          apply Finset.sum_congr rfl; intro x _
          rw [← boxSum_mul_left]; apply boxSum_congr; intro xs; ring

theorem suppL_zero (k : Nat) : sobolSuppL (List.replicate k 0) = List.replicate k 0 := by
  induction k with
  | zero => rfl
  | succ k ih => simp [List.replicate_succ, sobolSuppL_cons, ih]

theorem suppL_length (j : List Nat) : (sobolSuppL j).length = j.length := by simp [sobolSuppL]

theorem suppL_eq_zero (j : List Nat) (h : sobolSuppL j = List.replicate j.length 0) : j = List.replicate j.length 0 := by
  induction j with
  | nil => rfl
  | cons i is ih =>
    simp only [sobolSuppL_cons, List.length_cons, List.replicate_succ, List.cons.injEq] at h ⊢
    refine ⟨?_, ih h.2⟩
    by_contra hi; simp [hi] at h

/-- the empty tuple has no variance component (the mean is removed) -/
theorem varcomp_empty (ws : List (Nat → R)) (ns : List Nat) (f : List Nat → R) :
    varcomp ws ns f (List.replicate ns.length 0) = 0 := by
  unfold varcomp
  refine Eq.trans (boxSum_congr_in _ _ (fun _ => 0) ?_) (by rw [boxSum_const]; simp)
  intro j hj
  have hjl : j.length = ns.length := by have := inShape_length j _ hj; simpa using this
  by_cases h : sobolSuppL j = List.replicate ns.length 0
  · have := suppL_eq_zero j (by rw [hjl]; exact h)
    simp only [h, if_true, varTerm]
    rw [if_pos (by rw [← hjl]; exact this)]
  · simp [h]

/-- **the variance component of a non-empty tuple is the variance of its ANOVA term**: the second moment, under the
    product of the marginals, of the term `x ↦ a[embed u x]` (which has mean zero, `C10.anova_centered`) -/
theorem varcomp_eq_term_variance (ws : List (Nat → R)) (ns u : List Nat) (f : List Nat → R) (h : Normalized ws ns)
    (hu : inShape u (List.replicate ns.length 2)) (hne : u ≠ List.replicate ns.length 0) :
    varcomp ws ns f u = boxSum ns (fun x => prodW ws x * anovaArr ws ns f (embedL u x) ^ 2) := by
  rw [← boxSum_support_eq ws ns u (fun j => anovaArr ws ns f j ^ 2) h hu]
  unfold varcomp
  apply boxSum_congr; intro j
  by_cases hs : sobolSuppL j = u
  · simp only [hs, if_true, varTerm]
    rw [if_neg]
    intro hj
    apply hne
    rw [← hs, hj, suppL_zero]
  · simp [hs]

end termvar

/-! ### dimension distribution and mean dimension, as functions of the variance components -/
section dimension
variable [Field R]

/-- entry `k` of the **dimension distribution**: the variance components of the tuples with exactly `k` variables,
    divided by the total variance -/
def dimDist (ws : List (Nat → R)) (ns : List Nat) (f : List Nat → R) (k : Nat) : R :=
  boxSum (List.replicate ns.length 2) (fun u => if u.sum = k then varcomp ws ns f u else 0) / sobolDen ws ns f

/-- the **mean dimension**: the tuple-size-weighted sum of the variance components divided by the total variance -/
def meanDim (ws : List (Nat → R)) (ns : List Nat) (f : List Nat → R) : R :=
  boxSum (List.replicate ns.length 2) (fun u => (u.sum : R) * varcomp ws ns f u) / sobolDen ws ns f

theorem sum_le_of_inBox : ∀ (k : Nat) (u : List Nat), inShape u (List.replicate k 2) → u.sum ≤ k := by
  intro k
  induction k with
  | zero => intro u h; cases u with
    | nil => simp
    | cons _ _ => simp [inShape] at h
  | succ k ih =>
    intro u h
    cases u with
    | nil => simp [inShape] at h
    | cons b u =>
      obtain ⟨hb, hu⟩ := h
      have := ih u hu
      simp only [List.sum_cons]; omega

theorem eq_zero_of_sum_zero : ∀ (u : List Nat), u.sum = 0 → u = List.replicate u.length 0 := by
  intro u
  induction u with
  | nil => intro _; rfl
  | cons b u ih =>
    intro h
    simp only [List.sum_cons] at h
    have hb : b = 0 := by omega
    have hu : u.sum = 0 := by omega
    simp only [List.length_cons, List.replicate_succ, List.cons.injEq]
    exact ⟨hb, ih hu⟩

/-- inside the 2-symbol box, splitting by tuple size `1..N` loses nothing (the empty tuple has no variance) -/
theorem sum_by_size (ws : List (Nat → R)) (ns : List Nat) (f : List Nat → R) (c : Nat → R) (u : List Nat)
    (hu : inShape u (List.replicate ns.length 2)) :
    (∑ k ∈ range ns.length, c (k + 1) * (if u.sum = k + 1 then varcomp ws ns f u else 0))
      = c u.sum * varcomp ws ns f u := by
  have hle := sum_le_of_inBox ns.length u hu
  have hul : u.length = ns.length := by have := inShape_length u _ hu; simpa using this
  by_cases h0 : u.sum = 0
  · have hz : u = List.replicate ns.length 0 := by rw [← hul]; exact eq_zero_of_sum_zero u h0
    rw [hz, varcomp_empty]; simp
  · rw [Finset.sum_eq_single (u.sum - 1)]
    · have : u.sum - 1 + 1 = u.sum := by omega
      simp [this]
    · intro k _ hk
      have : ¬ u.sum = k + 1 := by omega
      simp [this]
    · intro hh; exact absurd (Finset.mem_range.mpr (by omega)) hh

/-- **the dimension distribution sums to 1** (entries `1..N`; total variance not zero) -/
theorem dimDist_sum (ws : List (Nat → R)) (ns : List Nat) (f : List Nat → R) (hD : sobolDen ws ns f ≠ 0) :
    (∑ k ∈ range ns.length, dimDist ws ns f (k + 1)) = 1 := by
  unfold dimDist
  simp only [div_eq_mul_inv]
  rw [← Finset.sum_mul, ← boxSum_sum]
  have e : boxSum (List.replicate ns.length 2)
      (fun u => ∑ k ∈ range ns.length, if u.sum = k + 1 then varcomp ws ns f u else 0)
      = boxSum (List.replicate ns.length 2) (varcomp ws ns f) := by
    apply boxSum_congr_in; intro u hu
    have := sum_by_size ws ns f (fun _ => 1) u hu
    simpa using this
  rw [e, ← sobolDen_subsets, mul_inv_cancel₀ hD]

/-- **the mean dimension is `Σ_k k · dist(k)`**: the tuple-size-weighted sum of the normalised variance components
    equals the expectation of the dimension distribution -/
theorem meanDim_eq (ws : List (Nat → R)) (ns : List Nat) (f : List Nat → R) :
    meanDim ws ns f = ∑ k ∈ range ns.length, ((k + 1 : Nat) : R) * dimDist ws ns f (k + 1) := by
  unfold meanDim dimDist
  have e1 : ∀ k ∈ range ns.length, ((k + 1 : Nat) : R) *
      (boxSum (List.replicate ns.length 2) (fun u => if u.sum = k + 1 then varcomp ws ns f u else 0) / sobolDen ws ns f)
      = boxSum (List.replicate ns.length 2) (fun u => ((k + 1 : Nat) : R) * (if u.sum = k + 1 then varcomp ws ns f u else 0))
        / sobolDen ws ns f := by
    intro k _; rw [boxSum_mul_left, mul_div_assoc]
  rw [Finset.sum_congr rfl e1]
  simp only [div_eq_mul_inv]
  rw [← Finset.sum_mul, ← boxSum_sum]
  congr 1
  apply boxSum_congr_in; intro u hu
  exact (sum_by_size ws ns f (fun k => (k : R)) u hu).symm

end dimension

section dimension_ordered
variable [Field R] [LinearOrder R] [IsStrictOrderedRing R]

theorem varcomp_nonneg (ws : List (Nat → R)) (ns : List Nat) (f : List Nat → R) (u : List Nat) (hw : NonnegOn ws ns) :
    0 ≤ varcomp ws ns f u := by
  unfold varcomp
  apply sobol_boxSum_nonneg_in; intro j hj
  split
  · exact varTerm_nonneg ws ns f j hw hj
  · exact le_refl 0

/-- **the mean dimension is at least 1** (non-negative marginals, positive total variance): every tuple that carries
    variance has at least one variable -/
theorem meanDim_ge_one (ws : List (Nat → R)) (ns : List Nat) (f : List Nat → R) (hw : NonnegOn ws ns)
    (hD : 0 < sobolDen ws ns f) : 1 ≤ meanDim ws ns f := by
  unfold meanDim
  rw [one_le_div hD, sobolDen_subsets]
  apply sobol_boxSum_le_in; intro u hu
  have hul : u.length = ns.length := by have := inShape_length u _ hu; simpa using this
  by_cases h0 : u.sum = 0
  · have hz : u = List.replicate ns.length 0 := by rw [← hul]; exact eq_zero_of_sum_zero u h0
    rw [hz, varcomp_empty]; simp
  · have h1 : (1 : R) ≤ (u.sum : R) := by exact_mod_cast (Nat.one_le_iff_ne_zero.mpr h0)
    have := mul_le_mul_of_nonneg_right h1 (varcomp_nonneg ws ns f u hw)
    simpa using this

end dimension_ordered

section code_dimension
variable [Field R]

/-- **`tn.mean_dimension(t, marginals)`** (model `Tensor.meanDimension`: `sobol` with the mask `tn.weight(N)`) returns
    the tuple-size-weighted sum of the variance components divided by the total variance, `Σ_u |u|·D_u / Σ_u D_u`
    — by `meanDim_eq` this is `Σ_k k·dist(k)`, by `meanDim_ge_one` it is at least 1 -/
theorem mean_dimension_eq (t : Tensor R) (margs : List (Option (Nat → R))) (ρ sgn : R) (ht : t.WF)
    (hl : margs.length = t.length)
    (hc : sgn * ρ ^ t.length = boxSum t.shape (fun x => prodW (margsN t.shape margs) x * t.dense x)) :
    t.meanDimension margs ρ sgn = .ok (meanDim (margsN t.shape margs) t.shape t.dense) := by
  have hN : 0 < t.length := by
    cases t with
    | nil => simp [Tensor.WF] at ht
    | cons _ _ => simp
  obtain ⟨w1, w2, w3⟩ := sobol_weightT_spec (R := R) 2 t.length hN
  unfold Tensor.meanDimension
  rw [sobol_eq_subsets t _ margs true ρ sgn ρ sgn ht w1 hl w2 w3 hc]
  simp only [if_true]
  unfold meanDim
  rw [sobolDen_subsets, shape_length]
  congr 2
  apply boxSum_congr_in; intro u hu
  have hul : u.length = t.length := by have := inShape_length u _ hu; simpa using this
  rw [C16.weight_dense 2 t.length u hN hul, sobol_natCast'_eq]

/-- **the Sobol index of the mask `tn.weight_mask(N, k)`** (exactly `k` variables) is entry `k` of the dimension
    distribution: the normalised variance of all ANOVA terms of order `k` -/
theorem sobol_weight_mask (t : Tensor R) (margs : List (Option (Nat → R))) (k r : Nat) (hk : k < r) (ρ sgn ρ2 sgn2 : R)
    (ht : t.WF) (hl : margs.length = t.length)
    (hc : sgn * ρ ^ t.length = boxSum t.shape (fun x => prodW (margsN t.shape margs) x * t.dense x)) :
    t.sobol (weightMask [k] r (List.replicate t.length 2)) margs true ρ sgn ρ2 sgn2
      = .ok (.inr (dimDist (margsN t.shape margs) t.shape t.dense k)) := by
  have hN : 0 < t.length := by
    cases t with
    | nil => simp [Tensor.WF] at ht
    | cons _ _ => simp
  have hne : List.replicate t.length 2 ≠ [] := by
    intro h; rw [List.replicate_eq_nil_iff] at h; omega
  obtain ⟨w1, w2⟩ := weightMask_wf_shape (R := R) [k] r (List.replicate t.length 2) hne
  rw [sobol_eq_subsets t _ margs true ρ sgn ρ2 sgn2 ht w1 hl w2 (sobol_weightMask_closed _ _ _) hc]
  simp only [if_true]
  unfold dimDist
  rw [sobolDen_subsets, shape_length]
  have e : boxSum (List.replicate t.length 2) (fun u => (weightMask (R := R) [k] r (List.replicate t.length 2)).dense u *
        varcomp (margsN t.shape margs) t.shape t.dense u)
      = boxSum (List.replicate t.length 2) (fun u => if u.sum = k then varcomp (margsN t.shape margs) t.shape t.dense u else 0) := by
    apply boxSum_congr_in; intro u hu
    have hul : u.length = (List.replicate t.length 2).length := by have := inShape_length u _ hu; simpa using this
    rw [C16.weightMask_dense [k] r (by simpa using hk) _ u hne hul, C16.countW_nodup [k] (by simp)]
    by_cases h : u.sum = k <;> simp [h]
  rw [e]

end code_dimension

/-! ### masks with an open trailing bond: `dimension_distribution` as the code computes it -/
section openbond
variable [Field R]

/-- **`tn.sobol` with a mask that keeps an open trailing bond** (one-hot masks, anova.py:149-155): the routine does not
    fail and returns a one-mode tensor with one entry per position `k` of the bond; entry `k` is the Sobol index
    (resp. its numerator, for `normalize=False`) of the mask "position `k` of the bond" (`sobolOpenVal mask · k`).
    Kernel contracts: `sgn·ρ^N` is the weighted mean; for `normalize=True`, `sgn2·ρ2^1 = 1/D` (the scalar the
    one-mode tensor is multiplied with, `D` the total variance). -/
theorem sobol_open_eq (t mask : Tensor R) (margs : List (Option (Nat → R))) (normalize : Bool) (ρ sgn ρ2 sgn2 : R)
    (ht : t.WF) (hk : mask.WF) (hl : margs.length = t.length) (hkl : mask.length = t.length)
    (hopen : mask.sobolOpenBond = true)
    (hc : sgn * ρ ^ t.length = boxSum t.shape (fun x => prodW (margsN t.shape margs) x * t.dense x))
    (hc2 : normalize = true → sgn2 * ρ2 ^ 1 = 1 / sobolDen (margsN t.shape margs) t.shape t.dense) :
    ∃ v : Tensor R, t.sobol mask margs normalize ρ sgn ρ2 sgn2 = .ok (.inl v) ∧ v.shape = [sobolLastRR mask] ∧
      ∀ k, k < sobolLastRR mask → v.dense [k] =
        if normalize then
          sobolNum (margsN t.shape margs) t.shape t.dense (fun j => sobolOpenVal mask (sobolClampL mask.shape j) k)
            / sobolDen (margsN t.shape margs) t.shape t.dense
        else sobolNum (margsN t.shape margs) t.shape t.dense (fun j => sobolOpenVal mask (sobolClampL mask.shape j) k) := by
  have hwl : (margsN t.shape margs).length = t.shape.length := margsN_length _ _ (by rw [shape_length]; exact hl)
  have hc' : sgn * ρ ^ t.length = anovaArr (margsN t.shape margs) t.shape t.dense (List.replicate t.length 0) := by
    rw [hc, ← shape_length t]; exact (anova_mean _ _ _ hwl).symm
  obtain ⟨a, ha, haw, has, had, halr⟩ := sobolA_spec t margs ρ sgn ht hl hc'
  have hal : a.length = t.length := by
    have := congrArg List.length has; simpa [Tensor.shape] using this
  have hane : a ≠ [] := by intro h; rw [h] at haw; simp [Tensor.WF] at haw
  have hkne : mask ≠ [] := by intro h; rw [h] at hk; simp [Tensor.WF] at hk
  have hwl' : (margsN t.shape margs).length = a.length := by rw [hwl, shape_length, hal]
  have hamw := sobol_WF_wrowsAll a _ hwl' haw
  have hams := sobol_shape_wrowsAll a _ hwl'
  have hml : a.shape.length = mask.length := by rw [shape_length, hal, hkl]
  have hmw := sobol_WF_maskSel mask a.shape hml hk
  have hms := sobol_shape_maskSel mask a.shape hml
  obtain ⟨hmmw, hmms⟩ := C02.mul_wf_shape (sobolWrowsAll (margsN t.shape margs) a) (Tensor.sobolMaskSel a.shape mask) hamw hmw
    (by rw [hams, hms])
  have hamr : sobolLastRR (sobolWrowsAll (margsN t.shape margs) a) = 1 := by rw [sobol_lastRR_wrowsAll a _ hwl' hane]; exact halr
  have hmr : sobolLastRR (Tensor.sobolMaskSel a.shape mask) = sobolLastRR mask := sobol_lastRR_maskSel mask a.shape hml hkne
  have hmml : a.length = ((sobolWrowsAll (margsN t.shape margs) a).mul (Tensor.sobolMaskSel a.shape mask)).length := by
    have := congrArg List.length hmms; rw [hams, shape_length, shape_length] at this; exact this.symm
  -- the one-mode tensor
  have hlast : sobolLastRR ((sobolWrowsAll (margsN t.shape margs) a).mul (Tensor.sobolMaskSel a.shape mask)) = sobolLastRR mask := by
    cases hmm : (sobolWrowsAll (margsN t.shape margs) a).mul (Tensor.sobolMaskSel a.shape mask) with
    | nil => rw [hmm] at hmmw; simp [Tensor.WF] at hmmw
    | cons y ys =>
      cases hmk : Tensor.sobolMaskSel a.shape mask with
      | nil => rw [hmk] at hmw; simp [Tensor.WF] at hmw
      | cons z zs =>
        cases ham : sobolWrowsAll (margsN t.shape margs) a with
        | nil => rw [ham] at hamw; simp [Tensor.WF] at hamw
        | cons w ws =>
          rw [← hmr, hmk, ← sobol_outRank_lastRR y ys y.core.rl, ← sobol_outRank_lastRR z zs z.core.rl, ← hmm, ham, hmk]
          have hzok := Tensor.WFfrom_ok _ _ (by rw [hmk] at hmw; exact hmw)
          have hzip := sobol_mul_eq_zip (w :: ws) (z :: zs) (by rw [← ham, ← hmk, hams, hms])
          have hmodes := modes_zipWith_mulMode (w :: ws) (z :: zs) hzok
          rw [hzip, hmodes]
          have hy : y.core.rl = w.core.rl * z.core.rl := by
            have : y = mulMode w z := by
              have h := hmm; rw [ham, hmk, hzip] at h
              simp only [List.zipWith_cons_cons, List.cons.injEq] at h; exact h.1.symm
            rw [this]; exact mulMode_rl w z (hzok z (by simp))
          rw [hy, sobol_outRank_mul _ _ _ _ (compat_modes _ _ (by rw [← ham, ← hmk, hams, hms])),
            sobol_outRank_lastRR, sobol_outRank_lastRR, ← ham, hamr, one_mul]
  obtain ⟨c, hform, hcs⟩ := sobol_dotOpen_form a ((sobolWrowsAll (margsN t.shape margs) a).mul (Tensor.sobolMaskSel a.shape mask))
    (sobolLastRR ((sobolWrowsAll (margsN t.shape margs) a).mul (Tensor.sobolMaskSel a.shape mask))) haw hmml
  have hvw : Tensor.WF [({ core := c, U := Option.none } : TMode R)] := ⟨rfl, trivial, trivial⟩
  have hvs : Tensor.shape [({ core := c, U := Option.none } : TMode R)] = [sobolLastRR mask] := by
    show [c.spatial] = [sobolLastRR mask]
    rw [hcs, hlast]
  have hval : ∀ k, k < sobolLastRR mask →
      Tensor.dense [({ core := c, U := Option.none } : TMode R)] [k]
        = sobolNum (margsN t.shape margs) t.shape t.dense (fun j => sobolOpenVal mask (sobolClampL mask.shape j) k) := by
    intro k hk'
    rw [← hform, sobol_dotOpen_mul a _ _ haw hamw hmw hams.symm (by rw [hams, hms]) hmmw hmms hamr k (by rw [hmr]; exact hk'),
      has]
    unfold sobolNum
    apply boxSum_congr_in; intro j hj
    have hjl : j.length = t.length := by
      have := inShape_length j _ hj; simpa [shape_length] using this
    rw [sobol_dense_wrowsAll a _ j hwl' (by rw [hjl, hal]),
      sobol_openVal_maskSel mask _ j k (by rw [← has]; exact hml) (by rw [hjl, hkl]), had j hjl, sobolExtW_eq]
    unfold varTerm
    rw [shape_length]
    by_cases h : j = List.replicate t.length 0
    · rw [if_pos h, if_pos h]; ring
    · rw [if_neg h, if_neg h]; ring
  cases normalize with
  | false =>
    refine ⟨[{ core := c, U := Option.none }], ?_, hvs, fun k hk' => by rw [hval k hk']; rfl⟩
    unfold Tensor.sobol
    rw [ha]
    simp only [hopen, if_true, sobol_memo_eq, Tensor.clone, Tensor.sobolMaskBy, sobolWeight_eq, hams, hform]
    rfl
  | true =>
    refine ⟨Tensor.scalarMul ρ2 sgn2 [{ core := c, U := Option.none }], ?_, ?_, ?_⟩
    · unfold Tensor.sobol
      rw [ha]
      simp only [hopen, if_true, sobol_memo_eq, Tensor.clone, Tensor.sobolMaskBy, sobolWeight_eq, hams, hform]
    · rw [(C02.scalarMul_wf_shape ρ2 sgn2 _ hvw).2, hvs]
    · intro k hk'
      rw [C02.scalarMul_dense ρ2 sgn2 _ _ hvw (hc2 rfl) [k] rfl, hval k hk']
      simp only [if_true]
      ring


theorem openVal_oneHot (r N : Nat) (hN : 0 < N) (u : List Nat) (hu : u.length = N) (k : Nat) (hk : k < r) :
    sobolOpenVal (weightOneHot (R := R) r (List.replicate N 2)) u k = if k = u.sum then 1 else 0 := by
  match N, hN, u, hu with
  | n + 1, _, s :: is, hu =>
    have := C16.oneHot_spec (R := R) r 2 (List.replicate n 2) s is k (by simpa using hu) hk
    simp only [List.replicate_succ, sobolOpenVal, weightOneHot, Core.tt_rl, Finset.sum_range_one, List.sum_cons] at this ⊢
    exact this

/-- **`tn.dimension_distribution(t, order, marginals)`** (model `Tensor.dimensionDistribution`: `sobol` with the one-hot
    mask `tn.weight_one_hot(N, order+1)`, entries `1..order` of the returned one-mode tensor): entry `k` is the sum of
    the variance components of the tuples with exactly `k` variables divided by the total variance (`dimDist`);
    with `order = N` the entries sum to 1 (`dimDist_sum`). -/
theorem dimension_distribution_eq (t : Tensor R) (order : Nat) (margs : List (Option (Nat → R))) (ρ sgn ρ2 sgn2 : R)
    (ht : t.WF) (hl : margs.length = t.length) (ho : 1 ≤ order)
    (hc : sgn * ρ ^ t.length = boxSum t.shape (fun x => prodW (margsN t.shape margs) x * t.dense x))
    (hc2 : sgn2 * ρ2 ^ 1 = 1 / sobolDen (margsN t.shape margs) t.shape t.dense) :
    t.dimensionDistribution order margs ρ sgn ρ2 sgn2
      = .ok ((List.range order).map fun k => dimDist (margsN t.shape margs) t.shape t.dense (k + 1)) := by
  have hN : 0 < t.length := by
    cases t with
    | nil => simp [Tensor.WF] at ht
    | cons _ _ => simp
  have hne : List.replicate t.length 2 ≠ [] := by
    intro h; rw [List.replicate_eq_nil_iff] at h; omega
  obtain ⟨w1, w2, w3, w4⟩ := sobol_weightOneHot_spec (R := R) (order + 1) (List.replicate t.length 2) hne
  have hkl : (weightOneHot (R := R) (order + 1) (List.replicate t.length 2)).length = t.length := by
    have := congrArg List.length w2; simpa [Tensor.shape] using this
  have hlr : sobolLastRR (weightOneHot (R := R) (order + 1) (List.replicate t.length 2)) = order + 1 := by
    cases hm : weightOneHot (R := R) (order + 1) (List.replicate t.length 2) with
    | nil => rw [hm] at w1; simp [Tensor.WF] at w1
    | cons m ms =>
      have hm1 : m.core.rl = 1 := by
        cases hr : List.replicate t.length 2 with
        | nil => exact absurd hr hne
        | cons x xs => rw [hr] at hm; simp only [weightOneHot, List.cons.injEq] at hm; rw [← hm.1]; rfl
      rw [← sobol_outRank_lastRR m ms 1, ← hm]; exact w3
  obtain ⟨v, hv, _, hvd⟩ := sobol_open_eq t _ margs true ρ sgn ρ2 sgn2 ht w1 hl hkl (w4 (by omega)) hc (fun _ => hc2)
  unfold Tensor.dimensionDistribution
  rw [hv]
  simp only
  congr 1
  apply List.map_congr_left; intro k hk
  have hk' : k + 1 < order + 1 := by have := List.mem_range.mp hk; omega
  rw [hvd (k + 1) (by rw [hlr]; exact hk')]
  simp only [if_true]
  unfold dimDist
  congr 1
  have e : sobolNum (margsN t.shape margs) t.shape t.dense
        (fun j => sobolOpenVal (weightOneHot (R := R) (order + 1) (List.replicate t.length 2))
          (sobolClampL (weightOneHot (R := R) (order + 1) (List.replicate t.length 2)).shape j) (k + 1))
      = sobolNum (margsN t.shape margs) t.shape t.dense (fun j => (fun u => if u.sum = k + 1 then (1 : R) else 0) (sobolSuppL j)) := by
    unfold sobolNum
    apply boxSum_congr_in; intro j hj
    have hjl : j.length = t.length := by
      have := inShape_length j _ hj; simpa [shape_length] using this
    simp only [w2, clampL_two t.length j hjl]
    rw [openVal_oneHot (order + 1) t.length hN (sobolSuppL j) (by rw [suppL_length, hjl]) (k + 1) hk']
    by_cases h : k + 1 = (sobolSuppL j).sum
    · simp [h]
    · have h' : ¬ (sobolSuppL j).sum = k + 1 := fun hh => h hh.symm
      simp [h, h']
  rw [e, sobolNum_subsets _ _ _ (fun u => if u.sum = k + 1 then (1 : R) else 0)]
  apply boxSum_congr; intro u
  split <;> simp

end openbond

/-! ### the consequences, at the level of what the routines return -/
section tensor_level
variable [Field R] [LinearOrder R] [IsStrictOrderedRing R]

theorem suppL_inBox : ∀ (ns j : List Nat), inShape j (ns.map (· + 1)) → inShape (sobolSuppL j) (List.replicate ns.length 2) := by
  intro ns
  induction ns with
  | nil => intro j h; cases j with
    | nil => trivial
    | cons _ _ => simp [inShape] at h
  | cons n ns ih =>
    intro j h
    cases j with
    | nil => simp [inShape] at h
    | cons i is =>
      refine ⟨?_, ih is h.2⟩
      show (if i = 0 then 0 else 1) < 2
      split <;> omega

/-- **a Sobol index of a mask over the 2-symbol box with values in `[0,1]` (0/1 masks: Boolean formulas, `tn.only`,
    weight masks) lies in `[0,1]`**, for non-negative marginals and positive total variance: what `tn.sobol` returns -/
theorem sobol_unit_interval (t mask : Tensor R) (margs : List (Option (Nat → R))) (ρ sgn ρ2 sgn2 : R)
    (ht : t.WF) (hk : mask.WF) (hl : margs.length = t.length) (hks : mask.shape = List.replicate t.length 2)
    (hclosed : mask.sobolOpenBond = false)
    (hc : sgn * ρ ^ t.length = boxSum t.shape (fun x => prodW (margsN t.shape margs) x * t.dense x))
    (hw : MargsNonneg t.shape margs)
    (hm : ∀ u, inShape u (List.replicate t.length 2) → 0 ≤ mask.dense u ∧ mask.dense u ≤ 1)
    (hD : 0 < sobolDen (margsN t.shape margs) t.shape t.dense) :
    ∃ x, t.sobol mask margs true ρ sgn ρ2 sgn2 = .ok (.inr x) ∧ 0 ≤ x ∧ x ≤ 1 := by
  have hkl : mask.length = t.length := by
    have := congrArg List.length hks; simpa [Tensor.shape] using this
  refine ⟨_, sobol_eq t mask margs true ρ sgn ρ2 sgn2 ht hk hl hkl hclosed hc, ?_⟩
  simp only [if_true]
  apply sobol_mem_unit _ _ _ _ (margsN_nonneg _ _ hw) _ hD
  intro j hj
  have hjl : j.length = t.length := by
    have := inShape_length j _ hj; simpa [shape_length] using this
  rw [hks, clampL_two t.length j hjl]
  have := suppL_inBox t.shape j hj
  rw [shape_length] at this
  exact hm _ this

/-- **monotonicity of `tn.sobol` in the mask** (masks over the 2-symbol box): `mask₁ ≤ mask₂` entry-wise implies
    `sobol(mask₁) ≤ sobol(mask₂)` — closed ≤ total indices, a total index dominates every variance component whose
    tuple contains the variable -/
theorem sobol_monotone (t m1 m2 : Tensor R) (margs : List (Option (Nat → R))) (ρ sgn ρ2 sgn2 : R)
    (ht : t.WF) (hk1 : m1.WF) (hk2 : m2.WF) (hl : margs.length = t.length)
    (hs1 : m1.shape = List.replicate t.length 2) (hs2 : m2.shape = List.replicate t.length 2)
    (hc1 : m1.sobolOpenBond = false) (hc2 : m2.sobolOpenBond = false)
    (hc : sgn * ρ ^ t.length = boxSum t.shape (fun x => prodW (margsN t.shape margs) x * t.dense x))
    (hw : MargsNonneg t.shape margs)
    (hm : ∀ u, inShape u (List.replicate t.length 2) → m1.dense u ≤ m2.dense u) :
    ∃ x1 x2, t.sobol m1 margs true ρ sgn ρ2 sgn2 = .ok (.inr x1) ∧ t.sobol m2 margs true ρ sgn ρ2 sgn2 = .ok (.inr x2) ∧
      x1 ≤ x2 := by
  have hkl1 : m1.length = t.length := by
    have := congrArg List.length hs1; simpa [Tensor.shape] using this
  have hkl2 : m2.length = t.length := by
    have := congrArg List.length hs2; simpa [Tensor.shape] using this
  refine ⟨_, _, sobol_eq t m1 margs true ρ sgn ρ2 sgn2 ht hk1 hl hkl1 hc1 hc,
    sobol_eq t m2 margs true ρ sgn ρ2 sgn2 ht hk2 hl hkl2 hc2 hc, ?_⟩
  simp only [if_true]
  apply sobol_mono _ _ _ _ _ (margsN_nonneg _ _ hw)
  intro j hj
  have hjl : j.length = t.length := by
    have := inShape_length j _ hj; simpa [shape_length] using this
  rw [hs1, hs2, clampL_two t.length j hjl]
  have := suppL_inBox t.shape j hj
  rw [shape_length] at this
  exact hm _ this

/-- **`tn.mean_dimension` is at least 1** (non-negative marginals, positive total variance) -/
theorem mean_dimension_ge_one (t : Tensor R) (margs : List (Option (Nat → R))) (ρ sgn : R) (ht : t.WF)
    (hl : margs.length = t.length)
    (hc : sgn * ρ ^ t.length = boxSum t.shape (fun x => prodW (margsN t.shape margs) x * t.dense x))
    (hw : MargsNonneg t.shape margs) (hD : 0 < sobolDen (margsN t.shape margs) t.shape t.dense) :
    ∃ x, t.meanDimension margs ρ sgn = .ok x ∧ 1 ≤ x :=
  ⟨_, mean_dimension_eq t margs ρ sgn ht hl hc, meanDim_ge_one _ _ _ (margsN_nonneg _ _ hw) hD⟩

end tensor_level

section tensor_level_field
variable [Field R]

theorem list_sum_map_range (n : Nat) (f : Nat → R) : ((List.range n).map f).sum = ∑ k ∈ range n, f k := by
  induction n with
  | zero => simp
  | succ n ih => rw [List.range_succ, List.map_append, List.sum_append, ih, Finset.sum_range_succ]; simp

/-- **the dimension distribution `tn.dimension_distribution(t)` sums to 1** (all `N` orders, total variance not zero) -/
theorem dimension_distribution_sum (t : Tensor R) (margs : List (Option (Nat → R))) (ρ sgn ρ2 sgn2 : R)
    (ht : t.WF) (hl : margs.length = t.length)
    (hc : sgn * ρ ^ t.length = boxSum t.shape (fun x => prodW (margsN t.shape margs) x * t.dense x))
    (hc2 : sgn2 * ρ2 ^ 1 = 1 / sobolDen (margsN t.shape margs) t.shape t.dense)
    (hD : sobolDen (margsN t.shape margs) t.shape t.dense ≠ 0) :
    ∃ l, t.dimensionDistribution t.length margs ρ sgn ρ2 sgn2 = .ok l ∧ l.length = t.length ∧ l.sum = 1 := by
  have hN : 1 ≤ t.length := by
    cases t with
    | nil => simp [Tensor.WF] at ht
    | cons _ _ => simp
  refine ⟨_, dimension_distribution_eq t t.length margs ρ sgn ρ2 sgn2 ht hl hN hc hc2, by simp, ?_⟩
  rw [list_sum_map_range]
  have := dimDist_sum (margsN t.shape margs) t.shape t.dense hD
  rw [shape_length] at this
  exact this

/-- **the mean dimension is the expectation of the dimension distribution**: what `tn.mean_dimension` returns is
    `Σ_k k · dist(k)` with `dist` what `tn.dimension_distribution` returns -/
theorem mean_dimension_eq_sum (t : Tensor R) (margs : List (Option (Nat → R))) (ρ sgn ρ2 sgn2 : R)
    (ht : t.WF) (hl : margs.length = t.length)
    (hc : sgn * ρ ^ t.length = boxSum t.shape (fun x => prodW (margsN t.shape margs) x * t.dense x))
    (hc2 : sgn2 * ρ2 ^ 1 = 1 / sobolDen (margsN t.shape margs) t.shape t.dense) :
    ∃ x l, t.meanDimension margs ρ sgn = .ok x ∧ t.dimensionDistribution t.length margs ρ sgn ρ2 sgn2 = .ok l ∧
      x = ∑ k ∈ range t.length, ((k + 1 : Nat) : R) * l.getD k 0 := by
  have hN : 1 ≤ t.length := by
    cases t with
    | nil => simp [Tensor.WF] at ht
    | cons _ _ => simp
  refine ⟨_, _, mean_dimension_eq t margs ρ sgn ht hl hc,
    dimension_distribution_eq t t.length margs ρ sgn ρ2 sgn2 ht hl hN hc hc2, ?_⟩
  rw [meanDim_eq, shape_length]
  apply Finset.sum_congr rfl; intro k hk
  have hk' := Finset.mem_range.mp hk
  simp [List.getD, hk']

end tensor_level_field

section centred
variable [Field R]

/-- **every ANOVA term of a non-empty tuple has mean zero** under the product of the marginals — so its second moment
    (`varcomp_eq_term_variance`) is its variance -/
theorem term_mean_zero : ∀ (ws : List (Nat → R)) (ns u : List Nat) (f : List Nat → R), Normalized ws ns →
    inShape u (List.replicate ns.length 2) → u ≠ List.replicate ns.length 0 →
    boxSum ns (fun x => prodW ws x * anovaArr ws ns f (embedL u x)) = 0 := by
  intro ws
  induction ws with
  | nil =>
    intro ns u f h hu hne
    cases ns with
    | nil =>
      cases u with
      | nil => exact absurd rfl hne
      | cons _ _ => simp [inShape] at hu
    | cons _ _ => simp [Normalized] at h
  | cons w ws ih =>
    intro ns u f h hu hne
    cases ns with
    | nil => simp [Normalized] at h
    | cons n ns =>
      obtain ⟨hw, hrest⟩ := h
      cases u with
      | nil => simp [inShape] at hu
      | cons b u =>
        obtain ⟨hb, hu'⟩ := hu
        simp only [boxSum, sumTo_eq, prodW, embedL, anovaArr, anovaMaps, applyMaps]
        -- pull the sum over the source index of the first mode out of the box sum
        have e : ∀ x ∈ range n,
            boxSum ns (fun xs => w x * prodW ws xs *
              ∑ k ∈ range n, anovaL n w (if b = 0 then 0 else x + 1) k *
                applyMaps (anovaMaps ws ns) ns (fun ks => f (k :: ks)) (embedL u xs))
            = ∑ k ∈ range n, (w x * anovaL n w (if b = 0 then 0 else x + 1) k) *
                boxSum ns (fun xs => prodW ws xs * anovaArr ws ns (fun ks => f (k :: ks)) (embedL u xs)) := by
          intro x _
          have : (fun xs => w x * prodW ws xs *
              ∑ k ∈ range n, anovaL n w (if b = 0 then 0 else x + 1) k *
                applyMaps (anovaMaps ws ns) ns (fun ks => f (k :: ks)) (embedL u xs))
              = (fun xs => ∑ k ∈ range n, (w x * anovaL n w (if b = 0 then 0 else x + 1) k) *
                  (prodW ws xs * anovaArr ws ns (fun ks => f (k :: ks)) (embedL u xs))) := by
            funext xs; rw [Finset.mul_sum]; apply Finset.sum_congr rfl; intro k _; ring
          rw [this, boxSum_sum]
          apply Finset.sum_congr rfl; intro k _
          rw [boxSum_mul_left]
        rw [Finset.sum_congr rfl e]
        have hb2 : b = 0 ∨ b = 1 := by omega
        rcases hb2 with rfl | rfl
        · -- the variable is integrated out: the rest of the tuple is non-empty
          have hne' : u ≠ List.replicate ns.length 0 := by
            intro h; apply hne; simp [List.replicate_succ, h]
          apply Finset.sum_eq_zero; intro x _
          apply Finset.sum_eq_zero; intro k _
          rw [ih ns u (fun ks => f (k :: ks)) hrest hu' hne', mul_zero]
        · -- the variable is present: the centred rows have zero weighted mean
          rw [Finset.sum_comm]
          apply Finset.sum_eq_zero; intro k hk
          simp only [one_ne_zero, if_false]
          rw [← Finset.sum_mul, C10.anova_centered n w hw k (Finset.mem_range.mp hk), zero_mul]

end centred

/-! ### non-vacuity: the hypotheses of the theorems above hold on a concrete rank-2 tensor over ℚ -/
section nonvacuous
/-- `tn.symbols(2)[0]` : "variable 0 is in the tuple" -/
def exMask : Tensor ℚ :=
  [ { core := .tt 1 2 1 (fun _ j _ => if j = 0 then 0 else 1), U := Option.none },
    { core := .tt 1 2 1 (fun _ _ _ => 1), U := Option.none } ]
/-- `tn.true(2)` -/
def exMask1 : Tensor ℚ :=
  [ { core := .tt 1 2 1 (fun _ _ _ => 1), U := Option.none },
    { core := .tt 1 2 1 (fun _ _ _ => 1), U := Option.none } ]
/-- a rank-2 function of two variables: `f(x, y) = x·(y+1) + y` on the `2 × 2` grid -/
def exS : Tensor ℚ :=
  [ { core := .tt 1 2 2 (fun _ j b => if b = 0 then (j : ℚ) else 1), U := Option.none },
    { core := .tt 2 2 1 (fun a j _ => if a = 0 then (j : ℚ) + 1 else (j : ℚ)), U := Option.none } ]
/-- marginals: `(1, 2)` (not normalised) on the first variable, `None` on the second -/
def exMargs : List (Option (Nat → ℚ)) := [some (fun i => (i : ℚ) + 1), Option.none]

theorem exS_wf : exS.WF := by simp [exS, Tensor.WF, Tensor.WFfrom, TMode.ok, Core.rl, Core.rr]
theorem exMask_wf : exMask.WF := by simp [exMask, Tensor.WF, Tensor.WFfrom, TMode.ok, Core.rl, Core.rr]
theorem exMask1_wf : exMask1.WF := by simp [exMask1, Tensor.WF, Tensor.WFfrom, TMode.ok, Core.rl, Core.rr]

theorem exS_shape : exS.shape = [2, 2] := by simp [exS, Tensor.shape, TMode.n, Core.spatial]
theorem exMargs_sum : MargsSumNe exS.shape exMargs := by
  rw [exS_shape]; simp [MargsSumNe, exMargs, sobolMargS, sumTo]; norm_num
theorem exMargs_nonneg : MargsNonneg exS.shape exMargs := by
  rw [exS_shape]
  refine ⟨fun i _ => ?_, trivial⟩
  positivity
theorem exS_dense (x y : Nat) : exS.dense [x, y] = (x : ℚ) * ((y : ℚ) + 1) + y := by
  simp [exS, Tensor.dense, dense, tail, Tensor.modes, TMode.toMode, TMode.decomp, Core.get, Core.rl, Core.rr, sumTo]
theorem exS_var : sobolDen (margsN exS.shape exMargs) exS.shape exS.dense = 5 / 4 := by
  rw [total_variance _ _ _ (margsN_normalized _ _ (by simp [exMargs, exS_shape]) exMargs_sum), exS_shape]
  simp [boxSum, sumTo, prodW, margsN, normW, sobolMargS, exMargs, exS_dense]
  norm_num

/-- the weighted mean of `exS` is `3/2`: the kernel contract `sgn · ρ^N = mean` holds with `ρ = 1`, `sgn = 3/2` -/
theorem exS_contract : (3 / 2 : ℚ) * 1 ^ exS.length
    = boxSum exS.shape (fun x => prodW (margsN exS.shape exMargs) x * exS.dense x) := by
  rw [exS_shape]
  simp [boxSum, sumTo, prodW, margsN, normW, sobolMargS, exMargs, exS_dense]
  norm_num
theorem exMask_dense (a b : Nat) : exMask.dense [a, b] = if a = 0 then 0 else 1 := by
  simp [exMask, Tensor.dense, dense, tail, Tensor.modes, TMode.toMode, TMode.decomp, Core.get, Core.rl, Core.rr, sumTo]
theorem exMask1_dense (a b : Nat) : exMask1.dense [a, b] = 1 := by
  simp [exMask1, Tensor.dense, dense, tail, Tensor.modes, TMode.toMode, TMode.decomp, Core.get, Core.rl, Core.rr, sumTo]
theorem exBox (u : List Nat) (hu : inShape u (List.replicate exS.length 2)) : ∃ a b, u = [a, b] := by
  match u, hu with
  | [a, b], _ => exact ⟨a, b, rfl⟩
theorem exMask_unit : ∀ u, inShape u (List.replicate exS.length 2) → 0 ≤ exMask.dense u ∧ exMask.dense u ≤ 1 := by
  intro u hu
  obtain ⟨a, b, rfl⟩ := exBox u hu
  rw [exMask_dense]; split <;> norm_num
theorem exMask_le : ∀ u, inShape u (List.replicate exS.length 2) → exMask.dense u ≤ exMask1.dense u := by
  intro u hu
  obtain ⟨a, b, rfl⟩ := exBox u hu
  rw [exMask_dense, exMask1_dense]; split <;> norm_num
theorem exS_contract2 : (1 : ℚ) * (4 / 5) ^ 1 = 1 / sobolDen (margsN exS.shape exMargs) exS.shape exS.dense := by
  rw [exS_var]; norm_num

example := sobol_eq exS exMask exMargs true 1 (3 / 2) 1 1 exS_wf exMask_wf rfl rfl rfl exS_contract
example := sobol_eq exS exMask exMargs false 1 (3 / 2) 1 1 exS_wf exMask_wf rfl rfl rfl exS_contract
example := sobol_eq_subsets exS exMask exMargs true 1 (3 / 2) 1 1 exS_wf exMask_wf rfl rfl rfl exS_contract
example := total_variance _ _ exS.dense (margsN_normalized exS.shape exMargs rfl exMargs_sum)
example := varcomp_eq_term_variance _ exS.shape [1, 0] exS.dense (margsN_normalized exS.shape exMargs rfl exMargs_sum)
  (by rw [exS_shape]; simp [inShape]) (by rw [exS_shape]; simp)
example := term_mean_zero _ exS.shape [1, 0] exS.dense (margsN_normalized exS.shape exMargs rfl exMargs_sum)
  (by rw [exS_shape]; simp [inShape]) (by rw [exS_shape]; simp)
example := sobol_unit_interval exS exMask exMargs 1 (3 / 2) 1 1 exS_wf exMask_wf rfl rfl rfl exS_contract exMargs_nonneg
  exMask_unit (by rw [exS_var]; norm_num)
example := sobol_monotone exS exMask exMask1 exMargs 1 (3 / 2) 1 1 exS_wf exMask_wf exMask1_wf rfl rfl rfl rfl rfl
  exS_contract exMargs_nonneg exMask_le
example := mean_dimension_eq exS exMargs 1 (3 / 2) exS_wf rfl exS_contract
example := mean_dimension_ge_one exS exMargs 1 (3 / 2) exS_wf rfl exS_contract exMargs_nonneg (by rw [exS_var]; norm_num)
example := sobol_weight_mask exS exMargs 1 3 (by decide) 1 (3 / 2) 1 1 exS_wf rfl exS_contract
example := sobol_open_eq exS (weightOneHot 3 [2, 2]) exMargs true 1 (3 / 2) (4 / 5) 1 exS_wf
  (sobol_weightOneHot_spec 3 [2, 2] (by simp)).1 rfl rfl ((sobol_weightOneHot_spec 3 [2, 2] (by simp)).2.2.2 (by decide))
  exS_contract (fun _ => exS_contract2)
example := dimension_distribution_eq exS 2 exMargs 1 (3 / 2) (4 / 5) 1 exS_wf rfl (by decide) exS_contract exS_contract2
example := dimension_distribution_sum exS exMargs 1 (3 / 2) (4 / 5) 1 exS_wf rfl exS_contract exS_contract2
  (by rw [exS_var]; norm_num)
example := mean_dimension_eq_sum exS exMargs 1 (3 / 2) (4 / 5) 1 exS_wf rfl exS_contract exS_contract2

end nonvacuous

/-! ## `tn.dimension_distribution` restricted to a mask (anova.py:209-213) -/
section dimension_mask
variable [Field R]

/-- entry `k` of the **dimension distribution restricted to a mask** `μ` over the `2^N` tuples of variables: the
    `μ`-weighted variance components of the tuples with exactly `k` variables, divided by the `μ`-weighted sum of the
    variance components of ALL tuples (both under the same marginals `ws`).  For a 0/1 mask: `dimDistMask_zero_one`. -/
def dimDistMask (ws : List (Nat → R)) (ns : List Nat) (f : List Nat → R) (μ : List Nat → R) (k : Nat) : R :=
  boxSum (List.replicate ns.length 2) (fun u => if u.sum = k then μ u * varcomp ws ns f u else 0)
    / boxSum (List.replicate ns.length 2) (fun u => μ u * varcomp ws ns f u)

/-- for a 0/1 mask: (sum of the variance components of the tuples `u` with `|u| = k` and `M(u) = 1`) divided by
    (sum of the variance components of all tuples with `M(u) = 1`) -/
theorem dimDistMask_zero_one [DecidableEq R] (ws : List (Nat → R)) (ns : List Nat) (f : List Nat → R) (μ : List Nat → R)
    (k : Nat) (h01 : ∀ u, inShape u (List.replicate ns.length 2) → μ u = 0 ∨ μ u = 1) :
    dimDistMask ws ns f μ k
      = boxSum (List.replicate ns.length 2) (fun u => if u.sum = k ∧ μ u = 1 then varcomp ws ns f u else 0)
        / boxSum (List.replicate ns.length 2) (fun u => if μ u = 1 then varcomp ws ns f u else 0) := by
  unfold dimDistMask
  congr 1
  · apply boxSum_congr_in; intro u hu
    rcases h01 u hu with h | h <;> simp [h]
  · apply boxSum_congr_in; intro u hu
    rcases h01 u hu with h | h <;> simp [h]

/-- **the restricted dimension distribution sums to 1** (entries `1..N`) as soon as the mask-weighted variance is not
    zero.  No hypothesis on `μ(∅)`: the empty tuple has no variance (`varcomp_empty`), so it neither contributes to the
    denominator nor is anything lost by dropping entry 0. -/
theorem dimDistMask_sum (ws : List (Nat → R)) (ns : List Nat) (f : List Nat → R) (μ : List Nat → R)
    (hM : boxSum (List.replicate ns.length 2) (fun u => μ u * varcomp ws ns f u) ≠ 0) :
    (∑ k ∈ range ns.length, dimDistMask ws ns f μ (k + 1)) = 1 := by
  unfold dimDistMask
  simp only [div_eq_mul_inv]
  rw [← Finset.sum_mul, ← boxSum_sum]
  have e : boxSum (List.replicate ns.length 2)
      (fun u => ∑ k ∈ range ns.length, if u.sum = k + 1 then μ u * varcomp ws ns f u else 0)
      = boxSum (List.replicate ns.length 2) (fun u => μ u * varcomp ws ns f u) := by
    apply boxSum_congr_in; intro u hu
    have := sum_by_size ws ns f (fun _ => μ u) u hu
    simp only [mul_ite, mul_zero] at this
    exact this
  rw [e, mul_inv_cancel₀ hM]

/-- the hypothesis of `dimDistMask_sum` is needed: under a mask that selects nothing the entries are all `0/0`
    (Python: `nan`; field convention `x/0 = 0`) and do not sum to 1 -/
example (ws : List (Nat → R)) (ns : List Nat) (f : List Nat → R) :
    (∑ k ∈ range ns.length, dimDistMask ws ns f (fun _ => 0) (k + 1)) = 0 := by
  simp [dimDistMask, boxSum_zero]

theorem suppL_idem (j : List Nat) : sobolSuppL (sobolSuppL j) = sobolSuppL j := by
  unfold sobolSuppL
  rw [List.map_map]
  apply List.map_congr_left; intro i _
  by_cases h : i = 0 <;> simp [h]

/-- **`tn.dimension_distribution(t, mask=M, order=order, marginals=marginals)`** (model
    `Tensor.dimensionDistributionMask`: `mask2 = tn.mask(weight_one_hot(N, order+1), M)`, entries `1..order` of
    `sobol(t, mask2)` divided by `sobol(t, M)`, both calls with the same marginals) for a closed mask `M` over the `2^N` box
    (`tn.symbols`, `~x`, `x | y`, `x & ~y`, `tn.only(x)` …): the routine does not fail and entry `k` (`k = 1..order`) is
    `Σ_{|u| = k} M(u)·D_u / Σ_u M(u)·D_u`, `D_u` the variance component of the tuple `u` under the given marginals
    (`dimDistMask`; for a 0/1 mask the two sums run over the tuples with `M(u) = 1`: `dimDistMask_zero_one`).
    The entry 0 dropped by `[1:]` is the empty tuple's, whose variance component is 0 whatever `M(∅)` is; the
    denominator `sobol(t, M)` contains the empty tuple with that same weight 0.
    Hypotheses: total variance `D ≠ 0` (Python: `nan` otherwise); kernel contracts as in `dimension_distribution_eq`.
    If `Σ_u M(u)·D_u = 0` Python returns `nan`/`inf` entries, the field convention `x/0 = 0` makes both sides 0. -/
theorem dimension_distribution_mask_eq (t mask : Tensor R) (order : Nat) (margs : List (Option (Nat → R)))
    (ρ sgn ρ2 sgn2 : R)
    (ht : t.WF) (hk : mask.WF) (hl : margs.length = t.length) (hks : mask.shape = List.replicate t.length 2)
    (hclosed : sobolLastRR mask = 1) (ho : 1 ≤ order)
    (hc : sgn * ρ ^ t.length = boxSum t.shape (fun x => prodW (margsN t.shape margs) x * t.dense x))
    (hc2 : sgn2 * ρ2 ^ 1 = 1 / sobolDen (margsN t.shape margs) t.shape t.dense)
    (hD : sobolDen (margsN t.shape margs) t.shape t.dense ≠ 0) :
    t.dimensionDistributionMask mask order margs ρ sgn ρ2 sgn2
      = .ok ((List.range order).map fun k =>
          dimDistMask (margsN t.shape margs) t.shape t.dense mask.dense (k + 1)) := by
  have hN : 0 < t.length := by
    cases t with
    | nil => simp [Tensor.WF] at ht
    | cons _ _ => simp
  have hne : List.replicate t.length 2 ≠ [] := by
    intro h; rw [List.replicate_eq_nil_iff] at h; omega
  obtain ⟨w1, w2, w3, _⟩ := sobol_weightOneHot_spec (R := R) (order + 1) (List.replicate t.length 2) hne
  generalize hoh : weightOneHot (R := R) (order + 1) (List.replicate t.length 2) = oh at w1 w2 w3
  have hkl : mask.length = t.length := by
    have := congrArg List.length hks; simpa [Tensor.shape] using this
  have hohl : oh.length = t.length := by
    have := congrArg List.length w2; simpa [Tensor.shape] using this
  have hkne : mask ≠ [] := by intro h; rw [h] at hk; simp [Tensor.WF] at hk
  have hohne : oh ≠ [] := by intro h; rw [h] at w1; simp [Tensor.WF] at w1
  have hsl : oh.shape.length = mask.length := by rw [shape_length, hohl, hkl]
  have hselw := sobol_WF_maskSel mask oh.shape hsl hk
  have hsels := sobol_shape_maskSel mask oh.shape hsl
  obtain ⟨hm2w, hm2s⟩ := C02.mul_wf_shape oh (Tensor.sobolMaskSel oh.shape mask) w1 hselw hsels.symm
  have hm2 : dimDistMask2 t.length order mask = oh.mul (Tensor.sobolMaskSel oh.shape mask) := by
    unfold dimDistMask2 Tensor.sobolMaskBy; rw [sobol_memo_eq, hoh]
  have hselr : sobolLastRR (Tensor.sobolMaskSel oh.shape mask) = 1 := by
    rw [sobol_lastRR_maskSel mask oh.shape hsl hkne]; exact hclosed
  have hohr : sobolLastRR oh = order + 1 := by
    cases hm : oh with
    | nil => exact absurd hm hohne
    | cons m ms =>
      have hm1 : m.core.rl = 1 := by
        cases hr : List.replicate t.length 2 with
        | nil => exact absurd hr hne
        | cons x xs =>
          rw [hr, hm] at hoh; simp only [weightOneHot, List.cons.injEq] at hoh; rw [← hoh.1]; rfl
      rw [← sobol_outRank_lastRR m ms 1, ← hm]; exact w3
  have hm2r : sobolLastRR (oh.mul (Tensor.sobolMaskSel oh.shape mask)) = order + 1 := by
    rw [dimdistmask_lastRR_mul oh _ w1 hselw hsels.symm, hohr, hselr, mul_one]
  have hm2ne : oh.mul (Tensor.sobolMaskSel oh.shape mask) ≠ [] := by
    intro h; rw [h] at hm2w; simp [Tensor.WF] at hm2w
  have hm2open : (oh.mul (Tensor.sobolMaskSel oh.shape mask)).sobolOpenBond = true := by
    apply dimdistmask_openBond_of _ hm2ne
    · rw [sobol_mul_eq_zip _ _ hsels.symm]
      apply dimdistmask_zip_notCP
      rw [← hoh]; exact dimdistmask_oneHot_plain _ _
    · rw [hm2r]; omega
  have hm2l : (oh.mul (Tensor.sobolMaskSel oh.shape mask)).length = t.length := by
    have := congrArg List.length hm2s; rw [shape_length, shape_length] at this; rw [this, hohl]
  obtain ⟨v, hv, hvs, hvd⟩ := sobol_open_eq t _ margs true ρ sgn ρ2 sgn2 ht hm2w hl hm2l hm2open hc (fun _ => hc2)
  have hmclosed : mask.sobolOpenBond = false := by
    cases h : mask.sobolOpenBond with
    | false => rfl
    | true => have := sobol_openBond_lastRR mask h; omega
  have hs := sobol_eq_subsets t mask margs true ρ sgn ρ2 sgn2 ht hk hl hks hmclosed hc
  unfold Tensor.dimensionDistributionMask
  simp only [hm2, hv, hs, hvs, hm2r, if_true, Nat.add_sub_cancel]
  congr 1
  apply List.map_congr_left; intro k hk'
  have hk'' : k + 1 < order + 1 := by have := List.mem_range.mp hk'; omega
  rw [hvd (k + 1) (by rw [hm2r]; exact hk'')]
  simp only [if_true]
  -- the numerator of the open-bond call, as a sum over the tuples of variables
  have e : sobolNum (margsN t.shape margs) t.shape t.dense
        (fun j => sobolOpenVal (oh.mul (Tensor.sobolMaskSel oh.shape mask))
          (sobolClampL (oh.mul (Tensor.sobolMaskSel oh.shape mask)).shape j) (k + 1))
      = sobolNum (margsN t.shape margs) t.shape t.dense
        (fun j => (fun u => (if u.sum = k + 1 then (1 : R) else 0) * mask.dense u) (sobolSuppL j)) := by
    unfold sobolNum
    apply boxSum_congr_in; intro j hj
    have hjl : j.length = t.length := by
      have := inShape_length j _ hj; simpa [shape_length] using this
    have hul : (sobolSuppL j).length = t.length := by rw [suppL_length, hjl]
    have hcl : sobolClampL oh.shape j = sobolSuppL j := by rw [w2]; exact clampL_two t.length j hjl
    beta_reduce
    rw [hm2s, hcl]
    rw [dimdistmask_openVal_mul oh _ w1 hselw hsels.symm hselr (sobolSuppL j) (by rw [hul, hohl]) (k + 1),
      sobol_dense_maskSel mask _ (sobolSuppL j) hsl (by rw [hul, hkl]), hks, clampL_two t.length _ hul, suppL_idem,
      ← hoh, openVal_oneHot (order + 1) t.length hN (sobolSuppL j) hul (k + 1) hk'']
    by_cases h : k + 1 = (sobolSuppL j).sum
    · simp [h]
    · have h' : ¬ (sobolSuppL j).sum = k + 1 := fun hh => h hh.symm
      simp [h, h']
  rw [e, sobolNum_subsets _ _ _ (fun u => (if u.sum = k + 1 then (1 : R) else 0) * mask.dense u), sobolDen_subsets,
    shape_length]
  unfold dimDistMask
  rw [shape_length]
  have hD' : boxSum (List.replicate t.length 2) (varcomp (margsN t.shape margs) t.shape t.dense) ≠ 0 := by
    rw [← shape_length t, ← sobolDen_subsets]; exact hD
  rw [div_div_div_cancel_right₀ hD']
  congr 1
  apply boxSum_congr; intro u
  split <;> simp

/-- `dimension_distribution_mask_eq` for a **0/1 mask**: entry `k` is (the sum of the variance components of the tuples
    `u` with `|u| = k` and `M(u) = 1`) divided by (the sum of the variance components of all tuples with `M(u) = 1`) -/
theorem dimension_distribution_mask_eq_zero_one [DecidableEq R] (t mask : Tensor R) (order : Nat)
    (margs : List (Option (Nat → R))) (ρ sgn ρ2 sgn2 : R)
    (ht : t.WF) (hk : mask.WF) (hl : margs.length = t.length) (hks : mask.shape = List.replicate t.length 2)
    (h01 : ∀ u, inShape u (List.replicate t.length 2) → mask.dense u = 0 ∨ mask.dense u = 1)
    (hclosed : sobolLastRR mask = 1) (ho : 1 ≤ order)
    (hc : sgn * ρ ^ t.length = boxSum t.shape (fun x => prodW (margsN t.shape margs) x * t.dense x))
    (hc2 : sgn2 * ρ2 ^ 1 = 1 / sobolDen (margsN t.shape margs) t.shape t.dense)
    (hD : sobolDen (margsN t.shape margs) t.shape t.dense ≠ 0) :
    t.dimensionDistributionMask mask order margs ρ sgn ρ2 sgn2
      = .ok ((List.range order).map fun k =>
          boxSum (List.replicate t.length 2)
              (fun u => if u.sum = k + 1 ∧ mask.dense u = 1 then varcomp (margsN t.shape margs) t.shape t.dense u else 0)
            / boxSum (List.replicate t.length 2)
              (fun u => if mask.dense u = 1 then varcomp (margsN t.shape margs) t.shape t.dense u else 0)) := by
  rw [dimension_distribution_mask_eq t mask order margs ρ sgn ρ2 sgn2 ht hk hl hks hclosed ho hc hc2 hD]
  congr 1
  apply List.map_congr_left; intro k _
  rw [dimDistMask_zero_one _ _ _ _ _ (by rw [shape_length]; exact h01), shape_length]

/-- **the restricted dimension distribution `tn.dimension_distribution(t, mask=M)` sums to 1** (all `N` orders) when the
    total variance and the variance under the mask, `Σ_u M(u)·D_u`, are not zero.  Nothing has to be assumed about `M(∅)`:
    `[1:]` drops the entry of the empty tuple, but `sobol` has set the empty term of the ANOVA tensor to 0 beforehand, so that
    entry is 0 and the denominator `sobol(t, M)` does not count the empty tuple either (see the example with `tn.true`,
    where `M(∅) = 1`).  The hypothesis `hM` is needed (`dimDistMask` with the zero mask sums to 0, example above). -/
theorem dimension_distribution_mask_sum (t mask : Tensor R) (margs : List (Option (Nat → R))) (ρ sgn ρ2 sgn2 : R)
    (ht : t.WF) (hk : mask.WF) (hl : margs.length = t.length) (hks : mask.shape = List.replicate t.length 2)
    (hclosed : sobolLastRR mask = 1)
    (hc : sgn * ρ ^ t.length = boxSum t.shape (fun x => prodW (margsN t.shape margs) x * t.dense x))
    (hc2 : sgn2 * ρ2 ^ 1 = 1 / sobolDen (margsN t.shape margs) t.shape t.dense)
    (hD : sobolDen (margsN t.shape margs) t.shape t.dense ≠ 0)
    (hM : boxSum (List.replicate t.length 2)
      (fun u => mask.dense u * varcomp (margsN t.shape margs) t.shape t.dense u) ≠ 0) :
    ∃ l, t.dimensionDistributionMask mask t.length margs ρ sgn ρ2 sgn2 = .ok l ∧ l.length = t.length ∧ l.sum = 1 := by
  have hN : 1 ≤ t.length := by
    cases t with
    | nil => simp [Tensor.WF] at ht
    | cons _ _ => simp
  refine ⟨_, dimension_distribution_mask_eq t mask t.length margs ρ sgn ρ2 sgn2 ht hk hl hks hclosed hN hc hc2 hD,
    by simp, ?_⟩
  rw [list_sum_map_range]
  have := dimDistMask_sum (margsN t.shape margs) t.shape t.dense mask.dense (by rw [shape_length]; exact hM)
  rw [shape_length] at this
  exact this

/-! non-vacuity: `exS` (`f(x, y) = x(y+1) + y`), marginals `((1, 2), None)`, masks `x₀` (`exMask`) and `tn.true(2)`
    (`exMask1`, which contains the empty tuple) -/
theorem exMask1_varsum : boxSum (List.replicate exS.length 2)
    (fun u => exMask1.dense u * varcomp (margsN exS.shape exMargs) exS.shape exS.dense u) = 5 / 4 := by
  rw [← exS_var, sobolDen_subsets, shape_length]
  apply boxSum_congr_in; intro u hu
  obtain ⟨a, b, rfl⟩ := exBox u hu
  rw [exMask1_dense, one_mul]

example := dimension_distribution_mask_eq exS exMask 2 exMargs 1 (3 / 2) (4 / 5) 1 exS_wf exMask_wf rfl rfl rfl
  (by decide) exS_contract exS_contract2 (by rw [exS_var]; norm_num)
example := dimension_distribution_mask_eq_zero_one exS exMask 2 exMargs 1 (3 / 2) (4 / 5) 1 exS_wf exMask_wf rfl rfl
  (fun u hu => by obtain ⟨a, b, rfl⟩ := exBox u hu; rw [exMask_dense]; split <;> simp)
  rfl (by decide) exS_contract exS_contract2 (by rw [exS_var]; norm_num)
/-- the mask `tn.true(2)` has `M(∅) = 1`, and the restricted distribution still sums to 1 -/
example := dimension_distribution_mask_sum exS exMask1 exMargs 1 (3 / 2) (4 / 5) 1 exS_wf exMask1_wf rfl rfl rfl
  exS_contract exS_contract2 (by rw [exS_var]; norm_num) (by rw [exMask1_varsum]; norm_num)

end dimension_mask

end TN.C09
