import TnVerif.Props.C02
import TnVerif.Generated
import Mathlib.Tactic.NormNum
import Mathlib.Tactic.Linarith
import Mathlib.Algebra.Order.Field.Basic
/-!
# C15 — Boolean formulas over tensor symbols have exactly their truth-table semantics

A formula is an arithmetic expression over the symbol tensors (`~a = 1 − a`, `a & b = a·b`,
`a | b = a + b − a·b`, `a ^ b = a + b − 2·a·b`, tensor.py:809-822), so C02's `expr_dense` applies; on
0/1 values the arithmetic is the Boolean connective.  Any number of variables, any formula tree.
-/
namespace TN.C15
open TN Finset C02
variable {R : Type} [CommRing R]

/-- formula trees; `xor` carries the kernel answer `ρ` (with `ρ^N = 2`) of the scalar product `2 * a` -/
inductive BForm (R : Type) where
  | sym (n : Nat)
  | not (a : BForm R)
  | and (a b : BForm R)
  | or (a b : BForm R)
  | xor (ρ : R) (a b : BForm R)

/-- the symbol tensor `presence(N, n)`: ones cores `[1, 1]`, except that mode `n` is `[0, 1]` -/
def symT : Nat → Nat → Tensor R
  | 0, _ => []
  | len + 1, 0 => { core := .tt 1 2 1 (fun _ j _ => if j = 0 then 0 else 1), U := Option.none } :: onesT (List.replicate len 2)
  | len + 1, n + 1 => { core := .tt 1 2 1 (fun _ _ _ => 1), U := Option.none } :: symT len n

/-- what the operator overloads compute -/
def toExpr (N : Nat) : BForm R → Expr R
  | .sym n => .leaf (symT N n)
  | .not a => .sadd 1 (.neg (toExpr N a))
  | .and a b => .mul (toExpr N a) (toExpr N b)
  | .or a b => .sub (.add (toExpr N a) (toExpr N b)) (.mul (toExpr N a) (toExpr N b))
  | .xor ρ a b => .sub (.add (toExpr N a) (toExpr N b)) (.mul (.smul ρ 1 2 (toExpr N a)) (toExpr N b))

/-- truth-table semantics; an assignment is an index list with entries in {0, 1} -/
def evalB : BForm R → List Nat → Bool
  | .sym n, idx => idx.getD n 0 == 1
  | .not a, idx => !evalB a idx
  | .and a b, idx => evalB a idx && evalB b idx
  | .or a b, idx => evalB a idx || evalB b idx
  | .xor _ a b, idx => xor (evalB a idx) (evalB b idx)

def wfB (N : Nat) : BForm R → Prop
  | .sym n => n < N
  | .not a => wfB N a
  | .and a b | .or a b => wfB N a ∧ wfB N b
  | .xor ρ a b => wfB N a ∧ wfB N b ∧ ρ ^ N = 2

def b01 (b : Bool) : R := if b then 1 else 0

/-- on 0/1 values the arithmetic expression is the Boolean connective -/
theorem evalD_bool (N : Nat) (e : BForm R) (idx : List Nat)
    (hsym : ∀ n, n < N → (symT (R := R) N n).dense idx = b01 (idx.getD n 0 == 1)) (hw : wfB N e) :
    evalD (toExpr N e) idx = b01 (evalB e idx) := by
  induction e with
  | sym n => exact hsym n hw
  | not a ih => simp only [toExpr, evalD, evalB, ih hw]; cases evalB a idx <;> simp [b01]
  | and a b iha ihb =>
    simp only [toExpr, evalD, evalB, iha hw.1, ihb hw.2]; cases evalB a idx <;> cases evalB b idx <;> simp [b01]
  | or a b iha ihb =>
    simp only [toExpr, evalD, evalB, iha hw.1, ihb hw.2]; cases evalB a idx <;> cases evalB b idx <;> simp [b01]
  | xor ρ a b iha ihb =>
    simp only [toExpr, evalD, evalB, iha hw.1, ihb hw.2.1]; cases evalB a idx <;> cases evalB b idx <;> simp [b01] <;> ring

/-- the arithmetic expression of a well-formed formula is well-formed for C02 -/
theorem wfExpr_toExpr (N : Nat) (e : BForm R) (hw : wfB N e)
    (hsymwf : ∀ n, n < N → (symT (R := R) N n).WF ∧ (symT (R := R) N n).shape = List.replicate N 2) :
    wfExpr (List.replicate N 2) (toExpr N e) := by
  induction e with
  | sym n => exact hsymwf n hw
  | not a ih => exact ih hw
  | and a b iha ihb => exact ⟨iha hw.1, ihb hw.2⟩
  | or a b iha ihb => exact ⟨⟨iha hw.1, ihb hw.2⟩, iha hw.1, ihb hw.2⟩
  | xor ρ a b iha ihb =>
    refine ⟨⟨iha hw.1, ihb hw.2.1⟩, ⟨iha hw.1, ?_⟩, ihb hw.2.1⟩
    simpa using hw.2.2

/-! ### the symbol tensors -/
theorem symT_WFfrom : ∀ (N n : Nat), Tensor.WFfrom 1 (symT (R := R) N n) := by
  intro N
  induction N with
  | zero => intro n; trivial
  | succ len ih =>
    intro n
    cases n with
    | zero => exact ⟨rfl, trivial, WFfrom_onesT _⟩
    | succ n => exact ⟨rfl, trivial, ih n⟩

theorem symT_shape : ∀ (N n : Nat), (symT (R := R) N n).shape = List.replicate N 2 := by
  intro N
  induction N with
  | zero => intro n; rfl
  | succ len ih =>
    intro n
    cases n with
    | zero =>
      simp only [symT, Tensor.shape, List.map_cons, TMode.n_none, Core.tt_spatial, List.replicate_succ, List.cons.injEq, true_and]
      have := shape_constLike (1 : R) (2 :: List.replicate len 2)
      simp [onesT, Tensor.shape, TMode.n, List.map_map, Function.comp_def]
    | succ n =>
      simp only [symT, Tensor.shape, List.map_cons, TMode.n_none, Core.tt_spatial, List.replicate_succ, List.cons.injEq, true_and]
      exact ih n

theorem symT_wf_shape (N n : Nat) (hN : 0 < N) :
    (symT (R := R) N n).WF ∧ (symT (R := R) N n).shape = List.replicate N 2 := by
  refine ⟨?_, symT_shape N n⟩
  apply WF_of_WFfrom _ _ (symT_WFfrom N n)
  cases N with
  | zero => omega
  | succ len => cases n <;> simp [symT]

theorem symT_tail : ∀ (N n : Nat) (idx : List Nat), idx.length = N →
    tail (Tensor.modes (symT (R := R) N n)) idx 0 = if n < N ∧ idx.getD n 0 = 0 then 0 else 1 := by
  intro N
  induction N with
  | zero => intro n idx _; simp [symT, Tensor.modes, tail]
  | succ len ih =>
    intro n idx hi
    cases idx with
    | nil => simp at hi
    | cons i is =>
      cases n with
      | zero =>
        have h1 := tail_onesT (R := R) (List.replicate len 2) is (by simpa using hi)
        simp only [symT, Tensor.modes, List.map_cons, tail, sumTo_eq, TMode.toMode_rr, Core.tt_rr, TMode.toMode_G,
          TMode.decomp_none, Core.tt_get, Finset.sum_range_one, List.getD_cons_zero] at h1 ⊢
        rw [h1]
        by_cases h : i = 0 <;> simp [h]
      | succ n =>
        have := ih n is (by simpa using hi)
        simp only [symT, Tensor.modes, List.map_cons, tail, sumTo_eq, TMode.toMode_rr, Core.tt_rr, TMode.toMode_G,
          TMode.decomp_none, Core.tt_get, Finset.sum_range_one, List.getD_cons_succ, one_mul] at this ⊢
        rw [this]
        simp

/-- the symbol `x_n` is 1 exactly on assignments with `x_n = 1` -/
theorem symT_dense (N n : Nat) (hn : n < N) (idx : List Nat) (hi : idx.length = N) (h01 : ∀ v ∈ idx, v = 0 ∨ v = 1) :
    (symT (R := R) N n).dense idx = b01 (idx.getD n 0 == 1) := by
  have ht := symT_tail (R := R) N n idx hi
  have hrl : ∀ m ms, symT (R := R) N n = m :: ms → m.core.rl = 1 := by
    intro m ms h
    have := symT_WFfrom (R := R) N n
    rw [h] at this; exact this.1
  unfold Tensor.dense
  cases hs : symT (R := R) N n with
  | nil => cases N with
    | zero => omega
    | succ len => cases n <;> simp [symT] at hs
  | cons m ms =>
    rw [hs] at ht
    simp only [Tensor.modes, List.map_cons, dense, sumTo_eq, TMode.toMode_rl, hrl m ms hs, Finset.sum_range_one] at ht ⊢
    rw [ht]
    have hv : idx.getD n 0 = 0 ∨ idx.getD n 0 = 1 := by
      have hlt : n < idx.length := by omega
      have : idx.getD n 0 ∈ idx := by
        simp only [List.getD_eq_getElem?_getD, List.getElem?_eq_getElem hlt, Option.getD_some]
        exact List.getElem_mem hlt
      exact h01 _ this
    simp only [List.getD_eq_getElem?_getD] at hv ⊢
    rcases hv with h | h <;> simp [h, hn, b01]

/-- **truth-table semantics**: every formula tree, of any depth over any number of variables,
    decompresses to exactly its 0/1 truth table. -/
theorem truth_table (N : Nat) (hN : 0 < N) (e : BForm R) (hw : wfB N e) (idx : List Nat) (hi : idx.length = N)
    (h01 : ∀ v ∈ idx, v = 0 ∨ v = 1) :
    (evalT (toExpr N e)).dense idx = b01 (evalB e idx) := by
  have hwf := wfExpr_toExpr N e hw (fun n _ => symT_wf_shape N n hN)
  obtain ⟨_, _, hd⟩ := expr_dense (List.replicate N 2) (toExpr N e) hwf
  rw [hd idx (by simpa using hi)]
  exact evalD_bool N e idx (fun n hn => symT_dense N n hn idx hi h01) hw

/-! ### the thresholds of the predicates (extracted from logic.py on every run) -/
theorem thresholds_from_source :
    Generated.floats_logic_is_tautology = [(1, 1000000)] ∧ Generated.floats_logic_is_contradiction = [(1, 1000000)] ∧
    Generated.floats_logic_is_satisfiable = [(1, 1000000)] ∧ Generated.floats_logic_relevant_symbols = [(1, 10000000000)] := by
  refine ⟨rfl, rfl, rfl, rfl⟩

/-- a count of (falsifying / satisfying) assignments is below a threshold `0 < thr < 1` iff it is 0 —
    why `norm(~t) ≤ 1e-6` decides tautology for exactly Boolean tensors -/
theorem count_le_thr {K : Type} [Field K] [LinearOrder K] [IsStrictOrderedRing K] (k : Nat) (thr : K)
    (h0 : 0 < thr) (h1 : thr < 1) : ((k : K) ≤ thr ↔ k = 0) := by
  constructor
  · intro h
    by_contra hk
    have : (1 : K) ≤ k := by exact_mod_cast Nat.one_le_iff_ne_zero.mpr hk
    linarith
  · intro h; subst h; simpa using h0.le

end TN.C15
