import TnVerif.Props.C02
import TnVerif.Props.C03
import TnVerif.Props.C06
import TnVerif.Props.C16
import TnVerif.Props.C20
import TnVerif.Lemmas.Logic
import TnVerif.Lemmas.LogicIndex
import TnVerif.Generated
import Mathlib.Tactic.NormNum
import Mathlib.Tactic.Linarith
import Mathlib.Algebra.Order.Field.Basic
/-!
# C15 — Boolean formulas over tensor symbols have exactly their truth-table semantics

A formula is an arithmetic expression over the symbol tensors (`~a = 1 − a`, `a & b = a·b`,
`a | b = a + b − a·b`, `a ^ b = a + b − 2·a·b`, tensor.py:809-822), so C02's `expr_dense` applies; on
0/1 values the arithmetic is the Boolean connective.  Any number of variables, any formula tree.
-/
namespace TN.C15
open TN Finset C02
variable {R : Type} [CommRing R]

/-- formula trees; `xor` carries the kernel answer `ρ` (with `ρ^N = 2`) of the scalar product `2 * a` -/
inductive BForm (R : Type) where
  | sym (n : Nat)
  | not (a : BForm R)
  | and (a b : BForm R)
  | or (a b : BForm R)
  | xor (ρ : R) (a b : BForm R)

/-- the symbol tensor `presence(N, n)`: ones cores `[1, 1]`, except that mode `n` is `[0, 1]` -/
def symT : Nat → Nat → Tensor R
  | 0, _ => []
  | len + 1, 0 => { core := .tt 1 2 1 (fun _ j _ => if j = 0 then 0 else 1), U := Option.none } :: onesT (List.replicate len 2)
  | len + 1, n + 1 => { core := .tt 1 2 1 (fun _ _ _ => 1), U := Option.none } :: symT len n

/-- what the operator overloads compute -/
def toExpr (N : Nat) : BForm R → Expr R
  | .sym n => .leaf (symT N n)
  | .not a => .sadd 1 (.neg (toExpr N a))
  | .and a b => .mul (toExpr N a) (toExpr N b)
  | .or a b => .sub (.add (toExpr N a) (toExpr N b)) (.mul (toExpr N a) (toExpr N b))
  | .xor ρ a b => .sub (.add (toExpr N a) (toExpr N b)) (.mul (.smul ρ 1 2 (toExpr N a)) (toExpr N b))

/-- truth-table semantics; an assignment is an index list with entries in {0, 1} -/
def evalB : BForm R → List Nat → Bool
  | .sym n, idx => idx.getD n 0 == 1
  | .not a, idx => !evalB a idx
  | .and a b, idx => evalB a idx && evalB b idx
  | .or a b, idx => evalB a idx || evalB b idx
  | .xor _ a b, idx => xor (evalB a idx) (evalB b idx)

def wfB (N : Nat) : BForm R → Prop
  | .sym n => n < N
  | .not a => wfB N a
  | .and a b | .or a b => wfB N a ∧ wfB N b
  | .xor ρ a b => wfB N a ∧ wfB N b ∧ ρ ^ N = 2

def b01 (b : Bool) : R := if b then 1 else 0

/-- on 0/1 values the arithmetic expression is the Boolean connective -/
theorem evalD_bool (N : Nat) (e : BForm R) (idx : List Nat)
    (hsym : ∀ n, n < N → (symT (R := R) N n).dense idx = b01 (idx.getD n 0 == 1)) (hw : wfB N e) :
    evalD (toExpr N e) idx = b01 (evalB e idx) := by
  induction e with
  | sym n => exact hsym n hw
  | not a ih => simp only [toExpr, evalD, evalB, ih hw]; cases evalB a idx <;> simp [b01]
  | and a b iha ihb =>
    simp only [toExpr, evalD, evalB, iha hw.1, ihb hw.2]; cases evalB a idx <;> cases evalB b idx <;> simp [b01]
  | or a b iha ihb =>
    simp only [toExpr, evalD, evalB, iha hw.1, ihb hw.2]; cases evalB a idx <;> cases evalB b idx <;> simp [b01]
  | xor ρ a b iha ihb =>
    simp only [toExpr, evalD, evalB, iha hw.1, ihb hw.2.1]; cases evalB a idx <;> cases evalB b idx <;> simp [b01] <;> ring

/-- the arithmetic expression of a well-formed formula is well-formed for C02 -/
theorem wfExpr_toExpr (N : Nat) (e : BForm R) (hw : wfB N e)
    (hsymwf : ∀ n, n < N → (symT (R := R) N n).WF ∧ (symT (R := R) N n).shape = List.replicate N 2) :
    wfExpr (List.replicate N 2) (toExpr N e) := by
  induction e with
  | sym n => exact hsymwf n hw
  | not a ih => exact ih hw
  | and a b iha ihb => exact ⟨iha hw.1, ihb hw.2⟩
  | or a b iha ihb => exact ⟨⟨iha hw.1, ihb hw.2⟩, iha hw.1, ihb hw.2⟩
  | xor ρ a b iha ihb =>
    refine ⟨⟨iha hw.1, ihb hw.2.1⟩, ⟨iha hw.1, ?_⟩, ihb hw.2.1⟩
    simpa using hw.2.2

/-! ### the symbol tensors -/
theorem symT_WFfrom : ∀ (N n : Nat), Tensor.WFfrom 1 (symT (R := R) N n) := by
  intro N
  induction N with
  | zero => intro n; trivial
  | succ len ih =>
    intro n
    cases n with
    | zero => exact ⟨rfl, trivial, WFfrom_onesT _⟩
    | succ n => exact ⟨rfl, trivial, ih n⟩

theorem symT_shape : ∀ (N n : Nat), (symT (R := R) N n).shape = List.replicate N 2 := by
  intro N
  induction N with
  | zero => intro n; rfl
  | succ len ih =>
    intro n
    cases n with
    | zero =>
      simp only [symT, Tensor.shape, List.map_cons, TMode.n_none, Core.tt_spatial, List.replicate_succ, List.cons.injEq, true_and]
      have := shape_constLike (1 : R) (2 :: List.replicate len 2)
      simp [onesT, Tensor.shape, TMode.n, List.map_map, Function.comp_def]
    | succ n =>
      simp only [symT, Tensor.shape, List.map_cons, TMode.n_none, Core.tt_spatial, List.replicate_succ, List.cons.injEq, true_and]
      exact ih n

theorem symT_wf_shape (N n : Nat) (hN : 0 < N) :
    (symT (R := R) N n).WF ∧ (symT (R := R) N n).shape = List.replicate N 2 := by
  refine ⟨?_, symT_shape N n⟩
  apply WF_of_WFfrom _ _ (symT_WFfrom N n)
  cases N with
  | zero => omega
  | succ len => cases n <;> simp [symT]

theorem symT_tail : ∀ (N n : Nat) (idx : List Nat), idx.length = N →
    tail (Tensor.modes (symT (R := R) N n)) idx 0 = if n < N ∧ idx.getD n 0 = 0 then 0 else 1 := by
  intro N
  induction N with
  | zero => intro n idx _; simp [symT, Tensor.modes, tail]
  | succ len ih =>
    intro n idx hi
    cases idx with
    | nil => simp at hi
    | cons i is =>
      cases n with
      | zero =>
        have h1 := tail_onesT (R := R) (List.replicate len 2) is (by simpa using hi)
        simp only [symT, Tensor.modes, List.map_cons, tail, sumTo_eq, TMode.toMode_rr, Core.tt_rr, TMode.toMode_G,
          TMode.decomp_none, Core.tt_get, Finset.sum_range_one, List.getD_cons_zero] at h1 ⊢
        rw [h1]
        by_cases h : i = 0 <;> simp [h]
      | succ n =>
        have := ih n is (by simpa using hi)
        simp only [symT, Tensor.modes, List.map_cons, tail, sumTo_eq, TMode.toMode_rr, Core.tt_rr, TMode.toMode_G,
          TMode.decomp_none, Core.tt_get, Finset.sum_range_one, List.getD_cons_succ, one_mul] at this ⊢
        rw [this]
        simp

/-- the symbol `x_n` is 1 exactly on assignments with `x_n = 1` -/
theorem symT_dense (N n : Nat) (hn : n < N) (idx : List Nat) (hi : idx.length = N) (h01 : ∀ v ∈ idx, v = 0 ∨ v = 1) :
    (symT (R := R) N n).dense idx = b01 (idx.getD n 0 == 1) := by
  have ht := symT_tail (R := R) N n idx hi
  have hrl : ∀ m ms, symT (R := R) N n = m :: ms → m.core.rl = 1 := by
    intro m ms h
    have := symT_WFfrom (R := R) N n
    rw [h] at this; exact this.1
  unfold Tensor.dense
  cases hs : symT (R := R) N n with
  | nil => cases N with
    | zero => omega
    | succ len => cases n <;> simp [symT] at hs
  | cons m ms =>
    rw [hs] at ht
    simp only [Tensor.modes, List.map_cons, dense, sumTo_eq, TMode.toMode_rl, hrl m ms hs, Finset.sum_range_one] at ht ⊢
    rw [ht]
    have hv : idx.getD n 0 = 0 ∨ idx.getD n 0 = 1 := by
      have hlt : n < idx.length := by omega
      have : idx.getD n 0 ∈ idx := by
        simp only [List.getD_eq_getElem?_getD, List.getElem?_eq_getElem hlt, Option.getD_some]
        exact List.getElem_mem hlt
      exact h01 _ this
    simp only [List.getD_eq_getElem?_getD] at hv ⊢
    rcases hv with h | h <;> simp [h, hn, b01]

/-- **truth-table semantics**: every formula tree, of any depth over any number of variables,
    decompresses to exactly its 0/1 truth table. -/
theorem truth_table (N : Nat) (hN : 0 < N) (e : BForm R) (hw : wfB N e) (idx : List Nat) (hi : idx.length = N)
    (h01 : ∀ v ∈ idx, v = 0 ∨ v = 1) :
    (evalT (toExpr N e)).dense idx = b01 (evalB e idx) := by
  have hwf := wfExpr_toExpr N e hw (fun n _ => symT_wf_shape N n hN)
  obtain ⟨_, _, hd⟩ := expr_dense (List.replicate N 2) (toExpr N e) hwf
  rw [hd idx (by simpa using hi)]
  exact evalD_bool N e idx (fun n hn => symT_dense N n hn idx hi h01) hw

/-! ### the thresholds of the predicates (extracted from logic.py on every run) -/
theorem thresholds_from_source :
    Generated.floats_logic_is_tautology = [(1, 1000000)] ∧ Generated.floats_logic_is_contradiction = [(1, 1000000)] ∧
    Generated.floats_logic_is_satisfiable = [(1, 1000000)] ∧ Generated.floats_logic_relevant_symbols = [(1, 10000000000)] := by
  refine ⟨rfl, rfl, rfl, rfl⟩

/-- a count of (falsifying / satisfying) assignments is below a threshold `0 < thr < 1` iff it is 0 —
    why `norm(~t) ≤ 1e-6` decides tautology for exactly Boolean tensors -/
theorem count_le_thr {K : Type} [Field K] [LinearOrder K] [IsStrictOrderedRing K] (k : Nat) (thr : K)
    (h0 : 0 < thr) (h1 : thr < 1) : ((k : K) ≤ thr ↔ k = 0) := by
  constructor
  · intro h
    by_contra hk
    have : (1 : K) ≤ k := by exact_mod_cast Nat.one_le_iff_ne_zero.mpr hk
    linarith
  · intro h; subst h; simpa using h0.le

/-! ## extension: quantifier helpers, counting, predicates, relevant symbols -/
set_option linter.unusedSimpArgs false
set_option linter.unnecessarySeqFocus false
set_option linter.unusedSectionVars false

/-! ### `true`, `false`, `all`, `none` -/

theorem logic_getD_bit (idx : List Nat) (h01 : ∀ v ∈ idx, v = 0 ∨ v = 1) (n : Nat) : idx.getD n 0 = 0 ∨ idx.getD n 0 = 1 := by
  by_cases hn : n < idx.length
  · have : idx.getD n 0 ∈ idx := by
      simp only [List.getD_eq_getElem?_getD, List.getElem?_eq_getElem hn, Option.getD_some]
      exact List.getElem_mem hn
    exact h01 _ this
  · left; simp [List.getD_eq_getElem?_getD, List.getElem?_eq_none (by omega : idx.length ≤ n)]

theorem logic_mapRange_R1 (N : Nat) (F : Nat → TMode R) (hF : ∀ n, n < N → LogicR1m (F n)) (hN : 0 < N) :
    Tensor.WF ((List.range N).map F) ∧ Tensor.shape ((List.range N).map F) = List.replicate N 2 := by
  have h := logicR1_map N F hF
  refine ⟨logicR1_WF _ h (by intro h0; have := congrArg List.length h0; simp at this; omega), ?_⟩
  have := logicR1_shape _ h
  simpa using this

theorem logicMode_R1 : LogicR1m (logicOnesMode (R := R)) ∧ LogicR1m (logicZerosMode (R := R)) ∧
    LogicR1m (logicMode01 (R := R)) ∧ LogicR1m (logicMode10 (R := R)) := by
  refine ⟨?_, ?_, ?_, ?_⟩ <;> exact ⟨rfl, rfl, rfl, rfl⟩

/-- **`tn.true(N)`** is a well-formed `2^N` tensor that is 1 on every assignment. -/
theorem true_dense (N : Nat) (hN : 0 < N) (idx : List Nat) (hi : idx.length = N) :
    (logicTrue (R := R) N).WF ∧ (logicTrue (R := R) N).shape = List.replicate N 2 ∧ (logicTrue (R := R) N).dense idx = 1 := by
  obtain ⟨w, s⟩ := logic_mapRange_R1 (R := R) N (fun _ => logicOnesMode) (fun _ _ => logicMode_R1.1) hN
  refine ⟨w, s, ?_⟩
  have h := logicR1_map (R := R) N (fun _ => logicOnesMode) (fun _ _ => logicMode_R1.1)
  have := logicR1_dense_bool _ h (by intro h0; have := congrArg List.length h0; simp at this; omega) idx (by simpa using hi)
    (fun _ => true) (by intro n hn; simp [logicOnesMode]) True (by simp)
  simpa [logicTrue] using this

/-- **`tn.false(N)`** is a well-formed `2^N` tensor that is 0 on every assignment. -/
theorem false_dense (N : Nat) (hN : 0 < N) (idx : List Nat) (hi : idx.length = N) :
    (logicFalse (R := R) N).WF ∧ (logicFalse (R := R) N).shape = List.replicate N 2 ∧ (logicFalse (R := R) N).dense idx = 0 := by
  obtain ⟨w, s⟩ := logic_mapRange_R1 (R := R) N (fun _ => logicZerosMode) (fun _ _ => logicMode_R1.2.1) hN
  refine ⟨w, s, ?_⟩
  have h := logicR1_map (R := R) N (fun _ => logicZerosMode) (fun _ _ => logicMode_R1.2.1)
  have := logicR1_dense_bool _ h (by intro h0; have := congrArg List.length h0; simp at this; omega) idx (by simpa using hi)
    (fun _ => false) (by intro n hn; simp [logicZerosMode]) False (by
      simp only [List.length_map, List.length_range, false_iff, not_forall]
      exact ⟨0, hN, by simp⟩)
  simpa [logicFalse] using this

/-- **`tn.all(N, which)`**: 1 exactly on the assignments in which every listed variable is 1 (`which = None`: every
    variable; entries of `which` that are not variables `< N` are never matched by `n in which` and are ignored). -/
theorem all_dense (N : Nat) (hN : 0 < N) (which : Option (List Nat)) (idx : List Nat) (hi : idx.length = N)
    (h01 : ∀ v ∈ idx, v = 0 ∨ v = 1) :
    (logicAll (R := R) N which).WF ∧ (logicAll (R := R) N which).shape = List.replicate N 2 ∧
    (logicAll (R := R) N which).dense idx = if (∀ n ∈ logicWhich N which, n < N → idx.getD n 0 = 1) then 1 else 0 := by
  have hF : ∀ n, n < N → LogicR1m (if n ∈ logicWhich N which then logicMode01 (R := R) else logicOnesMode) := by
    intro n _; split
    · exact logicMode_R1.2.2.1
    · exact logicMode_R1.1
  obtain ⟨w, s⟩ := logic_mapRange_R1 (R := R) N _ hF hN
  refine ⟨w, s, ?_⟩
  have h := logicR1_map (R := R) N _ hF
  have := logicR1_dense_bool _ h (by intro h0; have := congrArg List.length h0; simp at this; omega) idx (by simpa using hi)
    (fun n => !decide (n ∈ logicWhich N which) || idx.getD n 0 == 1) (by
      intro n hn
      simp only [List.getElem_map, List.getElem_range]
      rcases logic_getD_bit idx h01 n with hb | hb <;> rw [hb] <;> by_cases hm : n ∈ logicWhich N which <;>
        simp [hm, logicMode01, logicOnesMode])
    (∀ n ∈ logicWhich N which, n < N → idx.getD n 0 = 1) (by
      simp only [List.length_map, List.length_range, Bool.or_eq_true, Bool.not_eq_true', decide_eq_false_iff_not,
        beq_iff_eq]
      constructor
      · intro h n hn; by_cases hm : n ∈ logicWhich N which
        · exact Or.inr (h n hm hn)
        · exact Or.inl hm
      · intro h n hm hn; rcases h n hn with h | h
        · exact absurd hm h
        · exact h)
  simpa [logicAll] using this

/-- **`tn.none(N, which)`**: 1 exactly on the assignments in which every listed variable is 0. -/
theorem none_dense (N : Nat) (hN : 0 < N) (which : Option (List Nat)) (idx : List Nat) (hi : idx.length = N)
    (h01 : ∀ v ∈ idx, v = 0 ∨ v = 1) :
    (logicNone (R := R) N which).WF ∧ (logicNone (R := R) N which).shape = List.replicate N 2 ∧
    (logicNone (R := R) N which).dense idx = if (∀ n ∈ logicWhich N which, n < N → idx.getD n 0 = 0) then 1 else 0 := by
  have hF : ∀ n, n < N → LogicR1m (if n ∈ logicWhich N which then logicMode10 (R := R) else logicOnesMode) := by
    intro n _; split
    · exact logicMode_R1.2.2.2
    · exact logicMode_R1.1
  obtain ⟨w, s⟩ := logic_mapRange_R1 (R := R) N _ hF hN
  refine ⟨w, s, ?_⟩
  have h := logicR1_map (R := R) N _ hF
  have := logicR1_dense_bool _ h (by intro h0; have := congrArg List.length h0; simp at this; omega) idx (by simpa using hi)
    (fun n => !decide (n ∈ logicWhich N which) || idx.getD n 0 == 0) (by
      intro n hn
      simp only [List.getElem_map, List.getElem_range]
      rcases logic_getD_bit idx h01 n with hb | hb <;> rw [hb] <;> by_cases hm : n ∈ logicWhich N which <;>
        simp [hm, logicMode10, logicOnesMode])
    (∀ n ∈ logicWhich N which, n < N → idx.getD n 0 = 0) (by
      simp only [List.length_map, List.length_range, Bool.or_eq_true, Bool.not_eq_true', decide_eq_false_iff_not,
        beq_iff_eq]
      constructor
      · intro h n hn; by_cases hm : n ∈ logicWhich N which
        · exact Or.inr (h n hm hn)
        · exact Or.inl hm
      · intro h n hm hn; rcases h n hn with h | h
        · exact absurd hm h
        · exact h)
  simpa [logicNone] using this


/-! ### the operators on arbitrary (not necessarily Boolean) tensors -/

/-- `~t` is a well-formed tensor of the same shape with entries `1 − t[idx]`. -/
theorem lnot_spec (t : Tensor R) (ht : t.WF) :
    t.lnot.WF ∧ t.lnot.shape = t.shape ∧ ∀ idx, idx.length = t.length → t.lnot.dense idx = 1 - t.dense idx := by
  obtain ⟨w, s, d⟩ := expr_dense t.shape (.sadd 1 (.neg (.leaf t))) ⟨ht, rfl⟩
  refine ⟨w, s, fun idx hi => ?_⟩
  have := d idx (by rw [hi, shape_length])
  simp only [evalT, evalD] at this
  show ((t.neg).scalarAdd 1).dense idx = _
  rw [this]; ring

/-- `a & b`: entries `a[idx] · b[idx]`. -/
theorem land_spec (a b : Tensor R) (ha : a.WF) (hb : b.WF) (hs : a.shape = b.shape) :
    (a.land b).WF ∧ (a.land b).shape = a.shape ∧ ∀ idx, (a.land b).dense idx = a.dense idx * b.dense idx :=
  ⟨(mul_wf_shape a b ha hb hs).1, (mul_wf_shape a b ha hb hs).2, fun idx => mul_dense a b ha hb hs idx⟩

/-- `a | b`: entries `a + b − a·b`. -/
theorem lor_spec (a b : Tensor R) (ha : a.WF) (hb : b.WF) (hs : a.shape = b.shape) :
    (a.lor b).WF ∧ (a.lor b).shape = a.shape ∧
      ∀ idx, idx.length = a.length → (a.lor b).dense idx = a.dense idx + b.dense idx - a.dense idx * b.dense idx := by
  obtain ⟨w, s, d⟩ := expr_dense a.shape (.sub (.add (.leaf a) (.leaf b)) (.mul (.leaf a) (.leaf b)))
    ⟨⟨⟨ha, rfl⟩, hb, hs.symm⟩, ⟨ha, rfl⟩, hb, hs.symm⟩
  exact ⟨w, s, fun idx hi => d idx (by rw [hi, shape_length])⟩

/-- `a ^ b`: entries `a + b − 2·a·b`, given the kernel contract `ρ ^ N = 2` of the scalar product `2 * a`. -/
theorem lxor_spec (ρ : R) (a b : Tensor R) (ha : a.WF) (hb : b.WF) (hs : a.shape = b.shape) (hρ : ρ ^ a.length = 2) :
    (a.lxor ρ b).WF ∧ (a.lxor ρ b).shape = a.shape ∧
      ∀ idx, idx.length = a.length → (a.lxor ρ b).dense idx = a.dense idx + b.dense idx - 2 * a.dense idx * b.dense idx := by
  obtain ⟨w, s, d⟩ := expr_dense a.shape (.sub (.add (.leaf a) (.leaf b)) (.mul (.smul ρ 1 2 (.leaf a)) (.leaf b)))
    ⟨⟨⟨ha, rfl⟩, hb, hs.symm⟩, ⟨⟨ha, rfl⟩, by rw [shape_length, one_mul]; exact hρ⟩, hb, hs.symm⟩
  refine ⟨w, s, fun idx hi => ?_⟩
  have := d idx (by rw [hi, shape_length])
  simp only [evalT, evalD] at this
  show ((a.add b).sub ((a.scalarMul ρ 1).mul b)).dense idx = _
  rw [this]

/-- the operators of a formula tree are the functions `lnot`, `land`, `lor`, `lxor` of Model/Logic -/
theorem evalT_toExpr (N : Nat) (e : BForm R) :
    evalT (toExpr N e) = match e with
      | .sym n => symT N n
      | .not a => (evalT (toExpr N a)).lnot
      | .and a b => (evalT (toExpr N a)).land (evalT (toExpr N b))
      | .or a b => (evalT (toExpr N a)).lor (evalT (toExpr N b))
      | .xor ρ a b => (evalT (toExpr N a)).lxor ρ (evalT (toExpr N b)) := by
  cases e <;> rfl

/-! ### `any`, `one` -/

/-- **`tn.any(N, which)`**: 1 exactly on the assignments in which some listed variable is 1. -/
theorem any_dense (N : Nat) (hN : 0 < N) (which : Option (List Nat)) (idx : List Nat) (hi : idx.length = N)
    (h01 : ∀ v ∈ idx, v = 0 ∨ v = 1) :
    (logicAny (R := R) N which).WF ∧ (logicAny (R := R) N which).shape = List.replicate N 2 ∧
    (logicAny (R := R) N which).dense idx = if (∃ n ∈ logicWhich N which, n < N ∧ idx.getD n 0 = 1) then 1 else 0 := by
  obtain ⟨w, s, d⟩ := none_dense (R := R) N hN which idx hi h01
  obtain ⟨w', s', d'⟩ := lnot_spec _ w
  have hlen : (logicNone (R := R) N which).length = N := by simp [logicNone]
  refine ⟨w', by rw [← s]; exact s', ?_⟩
  show (logicNone (R := R) N which).lnot.dense idx = _
  rw [d' idx (by rw [hi, hlen]), d]
  by_cases h : ∀ n ∈ logicWhich N which, n < N → idx.getD n 0 = 0
  · have : ¬ ∃ n ∈ logicWhich N which, n < N ∧ idx.getD n 0 = 1 := by
      rintro ⟨n, hm, hn, h1⟩; have := h n hm hn; omega
    rw [if_pos h, if_neg this]; ring
  · have : ∃ n ∈ logicWhich N which, n < N ∧ idx.getD n 0 = 1 := by
      by_contra hc
      apply h; intro n hm hn
      rcases logic_getD_bit idx h01 n with hb | hb
      · exact hb
      · exact absurd ⟨n, hm, hn, hb⟩ hc
    rw [if_neg h, if_pos this]; ring

/-- for a 0/1 assignment the sum of the entries is the number of variables that are 1 -/
theorem logic_sum_eq_count (idx : List Nat) (h01 : ∀ v ∈ idx, v = 0 ∨ v = 1) : idx.sum = idx.count 1 := by
  induction idx with
  | nil => rfl
  | cons i is ih =>
    have := ih (fun v hv => h01 v (List.mem_cons_of_mem _ hv))
    rcases h01 i (by simp) with h | h <;> subst h <;> simp [this] <;> omega

/-- **`tn.one(N, which)`** as coded: without `which` it is 1 exactly on the assignments with exactly one variable equal
    to 1.  With an explicit `which` the code returns `weight_mask(N, 1) & any(N, which)`: 1 exactly when exactly one of
    ALL `N` variables is 1 and that variable is listed — not "exactly one of the listed variables" (see REPORT). -/
theorem one_dense (N : Nat) (hN : 0 < N) (which : Option (List Nat)) (idx : List Nat) (hi : idx.length = N)
    (h01 : ∀ v ∈ idx, v = 0 ∨ v = 1) :
    (logicOne (R := R) N which).WF ∧ (logicOne (R := R) N which).shape = List.replicate N 2 ∧
    (logicOne (R := R) N which).dense idx =
      match which with
      | Option.none => if idx.count 1 = 1 then 1 else 0
      | some w => if idx.count 1 = 1 ∧ ∃ n ∈ w, n < N ∧ idx.getD n 0 = 1 then 1 else 0 := by
  have hne : List.replicate N 2 ≠ [] := by intro h; have := congrArg List.length h; simp at this; omega
  obtain ⟨w, s⟩ := weightMask_wf_shape (R := R) [1] 2 (List.replicate N 2) hne
  have d := C16.weightMask_dense (R := R) [1] 2 (by simp) (List.replicate N 2) idx hne (by simpa using hi)
  rw [C16.countW_nodup [1] (by simp), logic_sum_eq_count idx h01] at d
  simp only [List.mem_singleton] at d
  cases which with
  | none => exact ⟨w, s, d⟩
  | some wl =>
    obtain ⟨w2, s2, d2⟩ := any_dense (R := R) N hN (some wl) idx hi h01
    obtain ⟨w3, s3, d3⟩ := land_spec _ _ w w2 (by rw [s, s2])
    refine ⟨w3, by rw [← s]; exact s3, ?_⟩
    show ((weightMask (R := R) [1] 2 (List.replicate N 2)).land (logicAny N (some wl))).dense idx = _
    rw [d3, d, d2]
    simp only [logicWhich, Option.getD_some]
    by_cases h1 : idx.count 1 = 1 <;> by_cases h2 : ∃ n ∈ wl, n < N ∧ idx.getD n 0 = 1 <;> simp [h1, h2]


/-! ### `presence`, `absence`, `symbols` -/

/-- **the list indices `cores[w]`** (Python list indexing): all entries inside `-N … N-1` are accepted and mean
    `w mod N`; otherwise `IndexError` -/
theorem normWhich_ok (N : Nat) (which : List Int) (h : ∀ w ∈ which, -(N : Int) ≤ w ∧ w < N) :
    logicNormWhich N which = .ok (which.map fun w => (w % (N : Int)).toNat) := by
  induction which with
  | nil => rfl
  | cons w ws ih =>
    have h1 := C03.normInt_ok w N (h w (by simp))
    have h2 := ih (fun v hv => h v (List.mem_cons_of_mem _ hv))
    simp only [logicNormWhich] at h2 ⊢
    simp [List.mapM_cons, h1, h2, bind, Except.bind, pure, Except.pure]

theorem normWhich_err (N : Nat) (which : List Int) (h : ∃ w ∈ which, w < -(N : Int) ∨ (N : Int) ≤ w) :
    logicNormWhich N which = .error .outOfRange := by
  induction which with
  | nil => obtain ⟨w, hw, _⟩ := h; cases hw
  | cons w ws ih =>
    by_cases hw : w < -(N : Int) ∨ (N : Int) ≤ w
    · have h1 := C03.normInt_err w N hw
      simp [logicNormWhich, List.mapM_cons, h1, bind, Except.bind]
    · have h1 := C03.normInt_ok w N (by omega)
      have h2 := ih (by
        obtain ⟨v, hv, hv2⟩ := h
        rcases List.mem_cons.mp hv with rfl | hv
        · exact absurd hv2 hw
        · exact ⟨v, hv, hv2⟩)
      simp only [logicNormWhich] at h2 ⊢
      simp [List.mapM_cons, h1, h2, bind, Except.bind]

theorem normWhich_lt (N : Nat) (which : List Int) (ws : List Nat) (h : logicNormWhich N which = .ok ws) :
    ∀ w ∈ ws, w < N := by
  by_cases hr : ∀ w ∈ which, -(N : Int) ≤ w ∧ w < N
  · rw [normWhich_ok N which hr] at h
    cases h
    intro w hw
    obtain ⟨v, hv, rfl⟩ := List.mem_map.mp hw
    have := hr v hv
    have hN : (0 : Int) < N := by omega
    have := Int.emod_lt_of_pos v hN
    have := Int.emod_nonneg v (by omega : (N : Int) ≠ 0)
    omega
  · rw [normWhich_err N which (by
      simp only [not_forall] at hr
      obtain ⟨w, hw, hw2⟩ := hr
      exact ⟨w, hw, by omega⟩)] at h
    cases h

theorem logicTrue_inv (N : Nat) : LogicInv (logicTrue (R := R) N) (fun _ _ => 1) := by
  refine ⟨logicR1_map N _ (fun _ _ => logicMode_R1.1), ?_, ?_⟩
  · intro m hm
    obtain ⟨n, _, rfl⟩ := List.mem_map.mp hm
    rfl
  · intro n hn j
    simp [logicTrue, logicOnesMode]

/-- the loop `for w in which: cores[w][0, j0, 0] = 0` over ones cores: well formed, shape `2^N`, and 1 exactly on the
    assignments in which no listed variable has the value `j0` -/
theorem logicFold_dense (j0 : Nat) (hj : j0 = 0 ∨ j0 = 1) (N : Nat) (hN : 0 < N) (ws : List Nat) (hws : ∀ w ∈ ws, w < N)
    (idx : List Nat) (hi : idx.length = N) (h01 : ∀ v ∈ idx, v = 0 ∨ v = 1) :
    (ws.foldl (logicZeroAt j0) (logicTrue (R := R) N)).WF ∧
    (ws.foldl (logicZeroAt j0) (logicTrue (R := R) N)).shape = List.replicate N 2 ∧
    (ws.foldl (logicZeroAt j0) (logicTrue (R := R) N)).dense idx = if (∀ w ∈ ws, idx.getD w 0 = 1 - j0) then 1 else 0 := by
  obtain ⟨⟨r1, _, hg⟩, hlen⟩ := logicFold_inv (R := R) j0 ws _ _ (logicTrue_inv N)
  have hl : (logicTrue (R := R) N).length = N := by simp [logicTrue]
  rw [hl] at hlen
  have hne : ws.foldl (logicZeroAt j0) (logicTrue (R := R) N) ≠ [] := by
    intro h0; rw [h0] at hlen; simp at hlen; omega
  refine ⟨logicR1_WF _ r1 hne, by rw [logicR1_shape _ r1, hlen], ?_⟩
  apply logicR1_dense_bool _ r1 hne idx (by rw [hi, hlen]) (fun n => !decide (n ∈ ws) || idx.getD n 0 == 1 - j0)
  · intro n hn
    rw [hg n hn]
    rcases logic_getD_bit idx h01 n with hb | hb <;> rw [hb] <;> by_cases hm : n ∈ ws <;>
      rcases hj with rfl | rfl <;> simp [hm]
  · rw [hlen]
    simp only [Bool.or_eq_true, Bool.not_eq_true', decide_eq_false_iff_not, beq_iff_eq]
    constructor
    · intro h n _; by_cases hm : n ∈ ws
      · exact Or.inr (h n hm)
      · exact Or.inl hm
    · intro h w hm; rcases h w (hws w hm) with h | h
      · exact absurd hm h
      · exact h

/-- **`tn.presence(N, which)`**: for list indices inside `-N … N-1` (normalised to `ws`) the result is a well-formed
    `2^N` tensor that is 1 exactly on the assignments in which every listed variable is 1. -/
theorem presence_dense (N : Nat) (hN : 0 < N) (which : List Int) (ws : List Nat) (hws : logicNormWhich N which = .ok ws)
    (idx : List Nat) (hi : idx.length = N) (h01 : ∀ v ∈ idx, v = 0 ∨ v = 1) :
    ∃ t : Tensor R, logicPresence N which = .ok t ∧ t.WF ∧ t.shape = List.replicate N 2 ∧
      t.dense idx = if (∀ w ∈ ws, idx.getD w 0 = 1) then 1 else 0 := by
  refine ⟨ws.foldl (logicZeroAt 0) (logicTrue N), by simp [logicPresence, hws, bind, Except.bind, pure, Except.pure], ?_⟩
  exact logicFold_dense 0 (Or.inl rfl) N hN ws (normWhich_lt N which ws hws) idx hi h01

/-- **`tn.absence(N, which)`**: 1 exactly on the assignments in which every listed variable is 0. -/
theorem absence_dense (N : Nat) (hN : 0 < N) (which : List Int) (ws : List Nat) (hws : logicNormWhich N which = .ok ws)
    (idx : List Nat) (hi : idx.length = N) (h01 : ∀ v ∈ idx, v = 0 ∨ v = 1) :
    ∃ t : Tensor R, logicAbsence N which = .ok t ∧ t.WF ∧ t.shape = List.replicate N 2 ∧
      t.dense idx = if (∀ w ∈ ws, idx.getD w 0 = 0) then 1 else 0 := by
  refine ⟨ws.foldl (logicZeroAt 1) (logicTrue N), by simp [logicAbsence, hws, bind, Except.bind, pure, Except.pure], ?_⟩
  exact logicFold_dense 1 (Or.inr rfl) N hN ws (normWhich_lt N which ws hws) idx hi h01

/-- an index outside `-N … N-1` makes `presence` / `absence` raise (`IndexError` of `cores[w]`) -/
theorem presence_raises (N : Nat) (which : List Int) (h : ∃ w ∈ which, w < -(N : Int) ∨ (N : Int) ≤ w) :
    logicPresence (R := R) N which = .error .outOfRange ∧ logicAbsence (R := R) N which = .error .outOfRange := by
  simp [logicPresence, logicAbsence, normWhich_err N which h, bind, Except.bind]

theorem logic_mapM_ok {α β : Type} (f : α → Except IdxErr β) (g : α → β) : ∀ (l : List α), (∀ x ∈ l, f x = .ok (g x)) →
    l.mapM f = .ok (l.map g) := by
  intro l
  induction l with
  | nil => intro _; rfl
  | cons x xs ih =>
    intro h
    simp [List.mapM_cons, h x (by simp), ih (fun y hy => h y (List.mem_cons_of_mem _ hy)), bind, Except.bind, pure, Except.pure]

/-- **`tn.symbols(N)`** returns `N` well-formed `2^N` tensors; the `n`-th is 1 exactly on the assignments with `x_n = 1`
    (it has the same truth table as the leaf `symT N n` of the formula trees of `truth_table`). -/
theorem symbols_dense (N : Nat) (hN : 0 < N) :
    ∃ ts : List (Tensor R), logicSymbols N = .ok ts ∧ ts.length = N ∧ ∀ n (hn : n < ts.length),
      (ts[n]).WF ∧ (ts[n]).shape = List.replicate N 2 ∧
      ∀ idx : List Nat, idx.length = N → (∀ v ∈ idx, v = 0 ∨ v = 1) →
        (ts[n]).dense idx = b01 (idx.getD n 0 == 1) ∧ (ts[n]).dense idx = (symT N n).dense idx := by
  refine ⟨(List.range N).map fun n => [n].foldl (logicZeroAt 0) (logicTrue N), ?_, by simp, ?_⟩
  · apply logic_mapM_ok
    intro n hn
    have hn' := List.mem_range.mp hn
    have : logicNormWhich N [(n : Int)] = .ok [n] := by
      rw [normWhich_ok N [(n : Int)] (by intro w hw; simp at hw; subst hw; constructor <;> omega)]
      simp [Int.emod_eq_of_lt, hn']
    simp only [logicPresence, Int.ofNat_eq_natCast, this]
    rfl
  · intro n hn
    have hn' : n < N := by simpa using hn
    simp only [List.getElem_map, List.getElem_range]
    have key := fun idx hi h01 => logicFold_dense (R := R) 0 (Or.inl rfl) N hN [n] (by simpa using hn') idx hi h01
    have idx0 : (List.replicate N 0).length = N := by simp
    obtain ⟨w, s, _⟩ := key (List.replicate N 0) idx0 (by intro v hv; left; exact List.eq_of_mem_replicate hv)
    refine ⟨w, s, fun idx hi h01 => ?_⟩
    obtain ⟨_, _, d⟩ := key idx hi h01
    have hd : (List.foldl (logicZeroAt 0) (logicTrue (R := R) N) [n]).dense idx = b01 (idx.getD n 0 == 1) := by
      rw [d]; by_cases h : idx.getD n 0 = 1 <;> simp [h, b01]
    exact ⟨hd, by rw [hd, symT_dense N n hn' idx hi h01]⟩


/-! ### counting: the sum of a formula is its number of satisfying assignments -/

/-- the `2^N` assignments, in lexicographic order -/
abbrev assignments (N : Nat) : List (List Nat) := lexBox (List.replicate N 2)

theorem mem_assignments (N : Nat) (idx : List Nat) :
    idx ∈ assignments N ↔ idx.length = N ∧ ∀ v ∈ idx, v = 0 ∨ v = 1 := by
  rw [assignments, logic_mem_lexBox, logic_inShape_bits]

/-- a tensor whose entries on the `2^N` assignments are the 0/1 values of a Boolean function `f` sums to the number of
    assignments that satisfy `f` -/
theorem boxSum_bool (N : Nat) (d : List Nat → R) (f : List Nat → Bool)
    (hd : ∀ idx, idx.length = N → (∀ v ∈ idx, v = 0 ∨ v = 1) → d idx = b01 (f idx)) :
    boxSum (List.replicate N 2) d = ((assignments N).countP f : R) := by
  rw [← logic_boxSum_indicator]
  apply boxSum_congr_inShape
  intro is his
  obtain ⟨h1, h2⟩ := (logic_inShape_bits is N).mp his
  rw [hd is h1 h2]; rfl

/-- **`sum_counts_models`**: the sum of all entries of a formula's tensor (over the `2^N` box — what `tn.sum` returns,
    `sum_counts_models_tn`) is the number of satisfying assignments of the formula. -/
theorem sum_counts_models (N : Nat) (hN : 0 < N) (e : BForm R) (hw : wfB N e) :
    boxSum (List.replicate N 2) (evalT (toExpr N e)).dense = ((assignments N).countP (evalB e) : R) :=
  boxSum_bool N _ _ (fun idx hi h01 => truth_table N hN e hw idx hi h01)

/-- a well-formed formula is a well-formed `2^N` tensor -/
theorem formula_wf_shape (N : Nat) (hN : 0 < N) (e : BForm R) (hw : wfB N e) :
    (evalT (toExpr N e)).WF ∧ (evalT (toExpr N e)).shape = List.replicate N 2 := by
  obtain ⟨w, s, _⟩ := expr_dense (List.replicate N 2) (toExpr N e) (wfExpr_toExpr N e hw (fun n _ => symT_wf_shape N n hN))
  exact ⟨w, s⟩

/-- `tn.sum(formula)` returns the number of satisfying assignments -/
theorem sum_counts_models_tn (N : Nat) (hN : 0 < N) (e : BForm R) (hw : wfB N e) :
    (evalT (toExpr N e)).sum (allDims (evalT (toExpr N e))) = .ok (.inr ((assignments N).countP (evalB e) : R)) := by
  obtain ⟨w, s⟩ := formula_wf_shape N hN e hw
  rw [C06.sum_all _ w, s, sum_counts_models N hN e hw]

example : wfB (R := Int) 2 (.or (.sym 0) (.not (.sym 1))) := by simp [wfB]
example : (assignments 2).countP (evalB (R := Int) (.or (.sym 0) (.not (.sym 1)))) = 3 := by decide


/-! ### the predicates (ordered scalars, the threshold a parameter) -/
section predicates
variable {K : Type} [Field K] [LinearOrder K] [IsStrictOrderedRing K]

/-- `norm(x) ≤ thr` for a tensor whose squared norm is the natural number `k` (a count of assignments): with
    `thr² < 1` the test holds iff `k = 0` -/
theorem normLe_nat (thr : K) (k : Nat) (h1 : thr * thr < 1) : logicNormLe thr (k : K) = true ↔ k = 0 := by
  have hk : (0 : K) ≤ k := Nat.cast_nonneg k
  have hsq : 0 ≤ thr * thr := mul_self_nonneg thr
  simp only [logicNormLe, logicNormGt, logicClamp0, if_neg (not_lt.mpr hk), Bool.not_eq_true', decide_eq_false_iff_not,
    not_lt]
  constructor
  · intro h
    by_contra hne
    have : (1 : K) ≤ k := by exact_mod_cast Nat.one_le_iff_ne_zero.mpr hne
    linarith
  · intro h; subst h; simpa using hsq

/-- `norm(x) > thr` for a squared norm `k ∈ ℕ`: with `thr² < 1` the test holds iff `k ≠ 0` -/
theorem normGt_nat (thr : K) (k : Nat) (h1 : thr * thr < 1) : logicNormGt thr (k : K) = true ↔ k ≠ 0 := by
  have := normLe_nat thr k h1
  simp only [logicNormLe, Bool.not_eq_true'] at this
  constructor
  · intro h hk; rw [this.mpr hk] at h; cases h
  · intro h; by_contra hc
    exact h (this.mp (by simpa using hc))

/-- over ℝ the squared comparison is the comparison of the norm: `sqrt(clamp(x, 0)) ≤ thr` for `thr ≥ 0` -/
theorem norm_le_real (x thr : ℝ) (h0 : 0 ≤ thr) : logicNormLe thr x = true ↔ Real.sqrt (max x 0) ≤ thr := by
  have hc : logicClamp0 x = max x 0 := by
    simp only [logicClamp0]; split
    · rw [max_eq_right (by linarith)]
    · rw [max_eq_left (by linarith)]
  simp only [logicNormLe, logicNormGt, hc, Bool.not_eq_true', decide_eq_false_iff_not, not_lt]
  rw [Real.sqrt_le_left h0, sq]

theorem norm_gt_real (x thr : ℝ) (h0 : 0 ≤ thr) : logicNormGt thr x = true ↔ thr < Real.sqrt (max x 0) := by
  have := norm_le_real x thr h0
  simp only [logicNormLe, Bool.not_eq_true'] at this
  rw [← not_le, ← this]; simp

/-- the squared norm of a 0/1 tensor is the number of assignments on which it is 1 -/
theorem normsqTab_bool (N : Nat) (t : Tensor K) (ht : t.WF) (hs : t.shape = List.replicate N 2) (f : List Nat → Bool)
    (hd : ∀ idx, idx.length = N → (∀ v ∈ idx, v = 0 ∨ v = 1) → t.dense idx = b01 (f idx)) :
    t.normsqTab = ((assignments N).countP f : K) := by
  rw [logic_normsqTab_eq t ht, C06.normsq_eq t ht, hs]
  apply boxSum_bool
  intro idx hi h01
  rw [hd idx hi h01]; cases f idx <;> simp [b01]

theorem countP_eq_zero_iff (N : Nat) (f : List Nat → Bool) :
    (assignments N).countP f = 0 ↔ ∀ idx, idx.length = N → (∀ v ∈ idx, v = 0 ∨ v = 1) → f idx = false := by
  rw [List.countP_eq_zero]
  constructor
  · intro h idx hi h01
    have := h idx ((mem_assignments N idx).mpr ⟨hi, h01⟩)
    simpa using this
  · intro h idx hm
    obtain ⟨hi, h01⟩ := (mem_assignments N idx).mp hm
    simp [h idx hi h01]

/-- **`is_contradiction`** (`norm(t) ≤ thr`, any threshold with `thr² < 1`, e.g. `1e-6`): for a `2^N` tensor with the
    0/1 truth table `f` the predicate is true iff no assignment satisfies `f`. -/
theorem is_contradiction_iff (thr : K) (h1 : thr * thr < 1) (N : Nat) (t : Tensor K) (ht : t.WF)
    (hs : t.shape = List.replicate N 2) (f : List Nat → Bool)
    (hd : ∀ idx, idx.length = N → (∀ v ∈ idx, v = 0 ∨ v = 1) → t.dense idx = b01 (f idx)) :
    t.isContradiction thr = true ↔ ∀ idx, idx.length = N → (∀ v ∈ idx, v = 0 ∨ v = 1) → f idx = false := by
  rw [Tensor.isContradiction, normsqTab_bool N t ht hs f hd, normLe_nat thr _ h1, countP_eq_zero_iff]

/-- the truth table of `~t` -/
theorem lnot_bool (N : Nat) (t : Tensor R) (ht : t.WF) (hs : t.shape = List.replicate N 2) (f : List Nat → Bool)
    (hd : ∀ idx, idx.length = N → (∀ v ∈ idx, v = 0 ∨ v = 1) → t.dense idx = b01 (f idx)) :
    t.lnot.WF ∧ t.lnot.shape = List.replicate N 2 ∧
      ∀ idx, idx.length = N → (∀ v ∈ idx, v = 0 ∨ v = 1) → t.lnot.dense idx = b01 (!f idx) := by
  obtain ⟨w, s, d⟩ := lnot_spec t ht
  have hl : t.length = N := by rw [← shape_length, hs]; simp
  refine ⟨w, by rw [s, hs], fun idx hi h01 => ?_⟩
  rw [d idx (by rw [hi, hl]), hd idx hi h01]; cases f idx <;> simp [b01]

/-- the truth table of `a & b` -/
theorem land_bool (N : Nat) (a b : Tensor R) (ha : a.WF) (hb : b.WF) (hsa : a.shape = List.replicate N 2)
    (hsb : b.shape = List.replicate N 2) (f g : List Nat → Bool)
    (hda : ∀ idx, idx.length = N → (∀ v ∈ idx, v = 0 ∨ v = 1) → a.dense idx = b01 (f idx))
    (hdb : ∀ idx, idx.length = N → (∀ v ∈ idx, v = 0 ∨ v = 1) → b.dense idx = b01 (g idx)) :
    (a.land b).WF ∧ (a.land b).shape = List.replicate N 2 ∧
      ∀ idx, idx.length = N → (∀ v ∈ idx, v = 0 ∨ v = 1) → (a.land b).dense idx = b01 (f idx && g idx) := by
  obtain ⟨w, s, d⟩ := land_spec a b ha hb (by rw [hsa, hsb])
  refine ⟨w, by rw [s, hsa], fun idx hi h01 => ?_⟩
  rw [d idx, hda idx hi h01, hdb idx hi h01]; cases f idx <;> cases g idx <;> simp [b01]

/-- **`is_tautology`** (`norm(~t) ≤ thr`, `thr² < 1`): true iff every assignment satisfies `f`. -/
theorem is_tautology_iff (thr : K) (h1 : thr * thr < 1) (N : Nat) (t : Tensor K) (ht : t.WF)
    (hs : t.shape = List.replicate N 2) (f : List Nat → Bool)
    (hd : ∀ idx, idx.length = N → (∀ v ∈ idx, v = 0 ∨ v = 1) → t.dense idx = b01 (f idx)) :
    t.isTautology thr = true ↔ ∀ idx, idx.length = N → (∀ v ∈ idx, v = 0 ∨ v = 1) → f idx = true := by
  obtain ⟨w, s, d⟩ := lnot_bool N t ht hs f hd
  have := is_contradiction_iff thr h1 N t.lnot w s (fun idx => !f idx) d
  simp only [Tensor.isContradiction, Bool.not_eq_false'] at this
  exact this

/-- **`is_satisfiable`** (`sum(t) ≥ thr`, any threshold with `0 < thr ≤ 1`, e.g. `1e-6`): the call succeeds and
    returns true iff some assignment satisfies `f`. -/
theorem is_satisfiable_iff (thr : K) (h0 : 0 < thr) (h1 : thr ≤ 1) (N : Nat) (t : Tensor K) (ht : t.WF)
    (hs : t.shape = List.replicate N 2) (f : List Nat → Bool)
    (hd : ∀ idx, idx.length = N → (∀ v ∈ idx, v = 0 ∨ v = 1) → t.dense idx = b01 (f idx)) :
    ∃ b, t.isSatisfiable thr = .ok b ∧
      (b = true ↔ ∃ idx, idx.length = N ∧ (∀ v ∈ idx, v = 0 ∨ v = 1) ∧ f idx = true) := by
  have hsum : t.sum (allDims t) = .ok (.inr (((assignments N).countP f : Nat) : K)) := by
    rw [C06.sum_all t ht, hs, boxSum_bool N _ f hd]
  refine ⟨!decide ((((assignments N).countP f : Nat) : K) < thr), by simp [Tensor.isSatisfiable, hsum, bind, Except.bind, pure, Except.pure], ?_⟩
  simp only [Bool.not_eq_true', decide_eq_false_iff_not, not_lt]
  constructor
  · intro h
    by_contra hc
    have : (assignments N).countP f = 0 := by
      rw [countP_eq_zero_iff]
      intro idx hi h01
      by_contra hf
      exact hc ⟨idx, hi, h01, by simpa using hf⟩
    rw [this] at h; simp at h; linarith
  · rintro ⟨idx, hi, h01, hf⟩
    have hpos : 0 < (assignments N).countP f :=
      List.countP_pos_iff.mpr ⟨idx, (mem_assignments N idx).mpr ⟨hi, h01⟩, hf⟩
    have : (1 : K) ≤ ((assignments N).countP f : Nat) := by exact_mod_cast hpos
    linarith

/-- **`implies`** (`is_contradiction(t1 & ~t2)`, `thr² < 1`): true iff every assignment that satisfies `f` satisfies `g`. -/
theorem implies_iff (thr : K) (h1 : thr * thr < 1) (N : Nat) (t1 t2 : Tensor K) (h1w : t1.WF) (h2w : t2.WF)
    (hs1 : t1.shape = List.replicate N 2) (hs2 : t2.shape = List.replicate N 2) (f g : List Nat → Bool)
    (hd1 : ∀ idx, idx.length = N → (∀ v ∈ idx, v = 0 ∨ v = 1) → t1.dense idx = b01 (f idx))
    (hd2 : ∀ idx, idx.length = N → (∀ v ∈ idx, v = 0 ∨ v = 1) → t2.dense idx = b01 (g idx)) :
    t1.limplies thr t2 = true ↔ ∀ idx, idx.length = N → (∀ v ∈ idx, v = 0 ∨ v = 1) → f idx = true → g idx = true := by
  obtain ⟨w, s, d⟩ := lnot_bool N t2 h2w hs2 g hd2
  obtain ⟨w', s', d'⟩ := land_bool N t1 t2.lnot h1w w hs1 s f (fun idx => !g idx) hd1 d
  rw [Tensor.limplies, is_contradiction_iff thr h1 N _ w' s' _ d']
  constructor
  · intro h idx hi h01 hf
    have := h idx hi h01
    rw [hf] at this; simpa using this
  · intro h idx hi h01
    have := h idx hi h01
    cases hf : f idx
    · simp
    · simp [this hf]

/-- **`equiv`** (`implies(t1, t2) & implies(t2, t1)`): true iff the two truth tables agree on every assignment. -/
theorem equiv_iff (thr : K) (h1 : thr * thr < 1) (N : Nat) (t1 t2 : Tensor K) (h1w : t1.WF) (h2w : t2.WF)
    (hs1 : t1.shape = List.replicate N 2) (hs2 : t2.shape = List.replicate N 2) (f g : List Nat → Bool)
    (hd1 : ∀ idx, idx.length = N → (∀ v ∈ idx, v = 0 ∨ v = 1) → t1.dense idx = b01 (f idx))
    (hd2 : ∀ idx, idx.length = N → (∀ v ∈ idx, v = 0 ∨ v = 1) → t2.dense idx = b01 (g idx)) :
    t1.lequiv thr t2 = true ↔ ∀ idx, idx.length = N → (∀ v ∈ idx, v = 0 ∨ v = 1) → f idx = g idx := by
  rw [Tensor.lequiv, Bool.and_eq_true, implies_iff thr h1 N t1 t2 h1w h2w hs1 hs2 f g hd1 hd2,
    implies_iff thr h1 N t2 t1 h2w h1w hs2 hs1 g f hd2 hd1]
  constructor
  · rintro ⟨a, b⟩ idx hi h01
    have := a idx hi h01; have := b idx hi h01
    cases hf : f idx <;> cases hg : g idx <;> simp_all
  · intro h
    exact ⟨fun idx hi h01 hf => by rw [← h idx hi h01]; exact hf, fun idx hi h01 hg => by rw [h idx hi h01]; exact hg⟩

/-- **the predicates on formulas**: for every well-formed formula tree (pairs for the binary predicates) over `N`
    variables and thresholds `thr² < 1` (norm tests) resp. `0 < thr ≤ 1` (sum test) — in particular the literals `1e-6`
    of logic.py (`thresholds_from_source`) — the predicates decide exactly the truth-table statements. -/
theorem predicates_formula (thr : K) (h0 : 0 < thr) (h1 : thr * thr < 1) (h1' : thr ≤ 1) (N : Nat) (hN : 0 < N)
    (e e' : BForm K) (hw : wfB N e) (hw' : wfB N e') :
    ((evalT (toExpr N e)).isTautology thr = true ↔
        ∀ idx, idx.length = N → (∀ v ∈ idx, v = 0 ∨ v = 1) → evalB e idx = true) ∧
    ((evalT (toExpr N e)).isContradiction thr = true ↔
        ∀ idx, idx.length = N → (∀ v ∈ idx, v = 0 ∨ v = 1) → evalB e idx = false) ∧
    (∃ b, (evalT (toExpr N e)).isSatisfiable thr = .ok b ∧
        (b = true ↔ ∃ idx, idx.length = N ∧ (∀ v ∈ idx, v = 0 ∨ v = 1) ∧ evalB e idx = true)) ∧
    ((evalT (toExpr N e)).limplies thr (evalT (toExpr N e')) = true ↔
        ∀ idx, idx.length = N → (∀ v ∈ idx, v = 0 ∨ v = 1) → evalB e idx = true → evalB e' idx = true) ∧
    ((evalT (toExpr N e)).lequiv thr (evalT (toExpr N e')) = true ↔
        ∀ idx, idx.length = N → (∀ v ∈ idx, v = 0 ∨ v = 1) → evalB e idx = evalB e' idx) := by
  obtain ⟨w, s⟩ := formula_wf_shape N hN e hw
  obtain ⟨w', s'⟩ := formula_wf_shape N hN e' hw'
  have d := fun idx hi h01 => truth_table N hN e hw idx hi h01
  have d' := fun idx hi h01 => truth_table N hN e' hw' idx hi h01
  exact ⟨is_tautology_iff thr h1 N _ w s _ d, is_contradiction_iff thr h1 N _ w s _ d,
    is_satisfiable_iff thr h0 h1' N _ w s _ d, implies_iff thr h1 N _ _ w w' s s' _ _ d d',
    equiv_iff thr h1 N _ _ w w' s s' _ _ d d'⟩

/-- the literal thresholds of logic.py satisfy the conditions -/
example : (0 : ℚ) < 1 / 1000000 ∧ (1 / 1000000 : ℚ) * (1 / 1000000) < 1 ∧ (1 / 1000000 : ℚ) ≤ 1 := by norm_num

end predicates


/-! ### `relevant_symbols`, `irrelevant_symbols`, `only` -/

/-- **indexing with integers and slices**: if `_process_key` leaves the key alone and bounds normalisation yields the
    items `ks` (one per mode), `u[key]` never fails; without a slice it is the scalar entry at the integer positions,
    otherwise a well-formed tensor with one mode per slice whose entries are the source entries. -/
theorem getitem_intslice (u : Tensor R) (hu : u.WF) (key key1 : List RawItem) (ks : List LogicIS)
    (hp : processKey u.length key = .ok key1) (hn : normKey key1 u.shape = .ok (logicISItems ks)) (hl : ks.length = u.length) :
    (logicISShape ks = [] → u.getitem key = .ok (.inr (u.dense (logicISSrc ks [])))) ∧
    (logicISShape ks ≠ [] → ∃ v : Tensor R, u.getitem key = .ok (.inl v) ∧ v.WF ∧ v.shape = logicISShape ks ∧
      ∀ out, out.length = v.length → v.dense out = u.dense (logicISSrc ks out)) := by
  obtain ⟨lastRR, hfin⟩ := getitem_unfold u _ _ _ hp hn
  obtain ⟨r, hr1, hr2, hr3⟩ := logic_goKey_is (R := R) lastRR ks u false Option.none hl
  have hwfr : ∀ m l, r.1 = m :: l → Tensor.WF (m :: l) := by
    intro m l hml
    cases u with
    | nil => exact absurd hu (by simp [Tensor.WF])
    | cons m0 rest =>
      have := (logic_goKey_is_wf lastRR ks (m0 :: rest) false Option.none m0.core.rl r hl hu (by intro q hq; cases hq) hr1).1
      rw [hml] at this
      simp only [rowdim] at this
      exact ⟨rfl, this.2.1, this.2.2⟩
  rw [← logic_groupKey_is] at hr1
  have hg := hfin r hr1
  have hne : ks ≠ [] := by
    intro h; subst h
    cases u with
    | nil => simp [Tensor.WF] at hu
    | cons _ _ => simp at hl
  constructor
  · intro hks
    have hk : r.1 = [] := by rw [hks] at hr2; simpa [Tensor.shape] using hr2
    obtain ⟨l, q⟩ := r
    simp only at hk; subst hk
    have hq := hr3 rfl (Or.inr hne)
    cases q with
    | none => simp at hq
    | some q =>
      simp only [finishKey] at hg
      have hf : fits (groupKey (logicISItems ks)) u.length 0 := by
        have := logic_fits_is ks
        rw [logic_groupKey_is, ← hl]; rw [hks] at this; exact this
      have hx := C03.getitem_scalar u hu _ _ _ hp hn q.total hg hf
      rw [hg, hx, logic_groupKey_is, logic_srcIdx_is ks [] (by simp [hks])]
  · intro hks
    obtain ⟨l, q⟩ := r
    cases l with
    | nil => exact absurd hr2.symm hks
    | cons m l =>
      simp only [finishKey] at hg
      refine ⟨m :: l, hg, hwfr m l rfl, hr2, ?_⟩
      intro out ho
      have hol : out.length = (logicISShape ks).length := by
        rw [ho, ← hr2, shape_length]
      have hf : fits (groupKey (logicISItems ks)) u.length out.length := by
        rw [logic_groupKey_is, ← hl, hol]; exact logic_fits_is ks
      rw [C03.getitem_tensor u hu _ _ _ hp hn m l hg out hf, logic_groupKey_is, logic_srcIdx_is ks out hol]



theorem logicIns_length (n v : Nat) (out : List Nat) : (logicIns n v out).length = out.length + 1 := by
  simp [logicIns]; omega

/-- **the difference tensor of `relevant_symbols`** (logic.py:127-133): for a `2^N` tensor `t` and a variable `n < N`
    the indexing of the extended cores never fails, and the squared norm that is compared with the threshold is the
    sum over the `2^(N-1)` assignments of the other variables of `(t[x_n = 1] − t[x_n = 0])²`. -/
theorem relNormsq_spec (N : Nat) (t : Tensor R) (ht : t.WF) (hs : t.shape = List.replicate N 2) (n : Nat) (hn : n < N) :
    t.logicRelNormsq n = .ok (boxSum (List.replicate (N - 1) 2) fun out =>
      (t.dense (logicIns n 1 out) - t.dense (logicIns n 0 out)) * (t.dense (logicIns n 1 out) - t.dense (logicIns n 0 out))) := by
  have hp : t.tt.isPureTT = true := tt_pure t
  have hw1 : t.tt.WF := tt_WF t ht
  have hs1 : t.tt.shape = List.replicate N 2 := by rw [tt_shape, hs]
  have hl1 : t.tt.length = N := by rw [← shape_length, hs1]; simp
  have hw2 : t.logicDiff.WF := logicDiffMap_WF _ hw1
  have hs2 : t.logicDiff.shape = List.replicate N 3 := by rw [logicDiff_eq, logicDiffMap_shape _ hp, hs1]; simp
  have hl2 : t.logicDiff.length = N := by rw [← shape_length, hs2]; simp
  obtain ⟨gA, gB⟩ := getitem_intslice t.logicDiff hw2 (logicRelKey N n) (logicRelKey N n) (logicRelIS N n)
    (by rw [hl2]; exact logic_processKey_rel N n hn) (by rw [hs2]; exact logic_normKey_rel N n hn) (by rw [logicRelIS_length N n hn, hl2])
  have key : ∀ out : List Nat, out.length = N - 1 →
      t.logicDiff.dense (logicISSrc (logicRelIS N n) out) = t.dense (logicIns n 1 out) - t.dense (logicIns n 0 out) := by
    intro out ho
    rw [logicISSrc_rel N n hn out ho, logicDiff_eq, logicDiff_dense_at _ hp _ _ (by rw [List.length_take, hl1]; omega),
      C01.tt_dense t ht, C01.tt_dense t ht]
    rfl
  rw [logicISShape_rel N n hn] at gA gB
  simp only [Tensor.logicRelNormsq, hl2]
  by_cases h1 : N - 1 = 0
  · rw [gA (by rw [h1]; rfl)]
    simp only [bind, Except.bind, pure, Except.pure, h1, List.replicate_zero, boxSum]
    rw [key [] (by simp [h1])]
  · obtain ⟨v, g1, g2, g3, g4⟩ := gB (by intro h; have := congrArg List.length h; simp at this; exact h1 this)
    rw [g1]
    simp only [bind, Except.bind, pure, Except.pure]
    rw [logic_normsqTab_eq v g2, C06.normsq_eq v g2, g3]
    congr 1
    apply boxSum_congr_inShape
    intro out ho
    obtain ⟨hlen, _⟩ := (logic_inShape_bits out (N - 1)).mp ho
    have hv : v.length = N - 1 := by rw [← shape_length, g3]; simp
    rw [g4 out (by rw [hlen, hv]), key out hlen]


/-- the truth table `f` of `N` variables depends on variable `n`: for some assignment `out` of the other `N − 1`
    variables the two values of `x_n` give different results (`logicIns n v out` inserts `x_n = v`) -/
def dependsOn (N : Nat) (f : List Nat → Bool) (n : Nat) : Bool :=
  (assignments (N - 1)).any fun out => f (logicIns n 1 out) != f (logicIns n 0 out)

theorem logicIns_bits (n v : Nat) (hv : v = 0 ∨ v = 1) (out : List Nat) (h01 : ∀ u ∈ out, u = 0 ∨ u = 1) :
    ∀ u ∈ logicIns n v out, u = 0 ∨ u = 1 := by
  intro u hu
  simp only [logicIns, List.mem_append, List.mem_cons] at hu
  rcases hu with hu | rfl | hu
  · exact h01 u (List.mem_of_mem_take hu)
  · exact hv
  · exact h01 u (List.mem_of_mem_drop hu)

theorem logicIns_set (n v w : Nat) (out : List Nat) (hn : n ≤ out.length) :
    (logicIns n v out).set n w = logicIns n w out := by
  simp only [logicIns]
  have : (List.take n out).length = n := by simp [hn]
  rw [List.set_append_right _ _ (by omega), this]; simp

theorem logicIns_erase (n : Nat) (x : List Nat) (hn : n < x.length) (v : Nat) :
    logicIns n v (x.take n ++ x.drop (n + 1)) = x.set n v := by
  simp only [logicIns]
  have h1 : (List.take n x).length = n := by simp; omega
  rw [List.take_left' h1, List.drop_left' h1, List.set_eq_take_append_cons_drop, if_pos hn]

/-- `dependsOn` says: there are two assignments that differ only in `x_n` (namely `x` with `x_n := 1` and with
    `x_n := 0`) on which the truth table takes different values -/
theorem dependsOn_iff (N : Nat) (f : List Nat → Bool) (n : Nat) (hn : n < N) :
    dependsOn N f n = true ↔
      ∃ x : List Nat, x.length = N ∧ (∀ v ∈ x, v = 0 ∨ v = 1) ∧ f (x.set n 1) ≠ f (x.set n 0) := by
  simp only [dependsOn, List.any_eq_true, bne_iff_ne]
  constructor
  · rintro ⟨out, hm, hf⟩
    obtain ⟨hl, h01⟩ := (mem_assignments (N - 1) out).mp hm
    refine ⟨logicIns n 0 out, by rw [logicIns_length]; omega, logicIns_bits n 0 (Or.inl rfl) out h01, ?_⟩
    rw [logicIns_set n 0 1 out (by omega), logicIns_set n 0 0 out (by omega)]
    exact hf
  · rintro ⟨x, hl, h01, hf⟩
    refine ⟨x.take n ++ x.drop (n + 1), (mem_assignments (N - 1) _).mpr ⟨by simp; omega, ?_⟩, ?_⟩
    · intro v hv
      rcases List.mem_append.mp hv with h | h
      · exact h01 v (List.mem_of_mem_take h)
      · exact h01 v (List.mem_of_mem_drop h)
    · rw [logicIns_erase n x (by omega), logicIns_erase n x (by omega)]
      exact hf

/-- the quantity `relevant_symbols` compares with its threshold is, for a 0/1 tensor, the NUMBER of assignments of the
    other variables on which the value depends on `x_n` -/
theorem relNormsq_bool (N : Nat) (t : Tensor R) (ht : t.WF) (hs : t.shape = List.replicate N 2) (f : List Nat → Bool)
    (hd : ∀ idx, idx.length = N → (∀ v ∈ idx, v = 0 ∨ v = 1) → t.dense idx = b01 (f idx)) (n : Nat) (hn : n < N) :
    t.logicRelNormsq n =
      .ok (((assignments (N - 1)).countP fun out => f (logicIns n 1 out) != f (logicIns n 0 out) : Nat) : R) := by
  rw [relNormsq_spec N t ht hs n hn]
  congr 1
  apply boxSum_bool
  intro out ho h01
  rw [hd _ (by rw [logicIns_length]; omega) (logicIns_bits n 1 (Or.inr rfl) out h01),
    hd _ (by rw [logicIns_length]; omega) (logicIns_bits n 0 (Or.inl rfl) out h01)]
  cases f (logicIns n 1 out) <;> cases f (logicIns n 0 out) <;> simp [b01]

section relevant
variable {K : Type} [Field K] [LinearOrder K] [IsStrictOrderedRing K]

theorem logicRelGo_spec (thr : K) (h1 : thr * thr < 1) (N : Nat) (t : Tensor K) (ht : t.WF)
    (hs : t.shape = List.replicate N 2) (f : List Nat → Bool)
    (hd : ∀ idx, idx.length = N → (∀ v ∈ idx, v = 0 ∨ v = 1) → t.dense idx = b01 (f idx)) :
    ∀ ns : List Nat, (∀ n ∈ ns, n < N) → logicRelGo thr t ns = .ok (ns.filter (dependsOn N f)) := by
  intro ns
  induction ns with
  | nil => intro _; rfl
  | cons n ns ih =>
    intro h
    have hn := h n (by simp)
    have hrest := ih (fun m hm => h m (List.mem_cons_of_mem _ hm))
    have hgt : logicNormGt thr (((assignments (N - 1)).countP
        (fun out => f (logicIns n 1 out) != f (logicIns n 0 out)) : Nat) : K) = dependsOn N f n := by
      rw [Bool.eq_iff_iff, normGt_nat thr _ h1, dependsOn, List.any_eq_true, Ne, List.countP_eq_zero]
      simp
    simp only [logicRelGo, relNormsq_bool N t ht hs f hd n hn, hrest, bind, Except.bind, pure, Except.pure, hgt,
      List.filter_cons]

/-- **`relevant_symbols`** (threshold with `thr² < 1`, e.g. the literal `1e-10`): for a `2^N` tensor with the 0/1 truth
    table `f` the call never fails and returns, in increasing order, exactly the variables the truth table depends on. -/
theorem relevant_symbols_spec (thr : K) (h1 : thr * thr < 1) (N : Nat) (t : Tensor K) (ht : t.WF)
    (hs : t.shape = List.replicate N 2) (f : List Nat → Bool)
    (hd : ∀ idx, idx.length = N → (∀ v ∈ idx, v = 0 ∨ v = 1) → t.dense idx = b01 (f idx)) :
    t.relevantSymbols thr = .ok ((List.range N).filter (dependsOn N f)) := by
  have hN : t.length = N := by rw [← shape_length, hs]; simp
  rw [Tensor.relevantSymbols, hN]
  exact logicRelGo_spec thr h1 N t ht hs f hd _ (fun n hn => List.mem_range.mp hn)

/-- a variable is reported relevant iff two assignments differing only in it get different truth values -/
theorem relevant_iff (thr : K) (h1 : thr * thr < 1) (N : Nat) (t : Tensor K) (ht : t.WF)
    (hs : t.shape = List.replicate N 2) (f : List Nat → Bool)
    (hd : ∀ idx, idx.length = N → (∀ v ∈ idx, v = 0 ∨ v = 1) → t.dense idx = b01 (f idx)) :
    ∃ rel, t.relevantSymbols thr = .ok rel ∧ ∀ n, n ∈ rel ↔
      n < N ∧ ∃ x : List Nat, x.length = N ∧ (∀ v ∈ x, v = 0 ∨ v = 1) ∧ f (x.set n 1) ≠ f (x.set n 0) := by
  refine ⟨_, relevant_symbols_spec thr h1 N t ht hs f hd, fun n => ?_⟩
  rw [List.mem_filter, List.mem_range]
  constructor
  · rintro ⟨hn, hdep⟩; exact ⟨hn, (dependsOn_iff N f n hn).mp hdep⟩
  · rintro ⟨hn, hx⟩; exact ⟨hn, (dependsOn_iff N f n hn).mpr hx⟩

/-- **`irrelevant_symbols`**: exactly the variables the truth table does not depend on. -/
theorem irrelevant_symbols_spec (thr : K) (h1 : thr * thr < 1) (N : Nat) (t : Tensor K) (ht : t.WF)
    (hs : t.shape = List.replicate N 2) (f : List Nat → Bool)
    (hd : ∀ idx, idx.length = N → (∀ v ∈ idx, v = 0 ∨ v = 1) → t.dense idx = b01 (f idx)) :
    t.irrelevantSymbols thr = .ok ((List.range N).filter fun n => !dependsOn N f n) := by
  have hN : t.length = N := by rw [← shape_length, hs]; simp
  simp only [Tensor.irrelevantSymbols, relevant_symbols_spec thr h1 N t ht hs f hd, hN, bind, Except.bind, pure,
    Except.pure]
  congr 1
  apply List.filter_congr
  intro n hn
  congr 1
  rw [Bool.eq_iff_iff, List.contains_iff_mem, List.mem_filter]
  simp [hn]

end relevant


theorem clampLabels_bits : ∀ (N : Nat) (idx : List Nat), idx.length = N → (∀ v ∈ idx, v = 0 ∨ v = 1) →
    clampLabels ((List.replicate N 2).map List.range) (List.replicate N 2) idx = idx := by
  intro N
  induction N with
  | zero => intro idx h _; have : idx = [] := List.length_eq_zero_iff.mp h; subst this; rfl
  | succ N ih =>
    intro idx h h01
    cases idx with
    | nil => simp at h
    | cons i is =>
      simp only [List.replicate_succ, List.map_cons, clampLabels]
      rw [ih is (by simpa using h) (fun v hv => h01 v (List.mem_cons_of_mem _ hv))]
      rcases h01 i (by simp) with rfl | rfl <;> simp [List.range_succ]

section only
variable {K : Type} [Field K] [LinearOrder K] [IsStrictOrderedRing K]

/-- **`only(t)`** (`tn.mask(t, absence(N, irrelevant_symbols(t)))`): for a `2^N` tensor with the 0/1 truth table `f`
    the call never fails; the result is a well-formed `2^N` tensor that equals `t` on the assignments in which every
    variable the truth table does not depend on is 0, and is 0 on all other assignments. -/
theorem only_dense (thr : K) (h1 : thr * thr < 1) (N : Nat) (hN : 0 < N) (t : Tensor K) (ht : t.WF)
    (hs : t.shape = List.replicate N 2) (f : List Nat → Bool)
    (hd : ∀ idx, idx.length = N → (∀ v ∈ idx, v = 0 ∨ v = 1) → t.dense idx = b01 (f idx)) :
    ∃ u : Tensor K, t.only thr = .ok u ∧ u.WF ∧ u.shape = List.replicate N 2 ∧
      ∀ idx : List Nat, idx.length = N → (∀ v ∈ idx, v = 0 ∨ v = 1) →
        u.dense idx = if (∀ n, n < N → dependsOn N f n = false → idx.getD n 0 = 0) then t.dense idx else 0 := by
  have hlen : t.length = N := by rw [← shape_length, hs]; simp
  set irr := (List.range N).filter fun n => !dependsOn N f n with hirr
  have hlt : ∀ n ∈ irr, n < N := fun n hn => List.mem_range.mp (List.mem_filter.mp hn).1
  have hws : logicNormWhich N (irr.map Int.ofNat) = .ok irr := by
    rw [normWhich_ok N _ (by
      intro w hw
      obtain ⟨n, hn, rfl⟩ := List.mem_map.mp hw
      have := hlt n hn
      constructor <;> simp <;> omega)]
    congr 1
    rw [List.map_map]
    conv_rhs => rw [← List.map_id irr]
    apply List.map_congr_left
    intro n hn
    have := hlt n hn
    simp [Int.emod_eq_of_lt, this]
  -- the mask
  obtain ⟨m, hm1, hm2, hm3, _⟩ := absence_dense (R := K) N hN (irr.map Int.ofNat) irr hws (List.replicate N 0) (by simp)
    (by intro v hv; left; exact List.eq_of_mem_replicate hv)
  have hmd : ∀ idx : List Nat, idx.length = N → (∀ v ∈ idx, v = 0 ∨ v = 1) →
      m.dense idx = if (∀ w ∈ irr, idx.getD w 0 = 0) then 1 else 0 := by
    intro idx hi h01
    obtain ⟨m', e1, _, _, e4⟩ := absence_dense (R := K) N hN (irr.map Int.ofNat) irr hws idx hi h01
    rw [hm1] at e1
    cases e1
    exact e4
  have hml : m.length = N := by rw [← shape_length, hm3]; simp
  obtain ⟨r1, r2, r3⟩ := C20.maskWith_dense t m (t.shape.map List.range) ht hm2 (by rw [List.length_map, shape_length, hlen, hml])
    (by simp [List.map_map, Function.comp_def]) (by rw [hm3]; intro n hn; rw [List.eq_of_mem_replicate hn]; omega)
  refine ⟨t.maskWith (t.shape.map List.range) m, ?_, r1, by rw [r2, hs], ?_⟩
  · simp only [Tensor.only, irrelevant_symbols_spec thr h1 N t ht hs f hd, hlen, ← hirr, hm1, bind, Except.bind, pure,
      Except.pure]
  · intro idx hi h01
    rw [r3 idx (by rw [hi, hlen]), hs, hm3, clampLabels_bits N idx hi h01, hmd idx hi h01]
    have hP : (∀ w ∈ irr, idx.getD w 0 = 0) ↔ ∀ n, n < N → dependsOn N f n = false → idx.getD n 0 = 0 := by
      constructor
      · intro h n hn hdep
        exact h n (List.mem_filter.mpr ⟨List.mem_range.mpr hn, by simp [hdep]⟩)
      · intro h w hw
        have := List.mem_filter.mp hw
        exact h w (List.mem_range.mp this.1) (by simpa using this.2)
    by_cases hq : ∀ w ∈ irr, idx.getD w 0 = 0
    · rw [if_pos hq, if_pos (hP.mp hq), mul_one]
    · rw [if_neg hq, if_neg (fun h => hq (hP.mpr h)), mul_zero]

/-- **relevant / irrelevant symbols and `only` on formulas**: for every well-formed formula tree over `N` variables
    and every threshold with `thr² < 1` (the literal is `1e-10`). -/
theorem relevant_formula (thr : K) (h1 : thr * thr < 1) (N : Nat) (hN : 0 < N) (e : BForm K) (hw : wfB N e) :
    (evalT (toExpr N e)).relevantSymbols thr = .ok ((List.range N).filter (dependsOn N (evalB e))) ∧
    (evalT (toExpr N e)).irrelevantSymbols thr = .ok ((List.range N).filter fun n => !dependsOn N (evalB e) n) ∧
    ∃ u : Tensor K, (evalT (toExpr N e)).only thr = .ok u ∧ u.WF ∧ u.shape = List.replicate N 2 ∧
      ∀ idx : List Nat, idx.length = N → (∀ v ∈ idx, v = 0 ∨ v = 1) →
        u.dense idx = b01 (evalB e idx && decide (∀ n, n < N → dependsOn N (evalB e) n = false → idx.getD n 0 = 0)) := by
  obtain ⟨w, s⟩ := formula_wf_shape N hN e hw
  have d := fun idx hi h01 => truth_table N hN e hw idx hi h01
  refine ⟨relevant_symbols_spec thr h1 N _ w s _ d, irrelevant_symbols_spec thr h1 N _ w s _ d, ?_⟩
  obtain ⟨u, u1, u2, u3, u4⟩ := only_dense thr h1 N hN _ w s _ d
  refine ⟨u, u1, u2, u3, fun idx hi h01 => ?_⟩
  rw [u4 idx hi h01, d idx hi h01]
  by_cases hq : ∀ n, n < N → dependsOn N (evalB e) n = false → idx.getD n 0 = 0
  · rw [if_pos hq, decide_eq_true hq, Bool.and_true]
  · rw [if_neg hq, decide_eq_false hq, Bool.and_false]; rfl

example : dependsOn 2 (evalB (R := Int) (.or (.sym 0) (.not (.sym 0)))) 0 = false ∧
    dependsOn 2 (evalB (R := Int) (.and (.sym 0) (.sym 1))) 1 = true := by decide

end only


/-! ### non-vacuity of the hypotheses of the extension theorems -/

/-- `which = [0, -1]` over 3 variables: accepted, means the variables 0 and 2 -/
example : logicNormWhich 3 [0, -1] = .ok [0, 2] := by decide
/-- `which = [3]` over 3 variables raises -/
example : logicNormWhich 3 [3] = .error .outOfRange := by decide
/-- a 0/1 assignment of 3 variables, as the helper theorems require -/
example : ([1, 0, 1] : List Nat).length = 3 ∧ ∀ v ∈ ([1, 0, 1] : List Nat), v = 0 ∨ v = 1 := by decide
/-- `one(3, [0])` as coded is 0 on `(1, 1, 0)` although exactly one LISTED variable is 1 (two variables are 1 overall) -/
example : (([1, 1, 0] : List Nat).count 1 = 1 ∧ ∃ n ∈ [0], n < 3 ∧ ([1, 1, 0] : List Nat).getD n 0 = 1) = False := by
  simp
/-- a pair of well-formed formulas over 2 variables for the predicates (ℚ; `ρ = 2` would be needed for `^` over ℚ with
    `N = 1`, so the example uses `~ & |`) -/
example : wfB (R := ℚ) 2 (.or (.sym 0) (.not (.sym 0))) ∧ wfB (R := ℚ) 2 (.and (.sym 0) (.sym 1)) := by simp [wfB]
/-- an `xor` node is well formed over `N = 1` with `ρ = 2` -/
example : wfB (R := ℚ) 1 (.xor 2 (.sym 0) (.sym 0)) := by simp [wfB]
/-- the literal `1e-10` of `relevant_symbols` satisfies `thr² < 1` -/
example : (1 / 10000000000 : ℚ) * (1 / 10000000000) < 1 := by norm_num


section relevant_general
variable {K : Type} [Field K] [LinearOrder K] [IsStrictOrderedRing K]

theorem boxSum_ge_term : ∀ (ns : List Nat) (f : List Nat → K), (∀ is, 0 ≤ f is) → ∀ out, inShape out ns →
    f out ≤ boxSum ns f := by
  intro ns
  induction ns with
  | nil =>
    intro f _ out ho
    cases out with
    | nil => exact le_refl _
    | cons _ _ => simp [inShape] at ho
  | cons n ns ih =>
    intro f hf out ho
    cases out with
    | nil => simp [inShape] at ho
    | cons i out =>
      obtain ⟨hi, ho'⟩ := ho
      simp only [boxSum, sumTo_eq]
      calc f (i :: out) ≤ boxSum ns (fun is => f (i :: is)) := ih _ (fun is => hf _) out ho'
        _ ≤ ∑ j ∈ range n, boxSum ns (fun is => f (j :: is)) :=
          Finset.single_le_sum (f := fun j => boxSum ns (fun is => f (j :: is)))
            (fun j _ => boxSum_nonneg ns _ (fun is => hf _)) (Finset.mem_range.mpr hi)

/-- **the test of `relevant_symbols` on an arbitrary (not necessarily Boolean) `2^N` tensor**, exact arithmetic, any
    threshold: a variable is reported only if some pair of entries differing only in it differs (no false positive),
    and it is reported as soon as one such pair differs by more than `|thr|`. -/
theorem relevant_test_general (thr : K) (N : Nat) (t : Tensor K) (ht : t.WF) (hs : t.shape = List.replicate N 2)
    (n : Nat) (hn : n < N) :
    ∃ x, t.logicRelNormsq n = .ok x ∧
      (logicNormGt thr x = true → ∃ out : List Nat, out.length = N - 1 ∧ (∀ v ∈ out, v = 0 ∨ v = 1) ∧
        t.dense (logicIns n 1 out) ≠ t.dense (logicIns n 0 out)) ∧
      (∀ out : List Nat, out.length = N - 1 → (∀ v ∈ out, v = 0 ∨ v = 1) →
        thr * thr < (t.dense (logicIns n 1 out) - t.dense (logicIns n 0 out)) *
          (t.dense (logicIns n 1 out) - t.dense (logicIns n 0 out)) → logicNormGt thr x = true) := by
  refine ⟨_, relNormsq_spec N t ht hs n hn, ?_, ?_⟩
  · intro h
    have hnn := boxSum_nonneg (List.replicate (N - 1) 2) (fun out =>
      (t.dense (logicIns n 1 out) - t.dense (logicIns n 0 out)) * (t.dense (logicIns n 1 out) - t.dense (logicIns n 0 out)))
      (fun is => mul_self_nonneg _)
    simp only [logicNormGt, logicClamp0, if_neg (not_lt.mpr hnn), decide_eq_true_eq] at h
    have hne : boxSum (List.replicate (N - 1) 2) (fun out =>
      (t.dense (logicIns n 1 out) - t.dense (logicIns n 0 out)) * (t.dense (logicIns n 1 out) - t.dense (logicIns n 0 out))) ≠ 0 := by
      intro h0; rw [h0] at h; exact absurd h (not_lt.mpr (mul_self_nonneg thr))
    rw [Ne, boxSum_eq_zero_iff _ _ (fun is => mul_self_nonneg _)] at hne
    simp only [not_forall] at hne
    obtain ⟨out, ho, hd⟩ := hne
    obtain ⟨h1, h2⟩ := (logic_inShape_bits out (N - 1)).mp ho
    refine ⟨out, h1, h2, ?_⟩
    intro heq; apply hd; rw [heq]; ring
  · intro out ho h01 hlt
    have hge := boxSum_ge_term (List.replicate (N - 1) 2) (fun out =>
      (t.dense (logicIns n 1 out) - t.dense (logicIns n 0 out)) * (t.dense (logicIns n 1 out) - t.dense (logicIns n 0 out)))
      (fun is => mul_self_nonneg _) out ((logic_inShape_bits out (N - 1)).mpr ⟨ho, h01⟩)
    have hnn := le_trans (mul_self_nonneg _) hge
    simp only [logicNormGt, logicClamp0, if_neg (not_lt.mpr hnn), decide_eq_true_eq]
    exact lt_of_lt_of_le hlt hge

end relevant_general


end TN.C15
