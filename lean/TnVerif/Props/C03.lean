import TnVerif.Lemmas.IndexSpec
import TnVerif.Lemmas.SqueezeOps
/-!
# C03 — indexing a compressed tensor equals (natural) NumPy indexing of the dense array

`t[key]` is modelled by `Tensor.getitem` (an output-faithful model of `_process_key` and the
`__getitem__` state machine).  The theorems say: the result, read at an output index `out`, is the
original array read at `srcIdx key out` — integers contribute themselves, a slice `start + j·step`,
`None` nothing, a contiguous run of index arrays the zipped entries, with the run's dimension left
where the run stood.  They hold for every number of modes, size, rank and format mix.
-/
namespace TN.C03
open TN Finset
variable {R : Type} [CommSemiring R]

theorem outRank_getLast (m : TMode R) (ms : Tensor R) (p : Nat) :
    outRank p (Tensor.modes (m :: ms)) = (match (m :: ms).getLast? with | some x => x.core.rr | Option.none => 1) := by
  induction ms generalizing m p with
  | nil => rfl
  | cons x xs ih =>
    have := ih x m.core.rr
    simp only [Tensor.modes, List.map_cons, outRank] at this ⊢
    rw [this]
    simp [List.getLast?_cons_cons]

/-- **tensor-valued result**: every entry of `t[key]` is the entry of `t` at the source index. -/
theorem getitem_tensor (t : Tensor R) (ht : t.WF) (key key1 : List RawItem) (items : List Item)
    (h1 : processKey t.length key = .ok key1) (h2 : normKey key1 t.shape = .ok items)
    (m : TMode R) (l : Tensor R) (hr : t.getitem key = .ok (.inl (m :: l)))
    (out : List Nat) (hf : fits (groupKey items) t.length out.length) :
    Tensor.dense (m :: l) out = t.dense (srcIdx (groupKey items) out) := by
  cases t with
  | nil => exact absurd ht (by simp [Tensor.WF])
  | cons m0 rest =>
    simp only [Tensor.getitem, h1, h2, bind, Except.bind] at hr
    split at hr
    · simp at hr
    · rename_i r hgo
      have ho := outRank_getLast m0 rest m0.core.rl
      obtain ⟨_, i2, i3⟩ := goKey_spec _ (groupKey items) (m0 :: rest) false Option.none m0.core.rl r ht ho
        (by intro q hq; simp at hq) hgo
      obtain ⟨rl, rq⟩ := r
      have hl : rl = m :: l := by
        cases rl with
        | nil => cases rq <;> simp [pure, Except.pure] at hr
        | cons x xs => simpa [pure, Except.pure] using hr
      subst hl
      have hrl := i2 m l rfl
      simp only [rowdim] at hrl i3
      simp only [Tensor.dense, Tensor.modes, List.map_cons, dense, sumTo_eq, TMode.toMode_rl, hrl]
      apply Finset.sum_congr rfl; intro a ha
      have ha' := Finset.mem_range.mp ha
      have hv := i3 out a ha'
      simp only [V, Tensor.modes, List.map_cons] at hv
      rw [hv]
      have hS : ∀ c ∈ range m0.core.rl, pM (R := R) Option.none a c * S (groupKey items) (Tensor.modes (m0 :: rest)) out c =
          if a = c then tail (Tensor.modes (m0 :: rest)) (srcIdx (groupKey items) out) c else 0 := by
        intro c hc
        rw [S_eq_tail _ _ out m0.core.rl c (wf_modes _ _ ht) (by simpa [Tensor.modes] using hf) (Finset.mem_range.mp hc)]
        simp only [pM]; split <;> simp
      simp only [Tensor.modes, List.map_cons] at hS
      rw [Finset.sum_congr rfl hS, Finset.sum_ite_eq, if_pos ha]

/-- **scalar result** (every mode indexed by an integer): the value is the entry of `t`. -/
theorem getitem_scalar (t : Tensor R) (ht : t.WF) (key key1 : List RawItem) (items : List Item)
    (h1 : processKey t.length key = .ok key1) (h2 : normKey key1 t.shape = .ok items)
    (x : R) (hr : t.getitem key = .ok (.inr x)) (hf : fits (groupKey items) t.length 0) :
    x = t.dense (srcIdx (groupKey items) []) := by
  cases t with
  | nil => exact absurd ht (by simp [Tensor.WF])
  | cons m0 rest =>
    simp only [Tensor.getitem, h1, h2, bind, Except.bind] at hr
    split at hr
    · simp at hr
    · rename_i r hgo
      have ho := outRank_getLast m0 rest m0.core.rl
      obtain ⟨i1, _, i3⟩ := goKey_spec _ (groupKey items) (m0 :: rest) false Option.none m0.core.rl r ht ho
        (by intro q hq; simp at hq) hgo
      obtain ⟨rl, rq⟩ := r
      cases rl with
      | cons y ys => simp [pure, Except.pure] at hr
      | nil =>
        cases rq with
        | none => simp [pure, Except.pure] at hr
        | some q =>
          simp only [pure, Except.pure, Except.ok.injEq, Sum.inr.injEq] at hr
          subst hr
          have hq := i1 q rfl
          simp only [rowdim] at hq i3
          have htot : q.total = ∑ a ∈ range q.rl, q.rowsum a := by
            cases q with
            | vec n f =>
              simp only [PInt.total, sumTo_eq, PInt.rl]
              apply Finset.sum_congr rfl; intro a ha
              rw [rowsum_vec n f a (Finset.mem_range.mp ha)]
            | mat r c f => simp [PInt.total, sumTo_eq, PInt.rl, PInt.rowsum, PInt.rr, PInt.M]
          rw [htot, hq]
          simp only [Tensor.dense, Tensor.modes, List.map_cons, dense, sumTo_eq, TMode.toMode_rl]
          apply Finset.sum_congr rfl; intro a ha
          have ha' := Finset.mem_range.mp ha
          have hv := i3 [] a ha'
          simp only [V] at hv
          rw [hv]
          have hS : ∀ c ∈ range m0.core.rl, pM (R := R) Option.none a c * S (groupKey items) (Tensor.modes (m0 :: rest)) [] c =
              if a = c then tail (Tensor.modes (m0 :: rest)) (srcIdx (groupKey items) []) c else 0 := by
            intro c hc
            rw [S_eq_tail _ _ [] m0.core.rl c (wf_modes _ _ ht) (by simpa [Tensor.modes] using hf) (Finset.mem_range.mp hc)]
            simp only [pM]; split <;> simp
          rw [Finset.sum_congr rfl hS, Finset.sum_ite_eq, if_pos ha]
          rfl

/-! ### bounds normalisation is Python's -/

/-- integers: `k` is accepted iff `-n ≤ k < n`, and then means `k mod n` -/
theorem normInt_ok (k : Int) (n : Nat) (h : -(n : Int) ≤ k ∧ k < n) : normInt k n = .ok (k % n).toNat := by
  unfold normInt
  by_cases hk : k < 0
  · have h1 : 0 ≤ k + n ∧ k + n < n := by omega
    simp only [hk, if_true, h1, and_self]
    congr 1
    have : k % (n : Int) = k + n := by
      rw [Int.emod_eq_add_self_emod, Int.emod_eq_of_lt] <;> omega
    rw [this]
  · have h1 : 0 ≤ k ∧ k < n := by omega
    simp only [hk, if_false, h1, and_self, if_true]
    congr 1
    rw [Int.emod_eq_of_lt] <;> omega

/-- out-of-range integers are rejected -/
theorem normInt_err (k : Int) (n : Nat) (h : k < -(n : Int) ∨ (n : Int) ≤ k) : normInt k n = .error .outOfRange := by
  unfold normInt
  by_cases hk : k < 0
  · have : ¬ (0 ≤ k + n ∧ k + n < n) := by omega
    simp only [hk, if_true, this, if_false]
  · have : ¬ (0 ≤ k ∧ k < n) := by omega
    simp only [hk, if_false, this]

/-- a second run of index arrays is rejected (two separate runs are outside the grammar) -/
theorem second_run_error (lastRR : Nat) (p : Option (PInt R)) (ls : List (List Nat)) (ks : List GItem) (ms : Tensor R) :
    ∃ e, goKey lastRR true p (.run ls :: ks) ms = .error e := by
  cases ls with
  | nil => cases ms <;> exact ⟨_, rfl⟩
  | cons l ls =>
    cases ms with
    | nil => exact ⟨_, rfl⟩
    | cons m ms => exact ⟨.runBroken, by simp [goKey]⟩

/-- a non-positive step is rejected -/
theorem bad_step_error (a b : Option Int) (s : Int) (n : Nat) (h : s ≤ 0) : normSlice a b (some s) n = .error .badStep := by
  simp [normSlice, h]

/-! ## every key of the grammar: shape, well-formedness and values of `t[key]`; which keys are accepted -/

omit [CommSemiring R] in
/-- the processed and normalised key consumes exactly the modes of `t` -/
theorem getitem_fits (t : Tensor R) (key key1 : List RawItem) (items : List Item)
    (h1 : processKey t.length key = .ok key1) (h2 : normKey key1 t.shape = .ok items) :
    gk_consI items = t.length ∧ fits (groupKey items) t.length (outShape (groupKey items)).length := by
  obtain ⟨c1, _⟩ := gk_processKey_cons _ _ _ h1
  obtain ⟨n1, _⟩ := gk_normKey_cons _ _ _ h2
  have := gk_fits items
  rw [n1, c1] at this
  exact ⟨by rw [n1, c1], this⟩

/-- **`t[key]` for every key of the grammar** (integers, slices, `None`, Ellipsis, one run of index arrays): whenever
    the call returns, the result has the NumPy shape `outShape` (a slice contributes its count, `None` a 1, a run the
    length of its arrays, an integer nothing); it is a plain scalar exactly when that shape is empty, otherwise a
    well-formed tensor; and every entry is the entry of `t` at the source index. -/
theorem getitem_spec (t : Tensor R) (ht : t.WF) (key key1 : List RawItem) (items : List Item)
    (h1 : processKey t.length key = .ok key1) (h2 : normKey key1 t.shape = .ok items)
    (res : Tensor R ⊕ R) (hr : t.getitem key = .ok res) :
    (outShape (groupKey items) = [] → res = .inr (t.dense (srcIdx (groupKey items) []))) ∧
    (outShape (groupKey items) ≠ [] → ∃ v : Tensor R, res = .inl v ∧ v.WF ∧ v.shape = outShape (groupKey items) ∧
      ∀ out, out.length = v.length → v.dense out = t.dense (srcIdx (groupKey items) out)) := by
  obtain ⟨hcons, hf⟩ := getitem_fits t key key1 items h1 h2
  cases t with
  | nil => exact absurd ht (by simp [Tensor.WF])
  | cons m0 rest =>
    have hr0 := hr
    simp only [Tensor.getitem, h1, h2, bind, Except.bind] at hr
    split at hr
    · simp at hr
    · rename_i r hgo
      have ho := outRank_getLast m0 rest m0.core.rl
      obtain ⟨w1, _, w3, w4⟩ := gk_goKey_wf_shape _ (groupKey items) (m0 :: rest) false Option.none m0.core.rl r ht ho
        (by intro q hq; cases hq) hgo
      simp only [rowdim] at w1
      obtain ⟨rl, rq⟩ := r
      simp only at w1 w3 w4
      constructor
      · intro hs
        rw [hs] at w3 hf
        have hrl : rl = [] := by simpa [Tensor.shape] using w3
        subst hrl
        have hne : groupKey items ≠ [] := by
          apply gk_groupKey_ne
          intro h; subst h
          simp [gk_consI] at hcons
        have hq := w4 rfl (Or.inr hne)
        cases rq with
        | none => simp at hq
        | some q =>
          simp only [pure, Except.pure, Except.ok.injEq] at hr
          subst hr
          rw [← getitem_scalar (m0 :: rest) ht key key1 items h1 h2 q.total hr0 hf]
      · intro hs
        cases rl with
        | nil => rw [← w3] at hs; simp [Tensor.shape] at hs
        | cons m l =>
          simp only [pure, Except.pure, Except.ok.injEq] at hr
          subst hr
          refine ⟨m :: l, rfl, ⟨rfl, w1.2.1, w1.2.2⟩, w3, ?_⟩
          intro out ho'
          have hol : out.length = (outShape (groupKey items)).length := by
            rw [ho', ← w3, shape_length]
          exact getitem_tensor (m0 :: rest) ht key key1 items h1 h2 m l hr0 out (by rw [hol]; exact hf)

/-- **which keys are accepted**: once `_process_key` and the bounds normalisation have succeeded, `t[key]` returns iff
    the key contains at most one contiguous run of index arrays and the arrays of that run have equal lengths;
    every other key of that kind raises. -/
theorem getitem_ok_iff (t : Tensor R) (key key1 : List RawItem) (items : List Item)
    (h1 : processKey t.length key = .ok key1) (h2 : normKey key1 t.shape = .ok items) :
    (∃ res, t.getitem key = .ok res) ↔ gk_runsOK false (groupKey items) := by
  constructor
  · intro ⟨res, hr⟩
    simp only [Tensor.getitem, h1, h2, bind, Except.bind] at hr
    split at hr
    · simp at hr
    · rename_i r hgo
      exact gk_goKey_runsOK _ _ _ _ _ _ hgo
  · intro hruns
    obtain ⟨_, hf⟩ := getitem_fits t key key1 items h1 h2
    obtain ⟨lastRR, hfin⟩ := getitem_unfold t key key1 items h1 h2
    obtain ⟨r, hr⟩ := gk_goKey_ok lastRR (groupKey items) t false Option.none _ hf hruns
    exact ⟨_, hfin r hr⟩

/-- errors of `_process_key` (second Ellipsis, too many entries) are raised by `t[key]` -/
theorem getitem_processKey_error (t : Tensor R) (key : List RawItem) (e : IdxErr)
    (h : processKey t.length key = .error e) : t.getitem key = .error e := by
  simp [Tensor.getitem, h, bind, Except.bind]

/-- errors of the bounds normalisation (out-of-range integer, non-positive step) are raised by `t[key]` -/
theorem getitem_normKey_error (t : Tensor R) (key key1 : List RawItem) (e : IdxErr)
    (h1 : processKey t.length key = .ok key1) (h : normKey key1 t.shape = .error e) : t.getitem key = .error e := by
  simp [Tensor.getitem, h1, h, bind, Except.bind]

/-- a key without Ellipsis with more non-`None` entries than modes is rejected -/
theorem processKey_tooMany (N : Nat) (key : List RawItem) (he : key.any RawItem.isEllipsis = false)
    (hc : N < gk_consR key) : processKey N key = .error .tooMany := by
  unfold processKey
  simp only [gk_expand_noEllipsis N key _ key he, he]
  rw [← gk_consR_eq]
  simp [hc]

/-- **keys made of `:`, `None` and in-range integers** (the keys `squeeze`, `unsqueeze`, `unbind` and assignment
    build): `t[key]` always returns; the result is the scalar entry if no mode is kept and no `None` is present,
    otherwise a well-formed tensor of shape `skShape` whose entries are those of `t` at `skSrc`. -/
theorem getitem_simple (t : Tensor R) (ht : t.WF) (s : List SK) (hc : skCons s = t.length) (hok : skOK s t.shape) :
    (skShape s t.shape = [] → t.getitem (skRaw s) = .ok (.inr (t.dense (skSrc s [])))) ∧
    (skShape s t.shape ≠ [] → ∃ v : Tensor R, t.getitem (skRaw s) = .ok (.inl v) ∧ v.WF ∧ v.shape = skShape s t.shape ∧
      ∀ out, out.length = v.length → v.dense out = t.dense (skSrc s out)) := by
  have h1 : processKey t.length (skRaw s) = .ok (skRaw s) :=
    gk_processKey_id _ _ (sk_noEllipsis s) (by rw [sk_consR, hc])
  have hcl : skCons s = t.shape.length := by rw [hc, shape_length]
  have h2 : normKey (skRaw s) t.shape = .ok (skItems s t.shape) := sk_normKey s t.shape hcl hok
  obtain ⟨res, hres⟩ := (getitem_ok_iff t _ _ _ h1 h2).mpr (by rw [sk_groupKey]; exact sk_runsOK _ _ _)
  obtain ⟨a, b⟩ := getitem_spec t ht _ _ _ h1 h2 res hres
  rw [sk_groupKey, sk_outShape] at a b
  constructor
  · intro hs
    rw [hres, a hs, sk_srcIdx s t.shape [] (by omega)]
  · intro hs
    obtain ⟨v, e, w, sh, d⟩ := b hs
    refine ⟨v, by rw [hres, e], w, sh, ?_⟩
    intro out ho
    rw [d out ho, sk_srcIdx s t.shape out (by omega)]

example := getitem_spec (R := ℚ) [{ core := .tt 1 2 1 (fun _ j _ => (j : ℚ) + 1), U := Option.none }]
  ⟨rfl, trivial, trivial⟩ [.none, .int (-1)] [.none, .int (-1)] [.none, .int 1] rfl rfl

/-! ## `tn.squeeze`, `tn.unsqueeze`, `tn.unbind` -/

theorem squeeze_aux (t : Tensor R) (ht : t.WF) (dim : Option (List Int)) (dimN : List Nat)
    (hn : (sqops_dimList t.shape dim).mapM (fun d => normInt d t.length) = .ok dimN)
    (h1 : ∀ m ∈ dimN, t.shape.getD m 0 = 1) :
    ((sqops_mark t.length dimN).all id = true →
      t.squeeze dim = .ok (.inr (t.dense (List.replicate t.length 0)))) ∧
    ((sqops_mark t.length dimN).all id = false → ∃ v : Tensor R, t.squeeze dim = .ok (.inl v) ∧ v.WF ∧
      v.shape = keepShape (sqops_mark t.length dimN) t.shape ∧
      ∀ out, out.length = v.length → v.dense out = t.dense (fillIdx (sqops_mark t.length dimN) out)) := by
  have hall : dimN.all (fun m => t.shape.getD m 0 == 1) = true := by
    rw [List.all_eq_true]; intro m hm; simpa using h1 m hm
  have hfl := sqops_mark_length t.length dimN
  have hfo : flaggedOne (sqops_mark t.length dimN) t.shape := by
    apply sqops_flaggedOne
    intro k hk
    by_cases hkl : k < t.length
    · rw [sqops_mark_get _ _ _ hkl] at hk
      have hmem : k ∈ dimN := by simpa using hk
      have := h1 k hmem
      have hks : k < t.shape.length := by rw [shape_length]; exact hkl
      rw [List.getD_eq_getElem?_getD, List.getElem?_eq_getElem hks] at this
      rw [List.getElem?_eq_getElem hks]; simpa using this
    · rw [sqops_mark_get_ge _ _ _ (Nat.le_of_not_lt hkl)] at hk; cases hk
  have hsq : t.squeeze dim = sqops_wrap (t.getitem (skRaw (sqSK (sqops_mark t.length dimN)))) := by
    unfold Tensor.squeeze
    simp only [hn, hall, if_true, sqops_sqKey_eq, sqops_skRaw_sq]
  obtain ⟨a, b⟩ := getitem_simple t ht (sqSK (sqops_mark t.length dimN)) (by rw [sqops_skCons_sq, hfl])
    (sqops_skOK_sq _ _ hfo)
  rw [sqops_skShape_sq] at a b
  have hkn := keepShape_eq_nil (sqops_mark t.length dimN) t.shape (by rw [hfl, shape_length])
  constructor
  · intro hal
    rw [hsq, a (hkn.mpr hal), sqops_skSrc_sq, fillIdx_all _ hal, hfl]; rfl
  · intro hal
    have hne : keepShape (sqops_mark t.length dimN) t.shape ≠ [] := by
      intro h; rw [hkn.mp h] at hal; cases hal
    obtain ⟨v, e, w, sh, d⟩ := b hne
    refine ⟨v, by rw [hsq, e]; rfl, w, sh, ?_⟩
    intro out ho
    rw [d out ho, sqops_skSrc_sq]

/-- **`tn.squeeze(t, dim)` for an integer or a list `dim`** (negative entries count from the end; `dimN` are the
    positions after Python's normalisation, all of size 1 as the routine asserts): the call returns the plain scalar
    entry `t[0,…,0]` when every mode is listed, and otherwise a well-formed tensor whose shape is the shape of `t`
    with exactly the listed modes removed and whose entries are those of `t` (index 0 re-inserted at the removed
    modes).  `sqops_mark N dimN` flags position `k < N` iff `k ∈ dimN` (`sqops_mark_get`). -/
theorem squeeze_dense (t : Tensor R) (ht : t.WF) (dim : List Int) (dimN : List Nat)
    (hn : dim.mapM (fun d => normInt d t.length) = .ok dimN) (h1 : ∀ m ∈ dimN, t.shape.getD m 0 = 1) :
    ((sqops_mark t.length dimN).all id = true →
      t.squeeze (some dim) = .ok (.inr (t.dense (List.replicate t.length 0)))) ∧
    ((sqops_mark t.length dimN).all id = false → ∃ v : Tensor R, t.squeeze (some dim) = .ok (.inl v) ∧ v.WF ∧
      v.shape = keepShape (sqops_mark t.length dimN) t.shape ∧
      ∀ out, out.length = v.length → v.dense out = t.dense (fillIdx (sqops_mark t.length dimN) out)) :=
  squeeze_aux t ht (some dim) dimN hn h1

/-- **`tn.squeeze(t)` (`dim=None`)**: never fails; if every mode has size 1 the result is the plain scalar entry,
    otherwise it is a well-formed tensor whose shape is the shape of `t` with all size-1 modes removed (nothing is
    removed, and `t` is returned entry for entry, when there is none) and whose entries are those of `t`. -/
theorem squeeze_none_dense (t : Tensor R) (ht : t.WF) :
    ((t.shape.map (fun n => n == 1)).all id = true →
      t.squeeze Option.none = .ok (.inr (t.dense (List.replicate t.length 0)))) ∧
    ((t.shape.map (fun n => n == 1)).all id = false → ∃ v : Tensor R, t.squeeze Option.none = .ok (.inl v) ∧ v.WF ∧
      v.shape = t.shape.filter (fun n => n != 1) ∧
      ∀ out, out.length = v.length → v.dense out = t.dense (fillIdx (t.shape.map (fun n => n == 1)) out)) := by
  have hlt := sqops_onesDims_lt t.shape
  have hn := sqops_mapM_nat t.shape.length (sqops_onesDims t.shape) hlt
  have hm := sqops_mark_ones t.shape
  rw [shape_length] at hn hm
  have h1 : ∀ m ∈ sqops_onesDims t.shape, t.shape.getD m 0 = 1 := by
    intro m hm'
    simp only [sqops_onesDims, List.mem_filter, List.mem_range] at hm'
    simpa using hm'.2
  have := squeeze_aux t ht Option.none (sqops_onesDims t.shape) hn h1
  rw [hm, sqops_keepShape_ones] at this
  exact this

/-- a listed mode of size ≠ 1 makes `tn.squeeze` fail its assertion -/
theorem squeeze_assert (t : Tensor R) (dim : List Int) (dimN : List Nat)
    (hn : dim.mapM (fun d => normInt d t.length) = .ok dimN) (h1 : ∃ m ∈ dimN, t.shape.getD m 0 ≠ 1) :
    t.squeeze (some dim) = .error .assertion := by
  have hall : dimN.all (fun m => t.shape.getD m 0 == 1) = false := by
    rw [List.all_eq_false]
    obtain ⟨m, hm, hne⟩ := h1
    exact ⟨m, hm, by simpa using hne⟩
  unfold Tensor.squeeze
  simp only [sqops_dimList, hn, hall, Bool.false_eq_true, if_false]

/-- a position outside `[-N, N)` makes `tn.squeeze` raise an IndexError -/
theorem squeeze_index_error (t : Tensor R) (dim : List Int)
    (h : ∃ d ∈ dim, d < -(t.length : Int) ∨ (t.length : Int) ≤ d) : t.squeeze (some dim) = .error .index := by
  obtain ⟨d, hd, hr⟩ := h
  obtain ⟨e, he⟩ := sqops_mapM_error t.length dim ⟨d, hd, _, normInt_err d t.length hr⟩
  unfold Tensor.squeeze
  simp only [sqops_dimList, he]

/-- **`tn.unsqueeze(t, dim)`** (an integer or a list; `dimN` are the listed positions after Python's normalisation
    against the new number of modes `N + len(dim)`, pairwise distinct): the call returns a well-formed tensor whose
    shape is the shape of `t` with a 1 inserted at exactly the listed positions (`sqops_keepShape_insOnes`,
    `sqops_flaggedOne_insOnes`) and whose entries are those of `t`, the indices of the inserted modes being dropped. -/
theorem unsqueeze_dense (t : Tensor R) (ht : t.WF) (dim : List Int) (dimN : List Nat)
    (hn : dim.mapM (fun d => normInt d (t.length + dim.length)) = .ok dimN) (hnd : dimN.Nodup) :
    ∃ v : Tensor R, t.unsqueeze dim = .ok (.inl v) ∧ v.WF ∧
      v.shape = sqops_insOnes (sqops_mark (t.length + dim.length) dimN) t.shape ∧
      ∀ out, out.length = v.length → v.dense out = t.dense (keepShape (sqops_mark (t.length + dim.length) dimN) out) := by
  obtain ⟨hlen, hlt⟩ := sqops_mapM_spec _ _ _ hn
  have hfl := sqops_mark_length (t.length + dim.length) dimN
  have hcnt := sqops_mark_count (t.length + dim.length) dimN hnd hlt
  have hc : skCons (uqSK (sqops_mark (t.length + dim.length) dimN)) = t.length := by
    have := sqops_skCons_uq (sqops_mark (t.length + dim.length) dimN)
    omega
  have hus : t.unsqueeze dim = sqops_wrap (t.getitem (skRaw (uqSK (sqops_mark (t.length + dim.length) dimN)))) := by
    unfold Tensor.unsqueeze
    simp only [hn, sqops_uqKey_eq]
  obtain ⟨_, b⟩ := getitem_simple t ht _ hc (sqops_skOK_uq _ _)
  rw [sqops_skShape_uq] at b
  have hne : sqops_insOnes (sqops_mark (t.length + dim.length) dimN) t.shape ≠ [] := by
    intro h
    have := sqops_insOnes_length (sqops_mark (t.length + dim.length) dimN) t.shape (by rw [hc, shape_length])
    rw [h, hfl] at this
    have hpos : 0 < t.length := by
      cases t with
      | nil => exact absurd ht (by simp [Tensor.WF])
      | cons _ _ => simp
    simp at this; omega
  obtain ⟨v, e, w, sh, d⟩ := b hne
  refine ⟨v, by rw [hus, e]; rfl, w, sh, ?_⟩
  intro out ho
  rw [d out ho, sqops_skSrc_uq]

/-- a position outside the new key makes `tn.unsqueeze` raise an IndexError -/
theorem unsqueeze_index_error (t : Tensor R) (dim : List Int)
    (h : ∃ d ∈ dim, d < -((t.length + dim.length : Nat) : Int) ∨ ((t.length + dim.length : Nat) : Int) ≤ d) :
    t.unsqueeze dim = .error .index := by
  obtain ⟨d, hd, hr⟩ := h
  obtain ⟨e, he⟩ := sqops_mapM_error (t.length + dim.length) dim ⟨d, hd, _, normInt_err d _ hr⟩
  unfold Tensor.unsqueeze
  simp only [he]

/-- a position listed twice (possibly once from the front and once from the end) leaves the key of `tn.unsqueeze` with
    more non-`None` entries than `t` has modes: `_process_key` raises "too many index entries" -/
theorem unsqueeze_dup_error (t : Tensor R) (dim : List Int) (dimN : List Nat)
    (hn : dim.mapM (fun d => normInt d (t.length + dim.length)) = .ok dimN) (hdup : ¬ dimN.Nodup) :
    t.unsqueeze dim = .error (.key .tooMany) := by
  obtain ⟨hlen, _⟩ := sqops_mapM_spec _ _ _ hn
  have hfl := sqops_mark_length (t.length + dim.length) dimN
  have hcnt := sqops_mark_count_dup (t.length + dim.length) dimN hdup
  have hc := sqops_skCons_uq (sqops_mark (t.length + dim.length) dimN)
  have hp := processKey_tooMany t.length (skRaw (uqSK (sqops_mark (t.length + dim.length) dimN))) (sk_noEllipsis _)
    (by rw [sk_consR]; omega)
  unfold Tensor.unsqueeze
  simp only [hn, sqops_uqKey_eq, getitem_processKey_error t _ _ hp]
  rfl

/-- **`tn.unbind(t, dim)`** for `-N ≤ dim < N`: the call returns as many results as mode `d` has entries
    (`d = dim + N` if `dim < 0`); the `k`-th one is `t[:, …, k, …, :]`: the plain scalar `t[k]` if `t` has a single
    mode, otherwise a well-formed tensor with mode `d` removed whose entries are those of `t` with `k` inserted at
    position `d`. -/
theorem unbind_dense (t : Tensor R) (ht : t.WF) (dim : Int) (hd : -(t.length : Int) ≤ dim ∧ dim < t.length) :
    ∃ l : List (Tensor R ⊕ R), t.unbind dim = .ok l ∧
      l.length = t.shape.getD (if dim < 0 then dim + t.length else dim).toNat 0 ∧
      ∀ k, k < t.shape.getD (if dim < 0 then dim + t.length else dim).toNat 0 →
        (t.length = 1 → l[k]? = some (.inr (t.dense [k]))) ∧
        (t.length ≠ 1 → ∃ v : Tensor R, l[k]? = some (.inl v) ∧ v.WF ∧
          v.shape = t.shape.take (if dim < 0 then dim + t.length else dim).toNat ++
            t.shape.drop ((if dim < 0 then dim + t.length else dim).toNat + 1) ∧
          ∀ out, out.length = v.length → v.dense out =
            t.dense (out.take (if dim < 0 then dim + t.length else dim).toNat ++
              k :: out.drop (if dim < 0 then dim + t.length else dim).toNat)) := by
  generalize hdd : (if dim < 0 then dim + (t.length : Int) else dim) = d
  have hd0 : 0 ≤ d ∧ d < t.length := by
    subst hdd; split <;> omega
  obtain ⟨a, ha⟩ : ∃ a : Nat, d = a := ⟨d.toNat, by omega⟩
  subst ha
  have ha : a < t.length := by omega
  simp only [Int.toNat_natCast]
  have has : a < t.shape.length := by rw [shape_length]; exact ha
  have hget : sqops_pyGet t.shape (a : Int) = some (t.shape.getD a 0) := by
    unfold sqops_pyGet
    rw [sqops_normInt_nat a _ has]
    simp [List.getD_eq_getElem?_getD, List.getElem?_eq_getElem has]
  have hgetD : t.shape[a]? = some (t.shape.getD a 0) := by
    simp [List.getD_eq_getElem?_getD, List.getElem?_eq_getElem has]
  -- each slice
  have hkey : ∀ sl, sqops_ubKey t.length (a : Int) sl = skRaw (ubSK a (t.length - 1 - a) sl) := by
    intro sl
    rw [sqops_skRaw_ub]
    unfold sqops_ubKey
    have : ((t.length : Int) - 1 - (a : Int)).toNat = t.length - 1 - a := by omega
    rw [this, Int.toNat_natCast]
  have hsl : ∀ sl, sl < t.shape.getD a 0 →
      (skShape (ubSK a (t.length - 1 - a) sl) t.shape = [] →
        t.getitem (skRaw (ubSK a (t.length - 1 - a) sl)) = .ok (.inr (t.dense (skSrc (ubSK a (t.length - 1 - a) sl) [])))) ∧
      (skShape (ubSK a (t.length - 1 - a) sl) t.shape ≠ [] → ∃ v : Tensor R,
        t.getitem (skRaw (ubSK a (t.length - 1 - a) sl)) = .ok (.inl v) ∧ v.WF ∧
        v.shape = skShape (ubSK a (t.length - 1 - a) sl) t.shape ∧
        ∀ out, out.length = v.length → v.dense out = t.dense (skSrc (ubSK a (t.length - 1 - a) sl) out)) := by
    intro sl hsl
    apply getitem_simple t ht
    · rw [sqops_skCons_ub]; omega
    · apply sqops_skOK_ub
      intro n hn
      rw [hgetD] at hn
      simp only [Option.some.injEq] at hn
      omega
  have hshape : ∀ sl, skShape (ubSK a (t.length - 1 - a) sl) t.shape = t.shape.take a ++ t.shape.drop (a + 1) :=
    fun sl => sqops_skShape_ub a _ sl t.shape (by rw [shape_length]; omega)
  have hshl : (t.shape.take a ++ t.shape.drop (a + 1)).length = t.length - 1 := by
    simp [List.length_take, List.length_drop, shape_length]; omega
  obtain ⟨ys, y1, y2, y3⟩ := sqops_mapM_ok (fun sl => sqops_wrap (t.getitem (sqops_ubKey t.length (a : Int) sl)))
      (List.range (t.shape.getD a 0)) (by
    intro sl hsl'
    have hlt : sl < t.shape.getD a 0 := List.mem_range.mp hsl'
    obtain ⟨c1, c2⟩ := hsl sl hlt
    rw [hkey]
    by_cases hs : skShape (ubSK a (t.length - 1 - a) sl) t.shape = []
    · rw [c1 hs]; exact ⟨_, rfl⟩
    · obtain ⟨v, e, _⟩ := c2 hs
      rw [e]; exact ⟨_, rfl⟩)
  refine ⟨ys, ?_, by simpa using y2, ?_⟩
  · unfold Tensor.unbind
    simp only [hdd, hget]
    exact y1
  · intro k hk
    obtain ⟨y, hy1, hy2⟩ := y3 k k (List.getElem?_range hk)
    obtain ⟨c1, c2⟩ := hsl k hk
    rw [hkey] at hy2
    constructor
    · intro hN
      have hs : skShape (ubSK a (t.length - 1 - a) k) t.shape = [] := by
        rw [hshape]; apply List.eq_nil_of_length_eq_zero; rw [hshl, hN]
      rw [c1 hs] at hy2
      simp only [sqops_wrap, Except.ok.injEq] at hy2
      rw [hy1, ← hy2]
      have ha0 : a = 0 := by omega
      subst ha0
      rw [sqops_skSrc_ub 0 _ k [] (by simp [hN])]
      simp
    · intro hN
      have hs : skShape (ubSK a (t.length - 1 - a) k) t.shape ≠ [] := by
        rw [hshape]; intro h
        have := congrArg List.length h
        rw [hshl] at this; simp at this; omega
      obtain ⟨v, e, w, sh, dd⟩ := c2 hs
      rw [e] at hy2
      simp only [sqops_wrap, Except.ok.injEq] at hy2
      refine ⟨v, by rw [hy1, ← hy2], w, by rw [sh, hshape], ?_⟩
      intro out ho
      rw [dd out ho, sqops_skSrc_ub a (t.length - 1 - a) k out (by
        rw [ho, ← shape_length, sh, hshape, hshl]; omega)]

/-- `dim ≥ N` makes `tn.unbind` raise an IndexError (`t.shape[dim]`) -/
theorem unbind_index_error (t : Tensor R) (dim : Int) (h : (t.length : Int) ≤ dim) : t.unbind dim = .error .index := by
  have h0 : ¬ dim < 0 := by omega
  unfold Tensor.unbind sqops_pyGet
  simp only [h0, if_false]
  rw [normInt_err dim t.shape.length (Or.inr (by rw [shape_length]; exact h))]

/-! ### the hypotheses are satisfiable -/
section nonvacuous
/-- a 3-mode tensor of shape (1, 2, 1): TT core, CP core with a Tucker factor, TT core -/
def exS : Tensor ℚ :=
  [ { core := .tt 1 1 2 (fun _ _ b => (b : ℚ) + 1), U := Option.none },
    { core := .cp 2 2 (fun j a => (j : ℚ) + 2 * a + 1), U := some { rows := 2, cols := 2, f := fun i j => (i : ℚ) - j + 3 } },
    { core := .tt 2 1 1 (fun a _ _ => (a : ℚ) - 2), U := Option.none } ]
theorem exS_wf : exS.WF := ⟨rfl, trivial, rfl, rfl, rfl, trivial, trivial⟩

example := squeeze_dense exS exS_wf [-1] [2] (by decide) (by decide)
example := squeeze_dense exS exS_wf [0, -1] [0, 2] (by decide) (by decide)
example := squeeze_none_dense exS exS_wf
example := squeeze_assert exS [1] [1] (by decide) (by decide)
example := unsqueeze_dense exS exS_wf [0, -1] [0, 4] (by decide) (by decide)
example := unbind_dense exS exS_wf (-2) (by decide)
example := unsqueeze_dup_error exS [1, -4] [1, 1] (by decide) (by decide)
end nonvacuous

end TN.C03
