import TnVerif.Lemmas.IndexSpec
/-!
# C03 — indexing a compressed tensor equals (natural) NumPy indexing of the dense array

`t[key]` is modelled by `Tensor.getitem` (an output-faithful model of `_process_key` and the
`__getitem__` state machine).  The theorems say: the result, read at an output index `out`, is the
original array read at `srcIdx key out` — integers contribute themselves, a slice `start + j·step`,
`None` nothing, a contiguous run of index arrays the zipped entries, with the run's dimension left
where the run stood.  They hold for every number of modes, size, rank and format mix.
-/
namespace TN.C03
open TN Finset
variable {R : Type} [CommSemiring R]

theorem outRank_getLast (m : TMode R) (ms : Tensor R) (p : Nat) :
    outRank p (Tensor.modes (m :: ms)) = (match (m :: ms).getLast? with | some x => x.core.rr | Option.none => 1) := by
  induction ms generalizing m p with
  | nil => rfl
  | cons x xs ih =>
    have := ih x m.core.rr
    simp only [Tensor.modes, List.map_cons, outRank] at this ⊢
    rw [this]
    simp [List.getLast?_cons_cons]

/-- **tensor-valued result**: every entry of `t[key]` is the entry of `t` at the source index. -/
theorem getitem_tensor (t : Tensor R) (ht : t.WF) (key key1 : List RawItem) (items : List Item)
    (h1 : processKey t.length key = .ok key1) (h2 : normKey key1 t.shape = .ok items)
    (m : TMode R) (l : Tensor R) (hr : t.getitem key = .ok (.inl (m :: l)))
    (out : List Nat) (hf : fits (groupKey items) t.length out.length) :
    Tensor.dense (m :: l) out = t.dense (srcIdx (groupKey items) out) := by
  cases t with
  | nil => exact absurd ht (by simp [Tensor.WF])
  | cons m0 rest =>
    simp only [Tensor.getitem, h1, h2, bind, Except.bind] at hr
    split at hr
    · simp at hr
    · rename_i r hgo
      have ho := outRank_getLast m0 rest m0.core.rl
      obtain ⟨_, i2, i3⟩ := goKey_spec _ (groupKey items) (m0 :: rest) false Option.none m0.core.rl r ht ho
        (by intro q hq; simp at hq) hgo
      obtain ⟨rl, rq⟩ := r
      have hl : rl = m :: l := by
        cases rl with
        | nil => cases rq <;> simp [pure, Except.pure] at hr
        | cons x xs => simpa [pure, Except.pure] using hr
      subst hl
      have hrl := i2 m l rfl
      simp only [rowdim] at hrl i3
      simp only [Tensor.dense, Tensor.modes, List.map_cons, dense, sumTo_eq, TMode.toMode_rl, hrl]
      apply Finset.sum_congr rfl; intro a ha
      have ha' := Finset.mem_range.mp ha
      have hv := i3 out a ha'
      simp only [V, Tensor.modes, List.map_cons] at hv
      rw [hv]
      have hS : ∀ c ∈ range m0.core.rl, pM (R := R) Option.none a c * S (groupKey items) (Tensor.modes (m0 :: rest)) out c =
          if a = c then tail (Tensor.modes (m0 :: rest)) (srcIdx (groupKey items) out) c else 0 := by
        intro c hc
        rw [S_eq_tail _ _ out m0.core.rl c (wf_modes _ _ ht) (by simpa [Tensor.modes] using hf) (Finset.mem_range.mp hc)]
        simp only [pM]; split <;> simp
      simp only [Tensor.modes, List.map_cons] at hS
      rw [Finset.sum_congr rfl hS, Finset.sum_ite_eq, if_pos ha]

/-- **scalar result** (every mode indexed by an integer): the value is the entry of `t`. -/
theorem getitem_scalar (t : Tensor R) (ht : t.WF) (key key1 : List RawItem) (items : List Item)
    (h1 : processKey t.length key = .ok key1) (h2 : normKey key1 t.shape = .ok items)
    (x : R) (hr : t.getitem key = .ok (.inr x)) (hf : fits (groupKey items) t.length 0) :
    x = t.dense (srcIdx (groupKey items) []) := by
  cases t with
  | nil => exact absurd ht (by simp [Tensor.WF])
  | cons m0 rest =>
    simp only [Tensor.getitem, h1, h2, bind, Except.bind] at hr
    split at hr
    · simp at hr
    · rename_i r hgo
      have ho := outRank_getLast m0 rest m0.core.rl
      obtain ⟨i1, _, i3⟩ := goKey_spec _ (groupKey items) (m0 :: rest) false Option.none m0.core.rl r ht ho
        (by intro q hq; simp at hq) hgo
      obtain ⟨rl, rq⟩ := r
      cases rl with
      | cons y ys => simp [pure, Except.pure] at hr
      | nil =>
        cases rq with
        | none => simp [pure, Except.pure] at hr
        | some q =>
          simp only [pure, Except.pure, Except.ok.injEq, Sum.inr.injEq] at hr
          subst hr
          have hq := i1 q rfl
          simp only [rowdim] at hq i3
          have htot : q.total = ∑ a ∈ range q.rl, q.rowsum a := by
            cases q with
            | vec n f =>
              simp only [PInt.total, sumTo_eq, PInt.rl]
              apply Finset.sum_congr rfl; intro a ha
              rw [rowsum_vec n f a (Finset.mem_range.mp ha)]
            | mat r c f => simp [PInt.total, sumTo_eq, PInt.rl, PInt.rowsum, PInt.rr, PInt.M]
          rw [htot, hq]
          simp only [Tensor.dense, Tensor.modes, List.map_cons, dense, sumTo_eq, TMode.toMode_rl]
          apply Finset.sum_congr rfl; intro a ha
          have ha' := Finset.mem_range.mp ha
          have hv := i3 [] a ha'
          simp only [V] at hv
          rw [hv]
          have hS : ∀ c ∈ range m0.core.rl, pM (R := R) Option.none a c * S (groupKey items) (Tensor.modes (m0 :: rest)) [] c =
              if a = c then tail (Tensor.modes (m0 :: rest)) (srcIdx (groupKey items) []) c else 0 := by
            intro c hc
            rw [S_eq_tail _ _ [] m0.core.rl c (wf_modes _ _ ht) (by simpa [Tensor.modes] using hf) (Finset.mem_range.mp hc)]
            simp only [pM]; split <;> simp
          rw [Finset.sum_congr rfl hS, Finset.sum_ite_eq, if_pos ha]
          rfl

/-! ### bounds normalisation is Python's -/

/-- integers: `k` is accepted iff `-n ≤ k < n`, and then means `k mod n` -/
theorem normInt_ok (k : Int) (n : Nat) (h : -(n : Int) ≤ k ∧ k < n) : normInt k n = .ok (k % n).toNat := by
  unfold normInt
  by_cases hk : k < 0
  · have h1 : 0 ≤ k + n ∧ k + n < n := by omega
    simp only [hk, if_true, h1, and_self]
    congr 1
    have : k % (n : Int) = k + n := by
      rw [Int.emod_eq_add_self_emod, Int.emod_eq_of_lt] <;> omega
    rw [this]
  · have h1 : 0 ≤ k ∧ k < n := by omega
    simp only [hk, if_false, h1, and_self, if_true]
    congr 1
    rw [Int.emod_eq_of_lt] <;> omega

/-- out-of-range integers are rejected -/
theorem normInt_err (k : Int) (n : Nat) (h : k < -(n : Int) ∨ (n : Int) ≤ k) : normInt k n = .error .outOfRange := by
  unfold normInt
  by_cases hk : k < 0
  · have : ¬ (0 ≤ k + n ∧ k + n < n) := by omega
    simp only [hk, if_true, this, if_false]
  · have : ¬ (0 ≤ k ∧ k < n) := by omega
    simp only [hk, if_false, this]

/-- a second run of index arrays is rejected (two separate runs are outside the grammar) -/
theorem second_run_error (lastRR : Nat) (p : Option (PInt R)) (ls : List (List Nat)) (ks : List GItem) (ms : Tensor R) :
    ∃ e, goKey lastRR true p (.run ls :: ks) ms = .error e := by
  cases ls with
  | nil => cases ms <;> exact ⟨_, rfl⟩
  | cons l ls =>
    cases ms with
    | nil => exact ⟨_, rfl⟩
    | cons m ms => exact ⟨.runBroken, by simp [goKey]⟩

/-- a non-positive step is rejected -/
theorem bad_step_error (a b : Option Int) (s : Int) (n : Nat) (h : s ≤ 0) : normSlice a b (some s) n = .error .badStep := by
  simp [normSlice, h]

end TN.C03
