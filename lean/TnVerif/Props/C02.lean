import TnVerif.Lemmas.Scalar
import TnVerif.Lemmas.Real
/-!
# C02 — compressed arithmetic equals element-wise arithmetic on the dense arrays

Property theorems only (helper lemmas live in `Lemmas/`).  All statements hold for every number
of modes, every mode size, every rank, every per-mode format mix (TT core / CP factor, with or
without Tucker factor) and every commutative (semi)ring of scalars — in particular for the dual
numbers used by C07.

`modIdx idx shape` reads an operand at the index taken modulo its own shape: for a
broadcast-compatible operand that is NumPy's size-1 broadcasting (`i % 1 = 0`, `i % s = i`).
-/
namespace TN.C02
open TN
variable {R : Type}

section semiring
variable [CommSemiring R]

/-- `a + b` decompresses to the element-wise sum (equal shapes, every index). -/
theorem add_dense (t u : Tensor R) (ht : t.WF) (hu : u.WF) (hs : t.shape = u.shape)
    (idx : List Nat) : (t.add u).dense idx = t.dense idx + u.dense idx := by
  unfold Tensor.add broadcast Tensor.dense
  rw [if_pos hs]
  simp only
  rw [dense_collapseLast, dense_collapseFirst]
  cases t with
  | nil => exact absurd ht (by simp [Tensor.WF])
  | cons x xs =>
    cases u with
    | nil => exact absurd hu (by simp [Tensor.WF])
    | cons y ys =>
      rw [modes_zipWith_addMode _ _ (Tensor.WFfrom_ok _ _ ht)]
      exact dense_add x.toMode (Tensor.modes xs) y.toMode (Tensor.modes ys) idx (wf_modes _ _ ht) (wf_modes _ _ hu)
        (compat_modes _ _ hs)

/-- `a * b` decompresses to the element-wise product (equal shapes, every index). -/
theorem mul_dense (t u : Tensor R) (ht : t.WF) (hu : u.WF) (hs : t.shape = u.shape)
    (idx : List Nat) : (t.mul u).dense idx = t.dense idx * u.dense idx := by
  unfold Tensor.mul broadcast Tensor.dense
  rw [if_pos hs]
  simp only
  cases t with
  | nil => exact absurd ht (by simp [Tensor.WF])
  | cons x xs =>
    cases u with
    | nil => exact absurd hu (by simp [Tensor.WF])
    | cons y ys =>
      rw [modes_zipWith_mulMode _ _ (Tensor.WFfrom_ok _ _ hu)]
      exact dense_mul x.toMode (Tensor.modes xs) y.toMode (Tensor.modes ys) idx (wf_modes _ _ ht) (wf_modes _ _ hu)
        (compat_modes _ _ hs)

/-- the result of `+` is a well-formed tensor of the operands' shape -/
theorem add_wf_shape (t u : Tensor R) (ht : t.WF) (hu : u.WF) (hs : t.shape = u.shape) :
    (t.add u).WF ∧ (t.add u).shape = t.shape := by
  have hlen : t.length = u.length := by simpa [shape_length] using congrArg List.length hs
  unfold Tensor.add broadcast
  rw [if_pos hs]
  simp only
  constructor
  · apply WF_collapseLast; apply WF_collapseFirst
    cases t with
    | nil => exact absurd ht (by simp [Tensor.WF])
    | cons x xs =>
      cases u with
      | nil => simp at hlen
      | cons y ys => exact WF_of_WFfrom _ _ (WFfrom_zipWith_addMode _ _ _ _ ht hu) (by simp)
  · rw [shape_collapseLast, shape_collapseFirst, shape_zipWith_addMode _ _ hlen]

theorem mul_wf_shape (t u : Tensor R) (ht : t.WF) (hu : u.WF) (hs : t.shape = u.shape) :
    (t.mul u).WF ∧ (t.mul u).shape = t.shape := by
  have hlen : t.length = u.length := by simpa [shape_length] using congrArg List.length hs
  unfold Tensor.mul broadcast
  rw [if_pos hs]
  simp only
  constructor
  · cases t with
    | nil => exact absurd ht (by simp [Tensor.WF])
    | cons x xs =>
      cases u with
      | nil => simp at hlen
      | cons y ys => exact WF_of_WFfrom _ _ (WFfrom_zipWith_mulMode _ _ _ _ ht hu) (by simp)
  · cases u with
    | nil => exact absurd hu (by simp [Tensor.WF])
    | cons y ys => exact shape_zipWith_mulMode _ _ hlen (Tensor.WFfrom_ok _ _ hu)

/-- **broadcasting `+`**: for size-1-compatible shapes the result has the broadcast shape and equals
    the element-wise sum with each operand read modulo its own shape (NumPy broadcasting). -/
theorem add_broadcast (t u : Tensor R) (ht : t.WF) (hu : u.WF) (hb : bcOK t.shape u.shape = true) :
    (t.add u).WF ∧ (t.add u).shape = bshape t.shape u.shape ∧
    ∀ idx, inShape idx (bshape t.shape u.shape) →
      (t.add u).dense idx = t.dense (modIdx idx t.shape) + u.dense (modIdx idx u.shape) := by
  obtain ⟨w1, w2, s1, s2, hd⟩ := broadcast_spec t u ht hu hb
  have hs : (broadcast t u).1.shape = (broadcast t u).2.shape := by rw [s1, s2]
  have key : t.add u = (broadcast t u).1.add (broadcast t u).2 := by
    unfold Tensor.add; rw [broadcast_of_eq _ _ hs]
  rw [key]
  refine ⟨(add_wf_shape _ _ w1 w2 hs).1, by rw [(add_wf_shape _ _ w1 w2 hs).2, s1], ?_⟩
  intro idx hi
  rw [add_dense _ _ w1 w2 hs]
  obtain ⟨d1, d2⟩ := hd idx hi
  unfold Tensor.dense; rw [d1, d2]

/-- **broadcasting `*`** -/
theorem mul_broadcast (t u : Tensor R) (ht : t.WF) (hu : u.WF) (hb : bcOK t.shape u.shape = true) :
    (t.mul u).WF ∧ (t.mul u).shape = bshape t.shape u.shape ∧
    ∀ idx, inShape idx (bshape t.shape u.shape) →
      (t.mul u).dense idx = t.dense (modIdx idx t.shape) * u.dense (modIdx idx u.shape) := by
  obtain ⟨w1, w2, s1, s2, hd⟩ := broadcast_spec t u ht hu hb
  have hs : (broadcast t u).1.shape = (broadcast t u).2.shape := by rw [s1, s2]
  have key : t.mul u = (broadcast t u).1.mul (broadcast t u).2 := by
    unfold Tensor.mul; rw [broadcast_of_eq _ _ hs]
  rw [key]
  refine ⟨(mul_wf_shape _ _ w1 w2 hs).1, by rw [(mul_wf_shape _ _ w1 w2 hs).2, s1], ?_⟩
  intro idx hi
  rw [mul_dense _ _ w1 w2 hs]
  obtain ⟨d1, d2⟩ := hd idx hi
  unfold Tensor.dense; rw [d1, d2]

/-- `t * c` for a scalar: with the kernel contract `sgn · ρ^N = c` (ROOTok, §2.4) every entry is
    multiplied by `c`; the format, shape and ranks are unchanged. -/
theorem scalarMul_dense (ρ sgn c : R) (t : Tensor R) (ht : t.WF) (hc : sgn * ρ ^ t.length = c)
    (idx : List Nat) (hi : idx.length = t.length) :
    (t.scalarMul ρ sgn).dense idx = c * t.dense idx := by
  have hne : t ≠ [] := by intro h; subst h; simp [Tensor.WF] at ht
  unfold Tensor.dense; rw [dense_scalarMul ρ sgn t idx hne hi, hc]

theorem scalarMul_wf_shape (ρ sgn : R) (t : Tensor R) (ht : t.WF) :
    (t.scalarMul ρ sgn).WF ∧ (t.scalarMul ρ sgn).shape = t.shape :=
  ⟨WF_scalarMul ρ sgn t ht, shape_scalarMul ρ sgn t⟩

/-- `t + c` for a scalar -/
theorem scalarAdd_dense (c : R) (t : Tensor R) (ht : t.WF) (idx : List Nat) (hi : idx.length = t.length) :
    (t.scalarAdd c).dense idx = t.dense idx + c := by
  have hne : t.shape ≠ [] := by
    intro h; cases t with
    | nil => simp [Tensor.WF] at ht
    | cons _ _ => simp [Tensor.shape] at h
  unfold Tensor.scalarAdd
  rw [add_dense t _ ht (WF_constLike c _ hne) (shape_constLike c _).symm]
  unfold Tensor.dense
  rw [dense_constLike c t.shape idx hne (by rw [hi, shape_length])]

theorem scalarAdd_wf_shape (c : R) (t : Tensor R) (ht : t.WF) :
    (t.scalarAdd c).WF ∧ (t.scalarAdd c).shape = t.shape := by
  have hne : t.shape ≠ [] := by
    intro h; cases t with
    | nil => simp [Tensor.WF] at ht
    | cons _ _ => simp [Tensor.shape] at h
  exact add_wf_shape t _ ht (WF_constLike c _ hne) (shape_constLike c _).symm

end semiring

section ring
variable [CommRing R]

/-- `-t` -/
theorem neg_dense (t : Tensor R) (ht : t.WF) (idx : List Nat) (hi : idx.length = t.length) :
    t.neg.dense idx = - t.dense idx := by
  unfold Tensor.neg
  rw [scalarMul_dense 1 (-1) (-1) t ht (by simp) idx hi]; ring

/-- `a - b` (equal shapes) -/
theorem sub_dense (t u : Tensor R) (ht : t.WF) (hu : u.WF) (hs : t.shape = u.shape)
    (idx : List Nat) (hi : idx.length = t.length) : (t.sub u).dense idx = t.dense idx - u.dense idx := by
  have hlen : t.length = u.length := by simpa [shape_length] using congrArg List.length hs
  unfold Tensor.sub Tensor.neg
  rw [add_dense t _ ht (WF_scalarMul _ _ u hu) (by rw [shape_scalarMul]; exact hs)]
  have := neg_dense u hu idx (by rw [hi, hlen])
  unfold Tensor.neg at this
  rw [this]; ring

end ring

/-- over ℝ the contract is satisfiable by exactly what the code computes:
    `ρ = |c|^(1/N)`, `sgn = sign c` (tensor.py:691-696). -/
theorem scalarMul_real (c : ℝ) (t : Tensor ℝ) (ht : t.WF) (idx : List Nat) (hi : idx.length = t.length) :
    (t.scalarMul ((|c|) ^ ((t.length : ℝ)⁻¹)) (SignType.sign c : ℝ)).dense idx = c * t.dense idx := by
  have hne : t.length ≠ 0 := by
    intro h; cases t with
    | nil => simp [Tensor.WF] at ht
    | cons _ _ => simp at h
  exact scalarMul_dense _ _ c t ht (rootok_real c t.length hne) idx hi

/-! ### any expression tree -/

/-- expression trees over `{+, -, *, unary -, scalar ops}`; scalar multiplication carries its
    kernel answers `ρ, sgn` together with the scalar `c` they stand for -/
inductive Expr (R : Type) where
  | leaf (t : Tensor R)
  | add (a b : Expr R)
  | sub (a b : Expr R)
  | mul (a b : Expr R)
  | neg (a : Expr R)
  | smul (ρ sgn c : R) (a : Expr R)
  | sadd (c : R) (a : Expr R)

section expr
variable [CommRing R]

/-- what the library computes -/
def evalT : Expr R → Tensor R
  | .leaf t => t
  | .add a b => (evalT a).add (evalT b)
  | .sub a b => (evalT a).sub (evalT b)
  | .mul a b => (evalT a).mul (evalT b)
  | .neg a => (evalT a).neg
  | .smul ρ sgn _ a => (evalT a).scalarMul ρ sgn
  | .sadd c a => (evalT a).scalarAdd c

/-- the element-wise meaning on the dense arrays -/
def evalD : Expr R → List Nat → R
  | .leaf t, idx => t.dense idx
  | .add a b, idx => evalD a idx + evalD b idx
  | .sub a b, idx => evalD a idx - evalD b idx
  | .mul a b, idx => evalD a idx * evalD b idx
  | .neg a, idx => - evalD a idx
  | .smul _ _ c a, idx => c * evalD a idx
  | .sadd c a, idx => evalD a idx + c

/-- leaves are well-formed tensors of one common shape; scalar multiplications satisfy ROOTok -/
def wfExpr (s : List Nat) : Expr R → Prop
  | .leaf t => t.WF ∧ t.shape = s
  | .add a b | .sub a b | .mul a b => wfExpr s a ∧ wfExpr s b
  | .neg a | .sadd _ a => wfExpr s a
  | .smul ρ sgn c a => wfExpr s a ∧ sgn * ρ ^ s.length = c

/-- **any nesting**: every expression tree, of any depth, decompresses to its element-wise value. -/
theorem expr_dense (s : List Nat) (e : Expr R) (h : wfExpr s e) :
    (evalT e).WF ∧ (evalT e).shape = s ∧ ∀ idx, idx.length = s.length → (evalT e).dense idx = evalD e idx := by
  induction e with
  | leaf t => exact ⟨h.1, h.2, fun _ _ => rfl⟩
  | add a b iha ihb =>
    obtain ⟨wa, sa, da⟩ := iha h.1
    obtain ⟨wb, sb, db⟩ := ihb h.2
    have hs : (evalT a).shape = (evalT b).shape := by rw [sa, sb]
    refine ⟨(add_wf_shape _ _ wa wb hs).1, by rw [evalT, (add_wf_shape _ _ wa wb hs).2, sa], ?_⟩
    intro idx hi
    simp only [evalT, evalD]; rw [add_dense _ _ wa wb hs, da idx hi, db idx hi]
  | sub a b iha ihb =>
    obtain ⟨wa, sa, da⟩ := iha h.1
    obtain ⟨wb, sb, db⟩ := ihb h.2
    have hs : (evalT a).shape = (evalT b).shape := by rw [sa, sb]
    have hs' : (evalT a).shape = (evalT b).neg.shape := by unfold Tensor.neg; rw [shape_scalarMul]; exact hs
    have wn : (evalT b).neg.WF := WF_scalarMul _ _ _ wb
    have hl : (evalT a).length = s.length := by rw [← shape_length, sa]
    refine ⟨(add_wf_shape _ _ wa wn hs').1, by simp only [evalT, Tensor.sub]; rw [(add_wf_shape _ _ wa wn hs').2, sa], ?_⟩
    intro idx hi
    simp only [evalT, evalD]; rw [sub_dense _ _ wa wb hs idx (by rw [hi, hl]), da idx hi, db idx hi]
  | mul a b iha ihb =>
    obtain ⟨wa, sa, da⟩ := iha h.1
    obtain ⟨wb, sb, db⟩ := ihb h.2
    have hs : (evalT a).shape = (evalT b).shape := by rw [sa, sb]
    refine ⟨(mul_wf_shape _ _ wa wb hs).1, by rw [evalT, (mul_wf_shape _ _ wa wb hs).2, sa], ?_⟩
    intro idx hi
    simp only [evalT, evalD]; rw [mul_dense _ _ wa wb hs, da idx hi, db idx hi]
  | neg a iha =>
    obtain ⟨wa, sa, da⟩ := iha h
    have hl : (evalT a).length = s.length := by rw [← shape_length, sa]
    refine ⟨WF_scalarMul _ _ _ wa, by simp only [evalT, Tensor.neg]; rw [shape_scalarMul, sa], ?_⟩
    intro idx hi
    simp only [evalT, evalD]; rw [neg_dense _ wa idx (by rw [hi, hl]), da idx hi]
  | smul ρ sgn c a iha =>
    obtain ⟨wa, sa, da⟩ := iha h.1
    have hl : (evalT a).length = s.length := by rw [← shape_length, sa]
    refine ⟨WF_scalarMul _ _ _ wa, by simp only [evalT]; rw [shape_scalarMul, sa], ?_⟩
    intro idx hi
    simp only [evalT, evalD]; rw [scalarMul_dense ρ sgn c _ wa (by rw [hl]; exact h.2) idx (by rw [hi, hl]), da idx hi]
  | sadd c a iha =>
    obtain ⟨wa, sa, da⟩ := iha h
    have hl : (evalT a).length = s.length := by rw [← shape_length, sa]
    refine ⟨(scalarAdd_wf_shape c _ wa).1, by simp only [evalT]; rw [(scalarAdd_wf_shape c _ wa).2, sa], ?_⟩
    intro idx hi
    simp only [evalT, evalD]; rw [scalarAdd_dense c _ wa idx (by rw [hi, hl]), da idx hi]

end expr

/-! ### non-vacuity: the hypotheses are met by a concrete mixed-format pair -/
section nonvacuous
/-- a 2-mode tensor: TT core with a (wider-than-tall) Tucker factor, then a CP factor -/
def exT : Tensor Int :=
  [ { core := .tt 1 3 2 (fun _ j b => (j : Int) + b), U := some { rows := 2, cols := 3, f := fun i j => (i : Int) - j } },
    { core := .cp 2 2 (fun j k => (j : Int) * 2 + k), U := none } ]
/-- a 2-mode tensor: CP factor with a factor, then a TT core -/
def exU : Tensor Int :=
  [ { core := .cp 1 2 (fun _ k => (k : Int) + 1), U := some { rows := 2, cols := 1, f := fun i _ => (i : Int) + 1 } },
    { core := .tt 2 2 1 (fun a j _ => (a : Int) - j), U := none } ]

example : exT.WF ∧ exU.WF ∧ exT.shape = exU.shape := by
  refine ⟨?_, ?_, ?_⟩ <;> simp [exT, exU, Tensor.WF, Tensor.WFfrom, TMode.ok, Core.rl, Core.rr, Core.spatial, Tensor.shape, TMode.n]

example : (exT.add exU).dense [1, 1] = exT.dense [1, 1] + exU.dense [1, 1] :=
  add_dense exT exU (by simp [exT, Tensor.WF, Tensor.WFfrom, TMode.ok, Core.rl, Core.rr, Core.spatial])
    (by simp [exU, Tensor.WF, Tensor.WFfrom, TMode.ok, Core.rl, Core.rr, Core.spatial])
    (by simp [exT, exU, Tensor.shape, TMode.n, Core.spatial]) [1, 1]
end nonvacuous

end TN.C02
