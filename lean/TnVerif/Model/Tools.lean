import TnVerif.Model.Tensor
import TnVerif.Model.Arith
import TnVerif.Model.Index
/-
  Array-manipulation routines that act on the spatial index of single modes (tools.py, ops.py,
  metrics.sum/mean): every one of them applies a matrix `L` (rows × n) to the factor if the mode has
  one, else to the core's spatial axis.
-/
namespace TN
variable {R : Type}

section
variable [Zero R] [One R] [Add R] [Mul R]

/-- `einsum('iak,ja->ijk', core, L)` / `einsum('ai,ja->ji', core, L)` -/
def Core.lin (rows : Nat) (L : Nat → Nat → R) : Core R → Core R
  | .tt r0 s r1 f => .tt r0 rows r1 (fun a i b => sumTo s fun j => L i j * f a j b)
  | .cp s r f => .cp rows r (fun i k => sumTo s fun j => L i j * f j k)

/-- `L @ U` -/
def Fac.lmul (rows : Nat) (L : Nat → Nat → R) (U : Fac R) : Fac R :=
  { rows := rows, cols := U.cols, f := fun i c => sumTo U.rows fun j => L i j * U.f j c }

/-- apply `L` along the spatial index of one mode: to the factor if present, else to the core -/
def TMode.spatialLin (rows : Nat) (L : Nat → Nat → R) (m : TMode R) : TMode R :=
  match m.U with
  | some U => { core := m.core, U := some (U.lmul rows L) }
  | Option.none => { core := m.core.lin rows L, U := Option.none }

/-- per-mode optional maps: `none` leaves the mode untouched (it is cloned) -/
def Tensor.linModes : List (Option (Nat × (Nat → Nat → R))) → Tensor R → Tensor R
  | some (rows, L) :: ls, m :: ms => m.spatialLin rows L :: Tensor.linModes ls ms
  | Option.none :: ls, m :: ms => m :: Tensor.linModes ls ms
  | _, ms => ms

/-- `tn.ttm(t, U, dim)` : matrices (given with their row counts) on the listed modes -/
def Tensor.ttm (t : Tensor R) (maps : List (Option (Nat × (Nat → Nat → R)))) : Tensor R := t.linModes maps

/-- `tn.flip` : reversal permutation -/
def flipL (n : Nat) : Nat → Nat → R := fun i j => if j = n - 1 - i then 1 else 0
/-- `torch.cumsum` : lower-triangular ones -/
def cumsumL : Nat → Nat → R := fun i j => if j ≤ i then 1 else 0
/-- `tn.sum` : a row of ones -/
def onesL : Nat → Nat → R := fun _ _ => 1
/-- zero padding to `n'` rows / embedding at an offset (`tn.pad`, `tn.cat`) -/
def embedL (offset n : Nat) : Nat → Nat → R := fun i j => if i = offset + j ∧ j < n then 1 else 0

def Tensor.flip (t : Tensor R) (dims : List Bool) : Tensor R :=
  t.linModes (List.zipWith (fun b m => if b then some (m.n, flipL m.n) else Option.none) dims t)

def Tensor.cumsum (t : Tensor R) (dims : List Bool) : Tensor R :=
  t.linModes (List.zipWith (fun b m => if b then some (m.n, cumsumL) else Option.none) dims t)

/-- `tn.sum(t, dim, keepdim=True)` -/
def Tensor.sumKeep (t : Tensor R) (dims : List Bool) : Tensor R :=
  t.linModes (List.zipWith (fun b (_ : TMode R) => if b then some (1, onesL) else Option.none) dims t)

/-- `tn.pad(t, shape)` with zeros -/
def Tensor.pad0 (t : Tensor R) (newSizes : List (Option Nat)) : Tensor R :=
  t.linModes (List.zipWith (fun s m => s.map fun n' => (n', embedL 0 m.n)) newSizes t)

/-- the key `tn.squeeze(result, dims)` uses: integer 0 at the listed modes, `:` elsewhere -/
def squeezeKey (dims : List Bool) : List RawItem := dims.map fun b => if b then RawItem.int 0 else sliceAll

/-- `tn.sum(t, dim)` without keepdim: sum with keepdim, then index the summed modes at 0 -/
def Tensor.sum (t : Tensor R) (dims : List Bool) : Except IdxErr (Tensor R ⊕ R) :=
  (t.sumKeep dims).getitem (squeezeKey dims)

/-! ### inner products (metrics.dot) -/

/-- one step of the running interface matrix `Lprod` (rows: second operand's bond, columns: first's):
    `L'[c', c] = Σ_i Σ_{b', b} L[b', b] · G'_i[b', c'] · G_i[b, c]` -/
def dotStep (L : Nat → Nat → R) (m m' : Mode R) : Nat → Nat → R :=
  fun c' c => sumTo m.n fun i => sumTo m'.rl fun b' => sumTo m.rl fun b => L b' b * (m'.G i b' c' * m.G i b c)

/-- `tn.dot(t1, t2)` for two tensors of equal shape: left-to-right sweep, then `torch.sum(Lprod)` -/
def dotGo (L : Nat → Nat → R) (rl' rl : Nat) : List (Mode R) → List (Mode R) → R
  | m :: ms, m' :: ms' => dotGo (dotStep L m m') m'.rr m.rr ms ms'
  | _, _ => sumTo rl' fun b' => sumTo rl fun b => L b' b

def Tensor.dot (t u : Tensor R) : R :=
  match t.modes, u.modes with
  | m :: ms, m' :: ms' => dotGo (fun _ _ => 1) m'.rl m.rl (m :: ms) (m' :: ms')
  | _, _ => 1

def Tensor.normsq (t : Tensor R) : R := t.dot t

end
end TN

namespace TN
variable {R : Type}
section
variable [Zero R] [One R] [Add R] [Mul R]
/-- `tn.eye(n, m)` : cores `eye(n,m)[None]` and `eye(m,m)[:, :, None]` (create.py:9-23) -/
def Tensor.eye (n m : Nat) : Tensor R :=
  [ { core := .tt 1 n m (fun _ i b => if i = b then 1 else 0), U := Option.none },
    { core := .tt m m 1 (fun a j _ => if a = j then 1 else 0), U := Option.none } ]

/-- `tn.cat(t, u, dim)` for two operands: both are embedded in zeros along `dim`, then added -/
def Tensor.cat2 (t u : Tensor R) (dim : Nat) : Tensor R :=
  let nt := (t.shape.getD dim 0); let nu := (u.shape.getD dim 0)
  let emb (off : Nat) (x : Tensor R) (n : Nat) : Tensor R :=
    x.linModes ((List.range x.length).map fun k => if k = dim then some (nt + nu, embedL off n) else Option.none)
  (emb 0 t nt).add (emb nt u nu)
end
end TN
