import TnVerif.Model.Arith
/-
  Scalar operations on BATCH tensors: the scalar branches of `Tensor.__add__`, `__radd__`, `__sub__`, `__rsub__`,
  `__neg__`, `__mul__`, `__rmul__`, `__truediv__` when `self.batch` is `True` (tensor.py:445-476, 668-699, 799-805).

  Representation (the one of Props/C18.lean, `C18.BTensor R = List (Tensor R)`): a batch tensor is the list of its
  batch elements.  The stacked core `cores[n]` of the library (shape `[B, r, s, r']`, or `[B, s, R]` for a CP factor;
  factors `Us[n]` of shape `[B, I, s]`) is, slice `b` along its first axis, core `n` of element `b`
  (`to_batch` / `elem_of` of the harness are exactly this stacking / slicing).
-/
namespace TN
variable {R : Type}

section
variable [Zero R] [One R] [Add R] [Mul R]

/-- `self.shape[1:]` of a batch tensor (tensor.py:839-856): the sizes of the non-batch modes, read off the stacked
    factors / cores (`Us[n].shape[-2]`, else `cores[n].shape[-2]`) — one value for the whole batch, here read off the
    first element (`[]` for the empty batch, which the library cannot build: `torch.stack([])` raises). -/
def batchShape (x : List (Tensor R)) : List Nat :=
  match x with
  | [] => []
  | t :: _ => t.shape

/-- `bt * c` / `c * bt` for a scalar `c` and a batch tensor (tensor.py:687-699, 799-801).
    The code is the SAME for batch and non-batch tensors: `result.cores[n] = result.cores[n] * factor` for
    `n in range(self.dim())`, then `result.cores[0] = result.cores[0] * sign`.  For a batch tensor `self.dim()` is still
    `len(self.cores)` (tensor.py:907-914) = the number of NON-batch modes `N`, so `factor = |c|^(1/N)` is the same
    root `ρ` as for one element (argument, contract `sgn * ρ^N = c` as for `Tensor.scalarMul`), and multiplying the
    stacked core `[B, r, s, r']` by a number multiplies every slice `b`, i.e. core `n` of every element; likewise the
    sign reaches core 0 of every element. -/
def smulB (ρ sgn : R) (x : List (Tensor R)) : List (Tensor R) := x.map (Tensor.scalarMul ρ sgn)

/-- the batch constant `other` that `__add__` builds for a scalar operand of a batch tensor (tensor.py:452-463, 476):
    cores `torch.ones([self.shape[0], 1, self.shape[n + 1], 1])` for every non-batch mode `n`, `batch=True`, then
    `other.cores[0] * factor`.  `B = self.shape[0]` is the batch size of `self`; slice `b` of these cores is the
    non-batch constant tensor `Tensor.constLike c shape` (ones cores `[1, s, 1]`, first one times `c`). -/
def constB (c : R) (B : Nat) (shape : List Nat) : List (Tensor R) := List.replicate B (Tensor.constLike c shape)

/-- `bt + c` / `c + bt` for a scalar `c` (tensor.py:449-476, then the batch tensor + batch tensor path 478-666, which is
    `Tensor.add` on every pair of elements — `C18.addB`; `__radd__` 668-672 is `self + other`).  The batch-size
    assertion `self.shape[0] == other.shape[0]` (481-483) holds by construction. -/
def saddB (c : R) (x : List (Tensor R)) : List (Tensor R) :=
  List.zipWith Tensor.add x (constB c x.length (batchShape x))

end

section
variable [Zero R] [One R] [Add R] [Mul R] [Neg R]

/-- `-bt = -1 * bt` (tensor.py:682-683): `np.abs(-1) ** (1/N) = 1`, `np.sign(-1) = -1` -/
def negB (x : List (Tensor R)) : List (Tensor R) := smulB 1 (-1) x

/-- `bt - c = bt + -1 * c` for a scalar `c` (tensor.py:674-676; `-1 * c` is a product of numbers) -/
def ssubB (c : R) (x : List (Tensor R)) : List (Tensor R) := saddB (-1 * c) x

/-- `c - bt = -1 * bt + c` for a scalar `c` (tensor.py:678-680) -/
def rsubB (c : R) (x : List (Tensor R)) : List (Tensor R) := saddB c (smulB 1 (-1) x)

end

end TN
