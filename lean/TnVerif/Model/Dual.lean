/-
  First-order dual numbers `v + ε d` (forward-mode automatic differentiation along one direction):
  the model of what PyTorch's autograd propagates through ring operations (C07).
-/
namespace TN

structure Dual (R : Type) where
  v : R
  d : R
deriving Repr, BEq

namespace Dual
variable {R : Type}
instance [Zero R] : Zero (Dual R) := ⟨⟨0, 0⟩⟩
instance [Zero R] [One R] : One (Dual R) := ⟨⟨1, 0⟩⟩
instance [Add R] : Add (Dual R) := ⟨fun x y => ⟨x.v + y.v, x.d + y.d⟩⟩
instance [Add R] [Mul R] : Mul (Dual R) := ⟨fun x y => ⟨x.v * y.v, x.v * y.d + x.d * y.v⟩⟩
instance [Neg R] : Neg (Dual R) := ⟨fun x => ⟨-x.v, -x.d⟩⟩
instance [Sub R] : Sub (Dual R) := ⟨fun x y => ⟨x.v - y.v, x.d - y.d⟩⟩
/-- quotient rule -/
instance [Add R] [Sub R] [Mul R] [Div R] : Div (Dual R) :=
  ⟨fun x y => ⟨x.v / y.v, (x.d * y.v - x.v * y.d) / (y.v * y.v)⟩⟩
instance [Zero R] : Inhabited (Dual R) := ⟨⟨0, 0⟩⟩

/-- what `x.data *= c` does to autograd's view of `x`: the value is scaled, the tangent is not -/
def dataScale [Mul R] (c : R) (x : Dual R) : Dual R := ⟨c * x.v, x.d⟩
/-- `detach()` -/
def detach [Zero R] (x : Dual R) : Dual R := ⟨x.v, 0⟩
/-- a constant -/
def const [Zero R] (c : R) : Dual R := ⟨c, 0⟩
end Dual
end TN
