/-
  TT matrices (matrix.py): the index interleaving of the constructor and of `torch()`, and the
  precondition of the Kronecker routines.
-/
namespace TN

/-- mode index of the interleaved tensor: `(i_k, j_k) ↦ i_k · o_k + j_k` (`reshape` of `i_0 × j_0 × …`) -/
def pairIdx : List Nat → List Nat → List Nat → List Nat
  | i :: is, j :: js, o :: os => (i * o + j) :: pairIdx is js os
  | _, _, _ => []

/-- its inverse, used by `TTMatrix.torch()` -/
def splitIdx : List Nat → List Nat → List Nat × List Nat
  | p :: ps, o :: os => let (is, js) := splitIdx ps os; ((p / o) :: is, (p % o) :: js)
  | _, _ => ([], [])

/-- `_check_kron_properties`: Kronecker routines accept a matrix iff all TT ranks are 1
    (`_is_kron`) and every block is square (`input_dims == output_dims`) -/
def kronOK (ranks indims outdims : List Nat) : Bool :=
  ranks.all (· == 1) && indims == outdims

end TN
