import TnVerif.Model.Tools
import TnVerif.Model.Automata
/-
  `tn.partialset` (derivatives.py:6-69) and `tn.mask` (tools.py:347-373): all partial derivatives up to
  a maximal order, as forward differences stacked along the spatial axis of every (factor-absorbed)
  core, from which the weight-mask automaton selects the requested total orders.

  Steps enter as reciprocals `c = 1/step`, `step = (bounds[n][1] − bounds[n][0]) / (t.shape[n] − 1)`
  (derivatives.py:46 — a different convention from `partial`).
-/
namespace TN
variable {R : Type}

section
variable [Zero R] [One R] [Add R] [Mul R] [Neg R]

/-- `diff(core, n)` (derivatives.py:39-47) without its guard: `(core[..., 1:, :] − core[..., :-1, :]) / step` -/
def Core.fwdDiff (c : R) : Core R → Core R
  | .tt r0 s r1 f => .tt r0 (s - 1) r1 (fun a j b => (f a (j + 1) b + -(f a j b)) * c)
  | .cp s r f => .cp (s - 1) r (fun j k => (f (j + 1) k + -(f j k)) * c)

/-- `torch.cat((A, B), dim=-2)` for two cores of the same kind and bond sizes -/
def Core.catSpatial : Core R → Core R → Core R
  | .tt r0 s r1 f, .tt _ s' _ g => .tt r0 (s + s') r1 (fun a j b => if j < s then f a j b else g a (j - s) b)
  | .cp s r f, .cp s' _ g => .cp (s + s') r (fun j k => if j < s then f j k else g (j - s) k)
  | x, _ => x

/-- the loop `for o in range(1, max_order + 1): stack.append(diff(stack[-1], n))` followed by
    `torch.cat(stack, dim=-2)` (derivatives.py:58-63), started at the last element `cur` of the stack with
    `k` orders still to go: `cat([cur, diff cur, diff diff cur, …])`.  `diff` raises `ValueError` when the
    core it is given has spatial size 1 (`none`). -/
def stackDiffs (c : R) : Nat → Core R → Option (Core R)
  | 0, cur => some cur
  | k + 1, cur =>
    if cur.spatial == 1 then none
    else (stackDiffs c k (cur.fwdDiff c)).map fun rest => cur.catSpatial rest

/-- the annotation `idx` built alongside (derivatives.py:57-61): `s` zeros, then `s − 1` ones, …,
    `s − k` times `k` — the derivative order every stacked slice belongs to -/
def blockLabels (s : Nat) : Nat → List Nat
  | 0 => List.replicate s 0
  | k + 1 => blockLabels s k ++ List.replicate (s - (k + 1)) (k + 1)

/-- position of the first slice of order `o` in the stack: `Σ_{o' < o} (s − o')` -/
def blockStart (s : Nat) : Nat → Nat
  | 0 => 0
  | o + 1 => blockStart s o + (s - o)

/-- the tensor `d` of `partialset` (derivatives.py:49-64): every mode's factor is absorbed into its core
    (`einsum('ijk,aj->iak')`), the forward differences up to order `k` are stacked; no factors remain.
    `cs[n]` is the reciprocal step of mode `n` (a too short list is an `IndexError`: `none`). -/
def Tensor.partialStack : Tensor R → List R → Nat → Option (Tensor R)
  | [], _, _ => some []
  | m :: ms, c :: cs, k =>
    match stackDiffs c k m.decomp, Tensor.partialStack ms cs k with
    | some st, some rest => some ({ core := st, U := Option.none } :: rest)
    | _, _ => none
  | _ :: _, [], _ => none

/-- `tn.mask(t, mask)` (tools.py:347-373).  `idxs` is the annotation `t.idxs` (for a tensor without the
    attribute: `arange(shape[n])` per mode); the labels are clamped to the mask's size, the mask's slices
    (rows of its factor if it has one, else of its core) are gathered by label, and the result is `t * mask`. -/
def Tensor.maskWith (t : Tensor R) (idxs : List (List Nat)) (mask : Tensor R) : Tensor R :=
  t.mul (mask.linModes (List.zipWith
    (fun lab (m : TMode R) => some (lab.length, sel fun i => min (lab.getD i 0) (m.n - 1))) idxs mask))

/-- `tn.partialset(t, order, mask, bounds)` (derivatives.py:6-69) for a list `order` of requested total
    orders (`max_order = max(order)`; `max([])` raises: `none`), reciprocal steps `cs`, and an optional
    user mask over the symbols `0 … max_order` per mode. -/
def Tensor.partialset (t : Tensor R) (order : List Nat) (cs : List R) (umask : Option (Tensor R)) :
    Option (Tensor R) :=
  if order.isEmpty then none else
  let k := order.foldl max 0
  match t.partialStack cs k with
  | Option.none => Option.none
  | some d =>
    let idxs := t.shape.map fun s => blockLabels s k
    let wm : Tensor R := weightMask order (k + 1) (List.replicate t.length (k + 1))
    let wm' := match umask with
      | Option.none => wm
      | some u => wm.maskWith (wm.shape.map List.range) u
    some (d.maskWith idxs wm')

end
end TN
