import TnVerif.Model.Basic
/-
  Code-level data model (DESIGN §2.2): the same data the Python class holds.
  `Tensor.cores[n]` is a 3-D TT core or a 2-D CP factor; `Tensor.Us[n]` is `None` or an
  `I × S` Tucker factor.
-/
namespace TN
variable {R : Type}

inductive Core (R : Type) where
  | tt (r0 s r1 : Nat) (f : Nat → Nat → Nat → R)   -- f a j b   (shape r0 × s × r1)
  | cp (s r : Nat) (f : Nat → Nat → R)             -- f j k     (shape s × r)

structure Fac (R : Type) where
  rows : Nat
  cols : Nat
  f : Nat → Nat → R                                 -- f i j     (shape I × S)

structure TMode (R : Type) where
  core : Core R
  U : Option (Fac R)

abbrev Tensor (R : Type) := List (TMode R)

namespace Core
def isCP : Core R → Bool
  | tt .. => false
  | cp .. => true
/-- `core.shape[-2]` : the size of the core's own spatial axis (its Tucker rank) -/
def spatial : Core R → Nat
  | tt _ s _ _ => s
  | cp s _ _ => s
/-- left bond size (`ranks_tt` entry to the left) -/
def rl : Core R → Nat
  | tt r0 _ _ _ => r0
  | cp _ r _ => r
/-- right bond size (`core.shape[-1]`) -/
def rr : Core R → Nat
  | tt _ _ r1 _ => r1
  | cp _ r _ => r
section
variable [Zero R]
/-- entry of the core viewed as a TT core: a CP factor is the diagonal core of `_cp_to_tt` -/
def get : Core R → Nat → Nat → Nat → R
  | tt _ _ _ f, a, j, b => f a j b
  | cp _ _ f, a, j, b => if a = b then f j a else 0
/-- `Tensor._cp_to_tt(factor)` (tensor.py:1741-1765) -/
def toTT : Core R → Core R
  | tt r0 s r1 f => tt r0 s r1 f
  | cp s r f => tt r s r (fun a j b => if a = b then f j a else 0)
/-- `core[None]` for a CP factor (used by `+`/`*` when both operands are CP) -/
def lift1 : Core R → Core R
  | tt r0 s r1 f => tt r0 s r1 f
  | cp s r f => tt 1 s r (fun _ j b => f j b)
end
end Core

section
variable [Zero R] [Add R] [Mul R]
/-- `einsum('ijk,aj->iak', core, U)` / `einsum('jk,aj->ak', core, U)` : absorb a factor -/
def Fac.apply (U : Fac R) : Core R → Core R
  | .tt r0 s r1 f => .tt r0 U.rows r1 (fun a i b => sumTo s fun j => U.f i j * f a j b)
  | .cp s r f => .cp U.rows r (fun i k => sumTo s fun j => U.f i j * f j k)

/-- the core with its Tucker factor absorbed (what `decompress_tucker_factors` yields) -/
def TMode.decomp (m : TMode R) : Core R :=
  match m.U with
  | none => m.core
  | some U => U.apply m.core

/-- reported mode size: `U.shape[-2]` if a factor is present, else `core.shape[-2]` -/
def TMode.n (m : TMode R) : Nat :=
  match m.U with
  | none => m.core.spatial
  | some U => U.rows

/-- the semantic mode of §2.1 -/
def TMode.toMode (m : TMode R) : Mode R :=
  { rl := m.core.rl, rr := m.core.rr, n := m.n, G := fun i a b => m.decomp.get a i b }

def Tensor.modes (t : Tensor R) : List (Mode R) := t.map TMode.toMode
end

/-- `Tensor.shape` -/
def Tensor.shape (t : Tensor R) : List Nat := t.map TMode.n
/-- `Tensor.ranks_tucker` -/
def Tensor.ranksTucker (t : Tensor R) : List Nat := t.map (·.core.spatial)
/-- `Tensor.ranks_tt` : `[first] ++ [c.shape[-1] for c in cores]` -/
def Tensor.ranksTT (t : Tensor R) : List Nat :=
  match t with
  | [] => []
  | m :: _ => m.core.rl :: t.map (·.core.rr)

/-- what `Tensor.__init__` checks: bonds match and factor columns equal the core's spatial size -/
def TMode.ok (m : TMode R) : Prop :=
  match m.U with
  | none => True
  | some U => U.cols = m.core.spatial

def Tensor.WFfrom (p : Nat) : Tensor R → Prop
  | [] => True
  | m :: ms => m.core.rl = p ∧ m.ok ∧ Tensor.WFfrom m.core.rr ms

def Tensor.WF (t : Tensor R) : Prop :=
  match t with
  | [] => False
  | m :: _ => Tensor.WFfrom m.core.rl t

section
variable [Zero R] [One R] [Add R] [Mul R]
/-- the array the tensor decompresses to (`Tensor.torch()`) -/
def Tensor.dense (t : Tensor R) (idx : List Nat) : R := TN.dense t.modes idx
end

end TN
