import TnVerif.Model.Tensor
import TnVerif.Model.Format
import TnVerif.Model.TTMatrix
/-
  TT matrices and CP matrices as data (matrix.py): the 4-way cores of `TTMatrix`, the 3-way cores of
  `CPMatrix`, their decompression (`flatten()` / `torch()`), and the contraction routines
  `TTMatrix.trace`, `tt_multiply`, `cp_multiply` — step by step as the Python code performs them,
  on FLAT row-major arrays (`FlatArr R` plus the element count), so that every `reshape` of the code is the identity
  on the data and every `einsum` decodes / encodes flat positions explicitly.
-/
namespace TN
variable {R : Type}

/-- a flat row-major array held as data (`arr`, the first `n` entries) together with the function it
    tabulates (`ext`, consulted only outside the stored range).  `FlatArr.tab n f` reads back as `f`
    (`Lemmas/TTMatMul.FlatArr.get_tab`); it is used for the intermediate `result` / `factor` tensors of the
    sweeps, so that executing the model costs what the Python loop costs (no nested closures). -/
structure FlatArr (R : Type) where
  arr : Array R
  ext : Nat → R

def FlatArr.get (t : FlatArr R) (p : Nat) : R := if h : p < t.arr.size then t.arr[p] else t.ext p

def FlatArr.tab (n : Nat) (f : Nat → R) : FlatArr R := ⟨Array.ofFn (n := n) fun k => f k.val, f⟩

/-- multi-index of a flat row-major position inside a shape (inverse of `flat`): how `reshape` from a flat
    axis to `shape` distributes positions -/
def unflat : List Nat → Nat → List Nat
  | [], _ => []
  | _ :: ss, p => (p / ss.prod) :: unflat ss (p % ss.prod)

/-! ### TT matrices -/

/-- one core of a `TTMatrix` (matrix.py:100-111): `cores[k]` of shape `(r_k, i_k, o_k, r_{k+1})`, entry `f a i j b` -/
structure Core4 (R : Type) where
  rl : Nat
  inD : Nat
  outD : Nat
  rr : Nat
  f : Nat → Nat → Nat → Nat → R

/-- the non-batch `TTMatrix` (matrix.py:12-111): its list of cores -/
abbrev TTMat (R : Type) := List (Core4 R)

/-- `input_dims` (read off the cores) -/
def TTMat.inDims (m : TTMat R) : List Nat := m.map (·.inD)
/-- `output_dims` (read off the cores) -/
def TTMat.outDims (m : TTMat R) : List Nat := m.map (·.outD)

/-- `c.reshape(c.shape[0], -1, c.shape[-1])` (matrix.py:129, 197): the core with its two spatial axes
    merged row-major, position `p = i * o_k + j` -/
def Core4.flat (c : Core4 R) : TMode R :=
  { core := .tt c.rl (c.inD * c.outD) c.rr (fun a p b => c.f a (p / c.outD) (p % c.outD) b), U := none }

/-- `TTMatrix.flatten()` (matrix.py:178-201) -/
def TTMat.flatten (m : TTMat R) : Tensor R := m.map Core4.flat

/-- what the constructor / the list-of-cores path guarantee: consecutive ranks match, the boundary
    ranks are 1 (`ranks` has `d - 1` entries), there is at least one core (`assert len(input_dims) > 0`) -/
def TTMat.chain (p : Nat) : TTMat R → Prop
  | [] => p = 1
  | c :: cs => c.rl = p ∧ TTMat.chain c.rr cs

def TTMat.WF (m : TTMat R) : Prop := m ≠ [] ∧ TTMat.chain 1 m

section
variable [Zero R] [One R] [Add R] [Mul R]

/-- entry of `TTMatrix.torch()` (matrix.py:113-151) at row multi-index `is` and column multi-index `js`:
    decompress the flattened cores as a tensor, `reshape` to `i_0 × o_0 × i_1 × o_1 …`, permute rows first.
    The final `reshape(rows, cols)` puts it at row `flat is inDims`, column `flat js outDims`. -/
def TTMat.entry (m : TTMat R) (is js : List Nat) : R :=
  m.flatten.dense (pairIdx is js m.outDims)

/-- the dense matrix `TTMatrix.torch()` returns (matrix.py:150-151 `tensor.reshape(rows, cols)`): entry at flat
    row `p` and flat column `q` (the multi-indices are the row-major digits of `p`, `q`) -/
def TTMat.torch (m : TTMat R) (p q : Nat) : R :=
  m.entry (unflat m.inDims p) (unflat m.outDims q)

/-- one pass of the loop of `TTMatrix.trace` (matrix.py:174-175):
    `factor = einsum('i,iaaj->j', factor, c)` -/
def Core4.traceStep (c : Core4 R) (φ : FlatArr R) : FlatArr R :=
  .tab c.rr fun j => sumTo c.rl fun i => sumTo c.inD fun a => φ.get i * c.f i a a j

/-- `TTMatrix.trace()` (matrix.py:160-176), non-batch: start from `ones(1)`, sweep, return `factor[0]` -/
def TTMat.trace (m : TTMat R) : R :=
  (m.foldl (fun φ c => c.traceStep φ) (FlatArr.tab 1 fun _ => 1)).get 0

/-- `tensor.reshape(b, -1).T` (matrix.py:442-443) read as a flat row-major array of shape `rows × b` -/
def transposeFlat (nb rows : Nat) (x : Nat → R) : FlatArr R :=
  .tab (rows * nb) fun p => x ((p % nb) * rows + p / nb)

/-- first contraction of `tt_multiply` (matrix.py:444-445):
    `result = tensor.reshape(input_dims[0], -1)`; `einsum("id,lior->ldor", result, cores[0])`.
    `size` is the number of elements of `result`; the `-1` becomes `D = size / i_0`.
    The output has shape `(l, D, o_0, r_1)`, flat. -/
def Core4.mulFirst (c : Core4 R) (size : Nat) (res : FlatArr R) : Nat × FlatArr R :=
  let D := size / c.inD
  (c.rl * D * c.outD * c.rr,
   .tab (c.rl * D * c.outD * c.rr) fun p =>
    let b := p % c.rr
    let o := p / c.rr % c.outD
    let d := p / c.rr / c.outD % D
    let l := p / c.rr / c.outD / D
    sumTo c.inD fun i => res.get (i * D + d) * c.f l i o b)

/-- one pass of the loop of `tt_multiply` (matrix.py:447-451):
    `result = result.reshape(input_dims[d], -1, cores[d].shape[0])`;
    `einsum("idr,riob->dob", result, cores[d])`.  The `-1` becomes `D = size / (i_d * r_d)`; the output has
    shape `(D, o_d, r_{d+1})`, flat. -/
def Core4.mulStep (c : Core4 R) (s : Nat × FlatArr R) : Nat × FlatArr R :=
  let D := s.1 / (c.inD * c.rl)
  (D * c.outD * c.rr,
   .tab (D * c.outD * c.rr) fun p =>
    let b := p % c.rr
    let o := p / c.rr % c.outD
    let d := p / c.rr / c.outD
    sumTo c.inD fun i => sumTo c.rl fun a => s.2.get ((i * D + d) * c.rl + a) * c.f a i o b)

/-- `tt_multiply(tt_matrix, tensor)` (matrix.py:430-453) for a batch of `nb` vectors given as the flat
    row-major array `x` of shape `nb × rows`; the answer is the flat row-major array of shape `nb × cols`
    (the final `reshape(b, -1)` is the identity on flat data).  The empty list of cores is excluded by
    the constructor's `assert len(input_dims) > 0`; the model returns `x` unchanged there. -/
def TTMat.multiply (m : TTMat R) (nb : Nat) (x : Nat → R) : Nat → R :=
  match m with
  | [] => x
  | c :: cs =>
    let rows := TTMat.inDims (c :: cs) |>.prod
    (cs.foldl (fun s c => c.mulStep s) (c.mulFirst (rows * nb) (transposeFlat nb rows x))).2.get

end

/-! ### determinant of a Kronecker-product TT matrix -/

/-- `x ** n` for a natural exponent -/
def powNat [One R] [Mul R] (x : R) : Nat → R
  | 0 => 1
  | n + 1 => powNat x n * x

/-- the loop of `TTMatrix.determinant` (matrix.py:242-254) after `_check_kron_properties`, given for every
    block its size `input_dims[k]` and its determinant `torch.linalg.det(cores[k][0, :, :, 0])` (a LAPACK
    answer): `rows = prod(input_dims)`; `det *= core_det ** (rows / input_dims[k])` -/
def kronDet [One R] [Mul R] (blocks : List (Nat × R)) : R :=
  let rows := (blocks.map (·.1)).prod
  blocks.foldl (fun det b => det * powNat b.2 (rows / b.1)) 1

/-! ### CP matrices -/

/-- one core of a `CPMatrix` (matrix.py:394-397): shape `(i_k, o_k, R)`, entry `f i j r` -/
structure Core3 (R : Type) where
  inD : Nat
  outD : Nat
  rank : Nat
  f : Nat → Nat → Nat → R

/-- `CPMatrix` (matrix.py:350-397): its list of cores -/
abbrev CPMat (R : Type) := List (Core3 R)

def CPMat.inDims (m : CPMat R) : List Nat := m.map (·.inD)
def CPMat.outDims (m : CPMat R) : List Nat := m.map (·.outD)

/-- `core.reshape(-1, core.shape[-1])` (matrix.py:406): the CP factor with the two spatial axes merged -/
def Core3.flat (c : Core3 R) : TMode R :=
  { core := .cp (c.inD * c.outD) c.rank (fun p k => c.f (p / c.outD) (p % c.outD) k), U := none }

/-- `tn.Tensor(cores)` of `CPMatrix.torch()` (matrix.py:406-407) -/
def CPMat.flatten (m : CPMat R) : Tensor R := m.map Core3.flat

/-- all cores share the rank `rk` (the constructor builds them from one CP decomposition) -/
def CPMat.WF (rk : Nat) (m : CPMat R) : Prop := m ≠ [] ∧ ∀ c ∈ m, c.rank = rk

section
variable [Zero R] [One R] [Add R] [Mul R]

/-- entry of `CPMatrix.torch()` (matrix.py:399-420) at row multi-index `is`, column multi-index `js` -/
def CPMat.entry (m : CPMat R) (is js : List Nat) : R :=
  m.flatten.dense (pairIdx is js m.outDims)

/-- the dense matrix `CPMatrix.torch()` returns (matrix.py:420 `tensor.reshape(input_size, output_size)`) -/
def CPMat.torch (m : CPMat R) (p q : Nat) : R :=
  m.entry (unflat m.inDims p) (unflat m.outDims q)

/-- first contraction of `cp_multiply` (matrix.py:468-469):
    `result = tensor.reshape(input_dims[0], -1)`; `einsum("ij,ior->jor", result, cores[0])`;
    output shape `(D, o_0, R)`, flat -/
def Core3.mulFirst (c : Core3 R) (size : Nat) (res : FlatArr R) : Nat × FlatArr R :=
  let D := size / c.inD
  (D * c.outD * c.rank,
   .tab (D * c.outD * c.rank) fun p =>
    let r := p % c.rank
    let o := p / c.rank % c.outD
    let d := p / c.rank / c.outD
    sumTo c.inD fun i => res.get (i * D + d) * c.f i o r)

/-- one pass of the loop of `cp_multiply` (matrix.py:471-475):
    `result = result.reshape(input_dims[d], -1, cores[d].shape[-1])`;
    `einsum("ior,idr->dor", cores[d], result)`; output shape `(D, o_d, R)`, flat -/
def Core3.mulStep (c : Core3 R) (s : Nat × FlatArr R) : Nat × FlatArr R :=
  let D := s.1 / (c.inD * c.rank)
  (D * c.outD * c.rank,
   .tab (D * c.outD * c.rank) fun p =>
    let r := p % c.rank
    let o := p / c.rank % c.outD
    let d := p / c.rank / c.outD
    sumTo c.inD fun i => c.f i o r * s.2.get ((i * D + d) * c.rank + r))

/-- `cp_multiply(cp_matrix, tensor)` (matrix.py:456-478): the sweep, then `result.sum(-1)` over the last
    axis (whose size is the last core's rank), then `reshape(b, -1)` (identity on flat data) -/
def CPMat.multiply (m : CPMat R) (nb : Nat) (x : Nat → R) : Nat → R :=
  match m with
  | [] => x
  | c :: cs =>
    let rows := CPMat.inDims (c :: cs) |>.prod
    let s := cs.foldl (fun s c => c.mulStep s) (c.mulFirst (rows * nb) (transposeFlat nb rows x))
    let rk := ((cs.getLast?).getD c).rank
    fun p => sumTo rk fun r => s.2.get (p * rk + r)

end
end TN
