import TnVerif.Model.Deriv
import TnVerif.Model.Arith
/-
  Differential operators built on `tn.partial` (derivatives.py): `partial` with a LIST of modes,
  `gradient`, `divergence`, `curl`, `laplacian`, and the step-by-step version of the non-periodic
  stencil (pad, extrapolate, central difference) that `partial` performs on a core / factor.

  As in `Model/Deriv.lean` every step enters as its reciprocal `c = 1/step`
  (`step = (bounds[i][1] − bounds[i][0]) / (t.shape[d] + 1) · 2`, derivatives.py:96).
-/
namespace TN
variable {R : Type}

section
variable [Zero R] [One R] [Add R] [Mul R] [Neg R]

/-! ### the stencil as the code computes it (derivatives.py:97-130) -/

/-- non-periodic branch of `partial` on one fibre `x` (of size `n`) of the core / factor
    (derivatives.py:110-130), step by step:
    * `p0 = x[[0] + list(range(n)) + [n − 1]]` (size `n + 2`),
    * `p0[0] -= p0[2] − p0[1]`,
    * `p1[-1] += p1[-2] − p1[-3]`  (indices `n + 1`, `n`, `n − 1`; computed AFTER the first update),
    * result `(p2[2:] − p2[:-2]) / step`, entry `i` is `(p2[i + 2] − p2[i]) · c`. -/
def stencilStepsNP (n : Nat) (c : R) (x : Nat → R) : Nat → R :=
  let p0 : Nat → R := fun k => x (min (k - 1) (n - 1))
  let p1 : Nat → R := fun k => if k = 0 then p0 0 + -(p0 2 + -(p0 1)) else p0 k
  let p2 : Nat → R := fun k => if k = n + 1 then p1 (n + 1) + (p1 n + -(p1 (n - 1))) else p1 k
  fun i => (p2 (i + 2) + -(p2 i)) * c

/-- the index list `list(range(1, n)) + [0]` of the periodic branch (derivatives.py:101, 106) -/
def rollFwd (n : Nat) : List Nat := List.range' 1 (n - 1) ++ [0]
/-- the index list `[-1] + list(range(0, n − 1))` of the periodic branch (derivatives.py:102, 107);
    the negative index `-1` is the last position `n − 1` -/
def rollBwd (n : Nat) : List Nat := (n - 1) :: List.range (n - 1)

/-- periodic branch of `partial` on one fibre (derivatives.py:98-108):
    `(x[rollFwd] − x[rollBwd]) / step` -/
def stencilStepsPer (n : Nat) (c : R) (x : Nat → R) : Nat → R :=
  fun i => (x ((rollFwd n).getD i 0) + -(x ((rollBwd n).getD i 0))) * c

/-! ### `partial` with a list of modes (derivatives.py:72-130) -/

/-- `tn.partial(t, dim=[d_0, d_1, …], order=k, bounds=[…], periodic=[…])`: the loop
    `for i, d in enumerate(dim)` (derivatives.py:95-130) applies, to the running clone `t2`, the order-`k`
    derivative along `d_i` with that entry's own step (`c_i = 1/step_i`) and periodic flag. -/
def Tensor.partialList (t : Tensor R) (order : Nat) (specs : List (Nat × R × Bool)) : Tensor R :=
  specs.foldl (fun t2 s => t2.partialN s.1 s.2.1 s.2.2 order) t

/-! ### Python's builtin `sum` over a list of tensors -/

/-- `sum(ps)` for a Python list of tensors: `((0 + ps[0]) + ps[1]) + …`.  The first step `0 + ps[0]`
    is `ps[0].__radd__(0) = ps[0] + 0` (tensor.py:668-672), i.e. the scalar branch of `__add__`
    (a rank-1 constant tensor is appended); the later steps are tensor additions.
    On the empty list Python returns the integer `0`, which is not a tensor (`none`). -/
def pySum : List (Tensor R) → Option (Tensor R)
  | [] => none
  | p :: ps => some (ps.foldl Tensor.add (p.scalarAdd 0))

/-! ### gradient, divergence, curl, laplacian -/

/-- `tn.gradient(t, dim=[d_0, …], bounds=[…])` (derivatives.py:133-157):
    `[tn.partial(t, d, order=1, bounds=b) for d, b in zip(dim, bounds)]`, non-periodic -/
def Tensor.gradient (t : Tensor R) (specs : List (Nat × R)) : List (Tensor R) :=
  specs.map fun s => t.partialList 1 [(s.1, s.2, false)]

/-- `[tn.partial(ts[n], n, order=1, bounds=bounds[n]) for n in range(len(ts))]` (derivatives.py:256-258),
    `n` counting from `off` -/
def divTerms : Nat → List (Tensor R) → List R → List (Tensor R)
  | n, t :: ts, c :: cs => t.partialList 1 [(n, c, false)] :: divTerms (n + 1) ts cs
  | _, _, _ => []

/-- `tn.divergence(ts, bounds)` (derivatives.py:238-258).  The three `assert`s are modelled:
    `ts[0].dim() == len(ts)`, all shapes equal, `len(bounds) == len(ts)`; a violated assertion (or the
    empty list, for which `ts[0]` raises) gives `none`. -/
def divergence (ts : List (Tensor R)) (cs : List R) : Option (Tensor R) :=
  match ts with
  | [] => none
  | t0 :: _ =>
    if t0.length == ts.length && ts.all (fun t => t.shape == t0.shape) && cs.length == ts.length then
      pySum (divTerms 0 ts cs)
    else none

/-- `tn.curl(ts, bounds)` (derivatives.py:261-282) for three 3-mode tensors:
    `[∂_1 ts[2] − ∂_2 ts[1], ∂_2 ts[0] − ∂_0 ts[2], ∂_0 ts[1] − ∂_1 ts[0]]`; `a − b` is `a + (-1)·b`.
    (`assert len(ts) == 3`, `assert len(bounds) == 3`; the first `assert [..]` of the code asserts a
    non-empty list and therefore never fails.) -/
def curl (ts : List (Tensor R)) (cs : List R) : Option (List (Tensor R)) :=
  match ts, cs with
  | [t0, t1, t2], [c0, c1, c2] =>
    some [ (t2.partialList 1 [(1, c1, false)]).sub (t1.partialList 1 [(2, c2, false)]),
           (t0.partialList 1 [(2, c2, false)]).sub (t2.partialList 1 [(0, c0, false)]),
           (t1.partialList 1 [(0, c0, false)]).sub (t0.partialList 1 [(1, c1, false)]) ]
  | _, _ => none

/-- `[tn.partial(t, n, order=2, bounds=bounds[n]) for n in range(t.dim())]` (derivatives.py:302),
    `n` counting from `off` -/
def lapTerms (t : Tensor R) : Nat → List R → List (Tensor R)
  | n, c :: cs => t.partialList 2 [(n, c, false)] :: lapTerms t (n + 1) cs
  | _, [] => []

/-- `tn.laplacian(t, bounds)` (derivatives.py:285-302): Python `sum` of the second-order partials over
    all modes; `assert len(bounds) == t.dim()` is modelled (`none` when violated, or when there is no
    mode at all). -/
def Tensor.laplacian (t : Tensor R) (cs : List R) : Option (Tensor R) :=
  if cs.length == t.length then pySum (lapTerms t 0 cs) else none

end
end TN
