import TnVerif.Model.Basic
import TnVerif.Model.Eval
import TnVerif.Model.Format
/-
  Einsum semantics (C18).  Every contraction of /repo/tntorch is a call `torch.einsum(eq, operands)` with a
  literal equation string `eq`; the batched code paths use a *second* literal next to the plain one, e.g.

      tensor.py:485-492   idxs = "bijk,baj->biak"   (self.batch)      idxs = "ijk,aj->iak"   (else)

  This file gives the meaning of such a string (what `torch.einsum` computes: the Einstein summation
  convention, torch/functional.py `einsum`, ATen/native/Linear.cpp `einsum`), the operation "prepend a batch
  letter to every operand and to the output", its inverse, and the alpha-normalisation that
  `/verif/harness/extract.py:19-29` (`alpha`) applies before writing the strings to `TnVerif/Generated.lean`.
  Core Lean only; everything is a total function by structural recursion, sums are `sumTo`.
-/
namespace TN.Einsum
variable {R : Type}

/-- an einsum equation: one list of index letters per operand, and the output index letters -/
structure Spec where
  ins : List (List Char)
  out : List Char
deriving DecidableEq, Repr

/-! ## parsing of the equation string -/

/-- split at every `','` (the operand separator of the equation string) -/
def splitComma : List Char → List (List Char)
  | [] => [[]]
  | c :: cs =>
    if c = ',' then [] :: splitComma cs
    else match splitComma cs with
      | [] => [[c]]
      | w :: ws => (c :: w) :: ws

/-- split at the first `"->"`; `none` when the equation has no explicit output -/
def splitArrow : List Char → List Char × Option (List Char)
  | [] => ([], none)
  | c :: cs =>
    if c = '-' ∧ cs.head? = some '>' then ([], some cs.tail)
    else let r := splitArrow cs; (c :: r.1, r.2)

/-- the distinct letters of a list, in order of first appearance -/
def dedup : List Char → List Char
  | [] => []
  | c :: cs => c :: (dedup cs).filter (fun x => decide (x ≠ c))

def insertSorted (c : Char) : List Char → List Char
  | [] => [c]
  | x :: xs => if c.toNat ≤ x.toNat then c :: x :: xs else x :: insertSorted c xs

/-- output of an equation WITHOUT `->` (implicit mode, used at tensor.py:2189-2191 `"ijk,kl"`): the letters that
    occur exactly once in the operands, in alphabetical order -/
def implicitOut (ins : List (List Char)) : List Char :=
  let all := ins.flatten
  ((dedup all).filter (fun c => all.count c = 1)).foldr insertSorted []

/-- `"bijk,baj->biak"` ↦ `⟨[[b,i,j,k],[b,a,j]], [b,i,a,k]⟩` -/
def parse (s : String) : Spec :=
  let r := splitArrow s.toList
  let ins := splitComma r.1
  { ins := ins, out := match r.2 with | some o => o | none => implicitOut ins }

def nodupB : List Char → Bool
  | [] => true
  | c :: cs => !cs.contains c && nodupB cs

/-- `[A-Za-z]` (the index letters `torch.einsum` accepts) -/
def isLetter (c : Char) : Bool :=
  (Nat.ble 65 c.toNat && Nat.ble c.toNat 90) || (Nat.ble 97 c.toNat && Nat.ble c.toNat 122)

/-- the equations `torch.einsum` accepts (it raises otherwise): only letters, every output letter occurs in some
    operand, and no output letter is repeated -/
def Spec.wf (s : Spec) : Bool :=
  s.ins.all (fun l => l.all isLetter) && s.out.all (fun c => s.ins.flatten.contains c) && nodupB s.out

/-! ## evaluation -/

/-- all letters, in order of first appearance (operands left to right, then output) -/
def Spec.letters (s : Spec) : List Char := dedup (s.ins.flatten ++ s.out)

/-- the contracted (summed) letters: those of the operands that are not in the output, in order of first appearance -/
def Spec.contracted (s : Spec) : List Char := dedup (s.ins.flatten.filter (fun c => !s.out.contains c))

/-- assignment update -/
def upd (env : Char → Nat) (c : Char) (i : Nat) : Char → Nat := fun x => if x = c then i else env x

/-- bind the output letters to the requested output index -/
def bindOut : List Char → List Nat → (Char → Nat) → (Char → Nat)
  | c :: cs, i :: is, env => bindOut cs is (upd env c i)
  | _, _, env => env

section
variable [Zero R] [Add R]
/-- `Σ` over all assignments of the given letters inside `dims` -/
def sumOver (dims : Char → Nat) : List Char → (Char → Nat) → ((Char → Nat) → R) → R
  | [], env, f => f env
  | c :: cs, env, f => sumTo (dims c) (fun i => sumOver dims cs (upd env c i) f)
end

section
variable [One R] [Mul R]
/-- `Π_k ops[k][indices of operand k under the assignment]` -/
def prodOps : List (List Char) → List (List Nat → R) → (Char → Nat) → R
  | l :: ls, A :: As, env => A (l.map env) * prodOps ls As env
  | _, _, _ => 1
end

section
variable [Zero R] [One R] [Add R] [Mul R]
/-- entry `out` of `torch.einsum(spec, ops)`: `Σ_{contracted letters} Π_k ops[k][…]`; an operand is a function of
    its index list (in the operand's letter order), `dims` gives the size of the axis named by each letter -/
def eval (s : Spec) (dims : Char → Nat) (ops : List (List Nat → R)) (out : List Nat) : R :=
  sumOver dims s.contracted (bindOut s.out out (fun _ => 0)) (fun env => prodOps s.ins ops env)

/-- an operand given as a flat row-major array of the shape its letters name -/
def ofFlat (dims : Char → Nat) (l : List Char) (a : Nat → R) : List Nat → R :=
  fun idx => a (flat idx (l.map dims))

/-- the whole result, flat row-major (shape = sizes of the output letters) -/
def evalAll (s : Spec) (dims : Char → Nat) (ops : List (List Nat → R)) : List R :=
  (allIdx (s.out.map dims)).map (eval s dims ops)
end

/-! ## batch lift, strip, alpha-normalisation -/

/-- prepend the batch letter `β` to every operand and to the output:  `lift 'b' "ijk,aj->iak" = "bijk,baj->biak"` -/
def lift (β : Char) (s : Spec) : Spec :=
  { ins := s.ins.map (β :: ·), out := β :: s.out }

/-- prepend `β` to the operands selected by the mask (operands beyond the mask are left alone) -/
def maskIns (β : Char) : List Bool → List (List Char) → List (List Char)
  | m :: ms, l :: ls => (if m then β :: l else l) :: maskIns β ms ls
  | [], ls => ls
  | _ :: _, [] => []

/-- batch lift in which only the operands selected by `mask` carry the batch axis (the others are shared by all
    batch elements) -/
def liftMask (β : Char) (mask : List Bool) (s : Spec) : Spec :=
  { ins := maskIns β mask s.ins, out := β :: s.out }

/-- take the `b`-th slice of the operands selected by the mask -/
def sliceMask (b : Nat) : List Bool → List (List Nat → R) → List (List Nat → R)
  | m :: ms, A :: As => (if m then (fun idx => A (b :: idx)) else A) :: sliceMask b ms As
  | [], As => As
  | _ :: _, [] => []

/-- `β` occurs nowhere in the equation -/
def Fresh (β : Char) (s : Spec) : Prop := β ∉ s.ins.flatten ∧ β ∉ s.out

instance (β : Char) (s : Spec) : Decidable (Fresh β s) := by unfold Fresh; infer_instance

/-- inverse of `lift`: defined when the output and every operand start with the same letter and that letter occurs
    nowhere else -/
def strip (s : Spec) : Option Spec :=
  match s.out with
  | [] => none
  | β :: o =>
    if s.ins.all (fun l => l.head? == some β) ∧ Fresh β ⟨s.ins.map List.tail, o⟩
    then some ⟨s.ins.map List.tail, o⟩ else none

/-- rename the letters -/
def rename (ρ : Char → Char) (s : Spec) : Spec :=
  { ins := s.ins.map (fun l => l.map ρ), out := s.out.map ρ }

def idxOf (c : Char) : List Char → Nat
  | [] => 0
  | x :: xs => if x = c then 0 else idxOf c xs + 1

/-- the renaming of `extract.py:19-29` (`alpha`): the k-th distinct letter (in order of first appearance) becomes
    `chr(ord('a') + k)` -/
def alphaMap (s : Spec) (c : Char) : Char := Char.ofNat (97 + idxOf c s.letters)

def alphaNorm (s : Spec) : Spec := rename (alphaMap s) s

/-- `batched` is, up to the names of the letters, `plain` with a fresh batch letter prepended everywhere -/
def isBatchLiftOf (batched plain : Spec) : Bool :=
  (strip batched).map alphaNorm == some (alphaNorm plain)

end TN.Einsum
