import TnVerif.Model.Anova
import TnVerif.Model.PartialSet
import TnVerif.Model.Accepted
import TnVerif.Model.Index
import TnVerif.Model.Tools
/-
  `tn.truncate_anova(t, mask, keepdim, marginals)` (anova.py:67-96):

      t = tn.undo_anova_decomposition(tn.mask(tn.anova_decomposition(t, marginals=marginals), mask=mask))
      if not keepdim:
          N = t.dim()
          affecting = torch.sum(tn.accepted_inputs(mask).double(), dim=0)
          slices = [0 for n in range(N)]
          for i in np.where(affecting)[0]:
              slices[int(i)] = slice(None)
          t = t[tuple(slices)]
      return t

  The pieces are the existing models `Tensor.anova` (anova.py:9-43), `Tensor.maskWith` (tools.py:347-373),
  `Tensor.undoAnova` (anova.py:46-64), `Tensor.acceptedInputs` (automata.py:84-129) and `Tensor.getitem`
  (tensor.py:1019-1434).  Marginals are one weight vector per mode as in `Tensor.anova` (`None` = all ones).
  The mask is assumed to have as many modes as the tensor (a shorter mask is an `IndexError` in `tn.mask`).
-/
namespace TN
variable {R : Type}

/-- the annotation `idxs` that `anova_decomposition` attaches to the extended tensor (anova.py:42):
    `idxs.append([0] + [1] * t.shape[n])` — slice 0 means "variable absent", every other slice "present" -/
def anovaIdxs (shape : List Nat) : List (List Nat) := shape.map fun n => 0 :: List.replicate n 1

/-- `torch.sum(Xs.double(), dim=0)` (anova.py:90) for a matrix `Xs` with `N` columns given by its rows:
    the column sums (an empty matrix gives `N` zeros) -/
def colSums (N : Nat) (rows : List (List Nat)) : List Nat :=
  (List.range N).map fun n => (rows.map fun r => r.getD n 0).foldl (· + ·) 0

/-- the flags of the modes that `truncate_anova(keepdim=False)` indexes at `0` (anova.py:91-93): the modes
    whose entry of `affecting` is zero (`np.where(affecting)[0]` lists the others, which get `slice(None)`) -/
def droppedModes (affecting : List Nat) : List Bool := affecting.map fun s => s == 0

section
variable [Zero R] [One R] [Add R] [Mul R] [Neg R] [Div R]

/-- anova.py:87-89 (the part common to both values of `keepdim`):
    `undo_anova_decomposition(mask(anova_decomposition(t, marginals), mask))`; `tn.mask` reads the attribute
    `idxs` of the extended tensor, i.e. `anovaIdxs t.shape` -/
def Tensor.truncateAnovaKeep (t mask : Tensor R) (ws : List (Nat → R)) : Tensor R :=
  (((t.anova ws).maskWith (anovaIdxs t.shape) mask)).undoAnova

/-- anova.py:90-95, the step `if not keepdim:` applied to the tensor `u` built so far: the modes no accepted string
    of the mask touches (column sum of `accepted_inputs(mask)` equal to zero) are indexed at `0`, the others are
    kept (`t[tuple(slices)]`) — a tensor, or a scalar if no mode is kept.  `toNat` is the rounding inside
    `accepted_inputs`; `none` = the code raises (in `accepted_inputs`, or in `__getitem__`). -/
def Tensor.truncateAnovaSqueeze (toNat : R → Nat) (mask u : Tensor R) : Option (Tensor R ⊕ R) :=
  match mask.acceptedInputs toNat with
  | Option.none => Option.none
  | some rows =>
    let affecting := colSums u.length rows
    match u.getitem (squeezeKey (droppedModes affecting)) with
    | .ok r => some r
    | .error _ => Option.none

/-- `tn.truncate_anova(t, mask, keepdim, marginals)` (anova.py:67-96): with `keepdim` the tensor
    `truncateAnovaKeep`; without, that tensor with the unaffected modes indexed away (`truncateAnovaSqueeze`). -/
def Tensor.truncateAnova (toNat : R → Nat) (t mask : Tensor R) (keepdim : Bool) (ws : List (Nat → R)) :
    Option (Tensor R ⊕ R) :=
  let u := t.truncateAnovaKeep mask ws
  if keepdim then some (.inl u) else Tensor.truncateAnovaSqueeze toNat mask u

end
end TN
