import TnVerif.Model.Index
/-
  `tn.squeeze`, `tn.unsqueeze`, `tn.unbind` (tools.py:14-53, 207-222): each builds a key and calls `__getitem__`.
  The key constructions are modelled step by step (a list of `slice(None)` whose listed positions are overwritten one
  after the other, Python list indexing with negative positions), then `Tensor.getitem` is called on the result.
-/
namespace TN
variable {R : Type}

inductive SqErr where
  | index                 -- IndexError while building the key (position outside the list / array)
  | assertion             -- the `assert` of `tn.squeeze` (a listed mode has size ≠ 1)
  | key (e : IdxErr)      -- `__getitem__` rejected the key
  deriving Repr, DecidableEq

/-- `for m in dim: idx[m] = 0` on `idx = [slice(None)] * N` (tools.py:31-33); positions already normalised -/
def sqops_sqKey (N : Nat) (dims : List Nat) : List RawItem :=
  dims.foldl (fun idx m => idx.set m (RawItem.int 0)) (List.replicate N sliceAll)

/-- `for d in dim: idx[d] = None` on `idx = [slice(None)] * M` (tools.py:50-52) -/
def sqops_uqKey (M : Nat) (dims : List Nat) : List RawItem :=
  dims.foldl (fun idx d => idx.set d RawItem.none) (List.replicate M sliceAll)

/-- `np.where([s == 1 for s in t.shape])[0]` (tools.py:25) -/
def sqops_onesDims (sh : List Nat) : List Nat :=
  (List.range sh.length).filter fun k => sh.getD k 0 == 1

/-- Python sequence indexing `l[d]` with a possibly negative position -/
def sqops_pyGet (l : List Nat) (d : Int) : Option Nat :=
  match normInt d l.length with
  | .ok k => l[k]?
  | .error _ => none

/-- `dim=None` stands for the positions of all size-1 modes (tools.py:24-25) -/
def sqops_dimList (sh : List Nat) : Option (List Int) → List Int
  | Option.none => (sqops_onesDims sh).map Int.ofNat
  | some l => l

/-- an exception of `__getitem__` propagates through the calling routine -/
def sqops_wrap {α : Type} : Except IdxErr α → Except SqErr α
  | .ok r => .ok r
  | .error e => .error (.key e)

section
variable [Zero R] [One R] [Add R] [Mul R]

/-- `tn.squeeze(t, dim)` (tools.py:14-34).  `dim = none` is Python's `dim=None`; an integer `dim` is the
    one-element list.  `np.array(t.shape)[dim]` raises IndexError for a position outside `[-N, N)`; the `assert`
    fails when a listed mode has size ≠ 1; the key is `0` at the listed positions and `:` elsewhere. -/
def Tensor.squeeze (t : Tensor R) (dim : Option (List Int)) : Except SqErr (Tensor R ⊕ R) :=
  let N := t.length
  match (sqops_dimList t.shape dim).mapM (fun d => normInt d N) with
  | .error _ => .error .index
  | .ok dimN =>
    if dimN.all (fun m => t.shape.getD m 0 == 1) then sqops_wrap (t.getitem (sqops_sqKey N dimN))
    else .error .assertion

/-- `tn.unsqueeze(t, dim)` (tools.py:37-53): `None` at the listed positions of a key of `t.dim() + len(dim)` entries
    (Python list assignment: IndexError for a position outside the list, negative positions from the end) -/
def Tensor.unsqueeze (t : Tensor R) (dim : List Int) : Except SqErr (Tensor R ⊕ R) :=
  let M := t.length + dim.length
  match dim.mapM (fun d => normInt d M) with
  | .error _ => .error .index
  | .ok dimN => sqops_wrap (t.getitem (sqops_uqKey M dimN))

/-- the key of one slice of `tn.unbind`: `[slice(None)] * dim + [sl] + [slice(None)] * (t.dim() - 1 - dim)`
    (a negative repetition count gives the empty list) -/
def sqops_ubKey (N : Nat) (d : Int) (sl : Nat) : List RawItem :=
  List.replicate d.toNat sliceAll ++ [RawItem.int sl] ++ List.replicate ((N : Int) - 1 - d).toNat sliceAll

/-- `tn.unbind(t, dim)` (tools.py:207-222): `dim += t.dim()` if negative, then the list of `t[..., sl, ...]` for
    `sl in range(t.shape[dim])` (`t.shape[dim]` is Python tuple indexing) -/
def Tensor.unbind (t : Tensor R) (dim : Int) : Except SqErr (List (Tensor R ⊕ R)) :=
  let N := t.length
  let d : Int := if dim < 0 then dim + N else dim
  match sqops_pyGet t.shape d with
  | Option.none => .error .index
  | some n =>
    (List.range n).mapM fun sl => sqops_wrap (t.getitem (sqops_ubKey N d sl))

end
end TN
