import TnVerif.Model.Tensor
import TnVerif.Model.Arith
/-
  Construction and re-expression (C01): `_full_rank_tt`, `decompress_tucker_factors`, `tt()`
  (whole-tensor `_cp_to_tt()`), `clone`, `tn.transpose`  — tensor.py:10-104, 1576-1637, 1717-1765;
  tools.py:107-132.
-/
namespace TN
variable {R : Type}

/-- row-major flat index of an index list inside a shape -/
def flat : List Nat → List Nat → Nat
  | i :: is, _ :: ss => i * ss.prod + flat is ss
  | _, _ => 0

section
variable [Zero R] [One R] [Add R] [Mul R]

/-- state of the `_full_rank_tt` loop: the running matrix `resh` (flat row and column indices) -/
structure Resh (R : Type) where
  rows : Nat
  cols : Nat
  M : Nat → Nat → R

/-- `data.reshape([shape[0], -1])` of a row-major array -/
def Resh.ofArray (rows cols : Nat) (x : Nat → R) : Resh R :=
  { rows := rows, cols := cols, M := fun r c => x (r * cols + c) }

/-- `torch.reshape(resh, (rows * s, cols // s))` : fold the next mode (size `s`) into the rows -/
def Resh.fold (st : Resh R) (s : Nat) : Resh R :=
  { rows := st.rows * s, cols := st.cols / s, M := fun r c => st.M (r / s) ((r % s) * (st.cols / s) + c) }

/-- `torch.eye(cols).reshape(cols * s, cols // s)` -/
def Resh.eyeFold (st : Resh R) (s : Nat) : Resh R :=
  { rows := st.cols * s, cols := st.cols / s, M := fun r c => if r / s = (r % s) * (st.cols / s) + c then 1 else 0 }

/-- `_full_rank_tt` from the second mode on.  `sPrev` is the size of the mode whose core is
    emitted next; the list holds the sizes of the modes still folded into the columns. -/
def fullRankLoop (sPrev : Nat) (st : Resh R) : List Nat → List (TMode R)
  | [] => [{ core := .tt (st.rows / sPrev) sPrev 1 (fun a j _ => st.M (a * sPrev + j) 0), U := none }]
  | s :: rest =>
    if st.rows < st.cols then
      -- more columns than rows: emit an identity core, fold the next mode into the rows
      { core := .tt (st.rows / sPrev) sPrev st.rows (fun a j b => if a * sPrev + j = b then 1 else 0), U := none } ::
        fullRankLoop s (st.fold s) rest
    else
      -- emit the matrix itself as a core, continue with an identity matrix
      { core := .tt (st.rows / sPrev) sPrev st.cols (fun a j b => st.M (a * sPrev + j) b), U := none } ::
        fullRankLoop s (st.eyeFold s) rest

/-- `_full_rank_tt(data)` for a dense array given by its shape and its entries in row-major order -/
def fullRankTT (shape : List Nat) (x : Nat → R) : Tensor R :=
  match shape with
  | [] => []
  | s :: rest => fullRankLoop s (Resh.ofArray s rest.prod x) rest

/-- `decompress_tucker_factors()` (all modes) -/
def Tensor.decompAll (t : Tensor R) : Tensor R := t.map fun m => { core := m.decomp, U := none }

/-- `decompress_tucker_factors(dim)` for a set of modes given as a Boolean mask -/
def Tensor.decompSome : List Bool → Tensor R → Tensor R
  | b :: bs, m :: ms => (if b then { core := m.decomp, U := none } else m) :: Tensor.decompSome bs ms
  | _, ms => ms

/-- `core.transpose(-1,-2)[..., None]` for a trailing CP factor -/
def Core.liftLast : Core R → Core R
  | .tt r0 s r1 f => .tt r0 s r1 f
  | .cp s r f => .tt r s 1 (fun a j _ => f j a)

/-- `core.sum(dim=-1, keepdim=True)[None]` for a CP factor: the 1 × I × 1 core of a 1-D CP tensor -/
def Core.sumCols : Core R → Core R
  | .tt r0 s r1 f => .tt r0 s r1 f
  | .cp s r f => .tt 1 s 1 (fun _ j _ => sumTo r fun k => f j k)

/-- whole-tensor `_cp_to_tt()` on a list of cores (no factors involved) -/
def cpToTTAll : Tensor R → Tensor R
  | [] => []
  | m :: ms =>
    let first : TMode R := { m with core := m.core.lift1 }
    let rec go : Tensor R → Tensor R
      | [] => []
      | [l] => [{ l with core := l.core.liftLast }]
      | x :: xs => { x with core := x.core.toTT } :: go xs
    match ms with
    | [] => [{ m with core := m.core.sumCols }]   -- N = 1: a 1-D CP tensor is the sum of its columns
    | _ => first :: go ms

/-- `Tensor.tt()` -/
def Tensor.tt (t : Tensor R) : Tensor R := cpToTTAll t.decompAll

/-- `Tensor.clone()` -/
def Tensor.clone (t : Tensor R) : Tensor R := t

/-- `core.permute(2,1,0)` for TT cores; CP factors are kept -/
def Core.rev : Core R → Core R
  | .tt r0 s r1 f => .tt r1 s r0 (fun a j b => f b j a)
  | c => c

/-- `tn.transpose(t)` -/
def Tensor.transpose (t : Tensor R) : Tensor R := (t.map fun m => { m with core := m.core.rev }).reverse

end
end TN
