import TnVerif.Model.Tensor
import TnVerif.Model.Arith
import TnVerif.Model.Tools
/-
  `tn.pad` with a non-zero constant fill value (tools.py:529-560).  The zero-fill branch (tools.py:562-609) is
  `Tensor.pad0` of `Model/Tools.lean`.
-/
namespace TN
variable {R : Type}

section
variable [Zero R] [One R] [Add R] [Mul R]

/-- `tn.Tensor([torch.ones(1, sh, 1) for sh in shape])` (tools.py:550-555) and
    `tn.Tensor([torch.ones_like(c) for c in padded_ones.cores])` (tools.py:557-559) -/
def Tensor.onesTT (shape : List Nat) : Tensor R :=
  shape.map fun s => { core := .tt 1 s 1 (fun _ _ _ => 1), U := Option.none }

/-- `tn.pad(t, shape, dim, fill_value)` for `fill_value ≠ 0` (tools.py:548-560); `newSizes` holds the new size of
    every padded mode (`none` = mode not in `dim`):
    ```
    ones        = Tensor([ones(1, sh, 1) for sh in t.shape])
    padded_ones = pad(ones, shape, dim)                                   -- zero padding
    outside     = Tensor([ones_like(c) for c in padded_ones.cores]) - padded_ones
    return pad(t, shape, dim) + fill_value * outside
    ```
    `fill_value * outside` is the scalar multiplication of `Tensor.__mul__`: every core times `ρ = |c|^(1/N)`, the
    first one also times `sgn = sign c` (arguments, contract `sgn · ρ^N = c`). -/
def Tensor.padC [Neg R] (t : Tensor R) (newSizes : List (Option Nat)) (ρ sgn : R) : Tensor R :=
  let paddedOnes : Tensor R := (Tensor.onesTT t.shape).pad0 newSizes
  let outside : Tensor R := (Tensor.onesTT paddedOnes.shape).sub paddedOnes
  (t.pad0 newSizes).add (outside.scalarMul ρ sgn)

end
end TN
