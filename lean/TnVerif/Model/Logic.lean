import TnVerif.Model.Tensor
import TnVerif.Model.Arith
import TnVerif.Model.Format
import TnVerif.Model.Index
import TnVerif.Model.Tools
import TnVerif.Model.Stats
import TnVerif.Model.Automata
import TnVerif.Model.PartialSet
/-
  Boolean logic on `2^N` tensors (logic.py, all of it; the operators `~ & | ^` of tensor.py:811-824;
  `tn.mask`, tools.py:347-373, is `Tensor.maskWith` of Model/PartialSet).

  A formula is a tensor with one mode of size 2 per variable.  The helpers build rank-1 tensors core by
  core (`true`, `false`, `all`, `none`, `presence`, `absence`), or go through the operators (`any = ~none`)
  and the weight automaton (`one = weight_mask(N, 1) [& any(N, which)]`).  The predicates compare a norm
  or a sum with a literal threshold; `relevant_symbols` differences the two slices of every core.

  The square root of `tn.norm` is not available over a generic scalar type: `norm(x) > thr` and
  `norm(x) <= thr` are evaluated in the squared form (`logicNormGt`, `logicNormLe`), which is the same
  decision for `thr ≥ 0` (theorem `C15.norm_le_real` / `C15.norm_gt_real` over ℝ).
-/
namespace TN
variable {R : Type}

section
variable [Zero R] [One R] [Add R] [Mul R]

/-! ### constant formulas and quantifier helpers (logic.py:7-85) -/

/-- `torch.ones([1, 2, 1])` (logic.py:16, 49, 71, 180, 197) -/
def logicOnesMode : TMode R := { core := .tt 1 2 1 (fun _ _ _ => 1), U := Option.none }
/-- `torch.zeros([1, 2, 1])` (logic.py:28) -/
def logicZerosMode : TMode R := { core := .tt 1 2 1 (fun _ _ _ => 0), U := Option.none }
/-- `torch.cat([torch.zeros(1, 1, 1), torch.ones(1, 1, 1)], dim=1)` (logic.py:47) -/
def logicMode01 : TMode R := { core := .tt 1 2 1 (fun _ j _ => if j = 0 then 0 else 1), U := Option.none }
/-- `torch.cat([torch.ones(1, 1, 1), torch.zeros(1, 1, 1)], dim=1)` (logic.py:69) -/
def logicMode10 : TMode R := { core := .tt 1 2 1 (fun _ j _ => if j = 0 then 1 else 0), U := Option.none }

/-- `tn.true(N)` (logic.py:7-16) -/
def logicTrue (N : Nat) : Tensor R := (List.range N).map fun _ => logicOnesMode
/-- `tn.false(N)` (logic.py:19-28) -/
def logicFalse (N : Nat) : Tensor R := (List.range N).map fun _ => logicZerosMode

/-- `which=None` means every variable (logic.py:41-42, 63-64) -/
def logicWhich (N : Nat) (which : Option (List Nat)) : List Nat := which.getD (List.range N)

/-- `tn.all(N, which)` (logic.py:31-50): core `[0, 1]` for the listed variables (`n in which`), ones elsewhere -/
def logicAll (N : Nat) (which : Option (List Nat)) : Tensor R :=
  (List.range N).map fun n => if n ∈ logicWhich N which then logicMode01 else logicOnesMode

/-- `tn.none(N, which)` (logic.py:53-72): core `[1, 0]` for the listed variables, ones elsewhere -/
def logicNone (N : Nat) (which : Option (List Nat)) : Tensor R :=
  (List.range N).map fun n => if n ∈ logicWhich N which then logicMode10 else logicOnesMode

/-! ### the operators (tensor.py:811-824) -/
section ops
variable [Neg R]

/-- `~t = 1 - t` (tensor.py:811-812), i.e. `__rsub__`: `-1 * t + 1` (tensor.py:678-680) -/
def Tensor.lnot (t : Tensor R) : Tensor R := (t.neg).scalarAdd 1
/-- `a & b = a * b` (tensor.py:814-816) -/
def Tensor.land (a b : Tensor R) : Tensor R := a.mul b
/-- `a | b = a + b - a * b` (tensor.py:818-820) -/
def Tensor.lor (a b : Tensor R) : Tensor R := (a.add b).sub (a.mul b)
/-- `a ^ b = a + b - 2 * a * b` (tensor.py:822-824); `ρ` is the kernel answer `2 ** (1 / N)` of the scalar
    product `2 * a` (contract `ρ ^ N = 2`, §2.4) -/
def Tensor.lxor (ρ : R) (a b : Tensor R) : Tensor R := (a.add b).sub ((a.scalarMul ρ 1).mul b)

/-- `tn.any(N, which) = ~tn.none(N, which)` (logic.py:75-85) -/
def logicAny (N : Nat) (which : Option (List Nat)) : Tensor R := (logicNone N which).lnot

/-- `tn.one(N, which)` (logic.py:88-103): `weight_mask(N, 1)` (weight list `[1]`, `r = max(weight) + 1 = 2`,
    binary alphabet), and for an explicit `which` additionally `& tn.any(N, which)` -/
def logicOne (N : Nat) (which : Option (List Nat)) : Tensor R :=
  match which with
  | Option.none => weightMask [1] 2 (List.replicate N 2)
  | some w => (weightMask [1] 2 (List.replicate N 2)).land (logicAny N (some w))
end ops

/-! ### presence / absence / symbols (logic.py:106-115, 169-200) -/

/-- `core[a0, j0, b0] = v` on a 3-D core -/
def Core.logicSetEntry (a0 j0 b0 : Nat) (v : R) : Core R → Core R
  | .tt r0 s r1 f => .tt r0 s r1 (fun a j b => if a = a0 ∧ j = j0 ∧ b = b0 then v else f a j b)
  | c => c

/-- apply `f` to the `w`-th mode -/
def logicModifyAt (f : TMode R → TMode R) : Nat → Tensor R → Tensor R
  | _, [] => []
  | 0, m :: ms => f m :: ms
  | w + 1, m :: ms => m :: logicModifyAt f w ms

/-- `cores[w][0, j0, 0] = 0` (logic.py:182, 199) -/
def logicZeroAt (j0 : Nat) (cs : Tensor R) (w : Nat) : Tensor R :=
  logicModifyAt (fun m => { m with core := m.core.logicSetEntry 0 j0 0 0 }) w cs

/-- the list indices `cores[w]`: Python list indexing, negative values count from the end, out of range raises -/
def logicNormWhich (N : Nat) (which : List Int) : Except IdxErr (List Nat) := which.mapM fun w => normInt w N

/-- `tn.presence(N, which)` (logic.py:169-183): ones cores, then entry `[0, 0, 0]` of every listed core is zeroed -/
def logicPresence (N : Nat) (which : List Int) : Except IdxErr (Tensor R) := do
  let ws ← logicNormWhich N which
  pure (ws.foldl (logicZeroAt 0) (logicTrue N))

/-- `tn.absence(N, which)` (logic.py:186-200): ones cores, then entry `[0, 1, 0]` of every listed core is zeroed -/
def logicAbsence (N : Nat) (which : List Int) : Except IdxErr (Tensor R) := do
  let ws ← logicNormWhich N which
  pure (ws.foldl (logicZeroAt 1) (logicTrue N))

/-- `tn.symbols(N) = [presence(N, n) for n in range(N)]` (logic.py:106-115) -/
def logicSymbols (N : Nat) : Except IdxErr (List (Tensor R)) :=
  (List.range N).mapM fun (n : Nat) => logicPresence N [Int.ofNat n]

/-! ### `tn.dot` with a stored running matrix (metrics.py:28-126)

`Tensor.dot` (Model/Tools) threads the running factor `Lprod` as a function; compiled, that re-evaluates the whole
prefix for every entry.  Here `Lprod` is a stored matrix, as in the code (`Lprod = torch.matmul(…)`, metrics.py:100-103).
Extensionally the same number (`logic_dotTab_eq` in Lemmas/Logic). -/

/-- a stored matrix (row-major) -/
structure LogicTab (R : Type) where
  cols : Nat
  a : Array R

def LogicTab.get (M : LogicTab R) (i j : Nat) : R := if j < M.cols then M.a.getD (i * M.cols + j) 0 else 0

def LogicTab.ofFn (rows cols : Nat) (f : Nat → Nat → R) : LogicTab R :=
  ⟨cols, Array.ofFn (n := rows * cols) fun k => f (k.val / cols) (k.val % cols)⟩

/-- the matrices of a mode as stored data (the core is a stored array in the code): row `i · rl + a`, column `b` -/
def logicTabMode (m : Mode R) : LogicTab R :=
  LogicTab.ofFn (m.n * m.rl) m.rr fun p b => m.G (p / m.rl) (p % m.rl) b

/-- `Ucore = _project_left(core1, Lprod)` (metrics.py:43-47, 99): `Ucore[b', i, c] = Σ_b Lprod[b', b] · G_i[b, c]`,
    stored with the row index `b' · n + i` (its left unfolding) -/
def logicProjectLeft (L : LogicTab R) (rl' n rl rr : Nat) (G : LogicTab R) : LogicTab R :=
  LogicTab.ofFn (rl' * n) rr fun p c => sumTo rl fun b => L.get (p / n) b * G.get ((p % n) * rl + b) c

/-- `Lprod = matmul(left_unfolding(Vcore).t(), left_unfolding(Ucore))` (metrics.py:100-102):
    `Lprod'[c', c] = Σ_{b', i} G'_i[b', c'] · Ucore[b', i, c]` -/
def logicDotStep (L : LogicTab R) (m m' : Mode R) : LogicTab R :=
  let G := logicTabMode m
  let G' := logicTabMode m'
  let U := logicProjectLeft L m'.rl m.n m.rl m.rr G
  LogicTab.ofFn m'.rr m.rr fun c' c =>
    sumTo m'.rl fun b' => sumTo m.n fun i => G'.get (i * m'.rl + b') c' * U.get (b' * m.n + i) c

/-- the sweep of `tn.dot` (as `dotGo`), the running matrix stored after every mode -/
def logicDotGo (L : LogicTab R) (rl' rl : Nat) : List (Mode R) → List (Mode R) → R
  | m :: ms, m' :: ms' => logicDotGo (logicDotStep L m m') m'.rr m.rr ms ms'
  | _, _ => sumTo rl' fun b' => sumTo rl fun b => L.get b' b

/-- `tn.dot(t, u)` for two tensors of equal shape -/
def Tensor.dotTab (t u : Tensor R) : R :=
  match t.modes, u.modes with
  | m :: ms, m' :: ms' => logicDotGo (LogicTab.ofFn m'.rl m.rl fun _ _ => 1) m'.rl m.rl (m :: ms) (m' :: ms')
  | _, _ => 1

/-- `tn.normsq(t) = tn.dot(t, t)` (metrics.py:485-494) -/
def Tensor.normsqTab (t : Tensor R) : R := t.dotTab t

end

/-! ### norm tests -/
section order
variable [Zero R] [One R] [Add R] [Mul R] [LT R] [DecidableLT R]

/-- `torch.clamp(x, min=0)` (metrics.py:506) -/
def logicClamp0 (x : R) : R := if x < 0 then 0 else x

/-- `tn.norm(·) > thr` for a tensor whose `tn.normsq` is `x`: `sqrt(clamp(x, 0)) > thr`, evaluated as
    `thr² < clamp(x, 0)` (the same decision for `thr ≥ 0`) -/
def logicNormGt (thr x : R) : Bool := decide (thr * thr < logicClamp0 x)

/-- `tn.norm(·) <= thr` : the negation (the order is total, no NaN in the model) -/
def logicNormLe (thr x : R) : Bool := !logicNormGt thr x

/-! ### the predicates (logic.py:203-262) -/
section pred
variable [Neg R]

/-- `is_contradiction(t) = bool(tn.norm(t) <= 1e-6)` (logic.py:215-224); `thr` is the literal -/
def Tensor.isContradiction (thr : R) (t : Tensor R) : Bool := logicNormLe thr t.normsqTab

/-- `is_tautology(t) = bool(tn.norm(~t) <= 1e-6)` (logic.py:203-212) -/
def Tensor.isTautology (thr : R) (t : Tensor R) : Bool := logicNormLe thr t.lnot.normsqTab

/-- `is_satisfiable(t) = bool(tn.sum(t) >= 1e-6)` (logic.py:227-236) -/
def Tensor.isSatisfiable (thr : R) (t : Tensor R) : Except IdxErr Bool := do
  match ← t.sum (allDims t) with
  | .inr s => pure (!decide (s < thr))
  | .inl _ => pure false   -- not reached: the sum over all modes is a scalar (C06.sum_all)

/-- `implies(t1, t2) = is_contradiction(t1 & ~t2)` (logic.py:239-249) -/
def Tensor.limplies (thr : R) (t1 t2 : Tensor R) : Bool := (t1.land t2.lnot).isContradiction thr

/-- `equiv(t1, t2) = implies(t1, t2) & implies(t2, t1)` (logic.py:252-262) -/
def Tensor.lequiv (thr : R) (t1 t2 : Tensor R) : Bool := t1.limplies thr t2 && t2.limplies thr t1
end pred

/-! ### relevant / irrelevant symbols, `only` (logic.py:118-166) -/
section rel
variable [Sub R]

/-- `torch.cat((c[:, 1:2, :] - c[:, 0:1, :], c), dim=1)` (logic.py:128) for a 3-D core with at least two
    slices: slice 0 of the new core is the difference of slices 1 and 0, slices `1…s` are the old core -/
def Core.logicDiffCat : Core R → Core R
  | .tt r0 s r1 f => .tt r0 (s + 1) r1 (fun a j b => if j = 0 then f a 1 b - f a 0 b else f a (j - 1) b)
  | c => c

/-- the tensor `t2` of logic.py:127-129: `t.tt()`, every core extended by its difference slice, no factors -/
def Tensor.logicDiff (t : Tensor R) : Tensor R := t.tt.map fun m => { core := m.core.logicDiffCat, U := Option.none }

/-- the key `[slice(1, 3)] * n + [0] + [slice(1, 3)] * (N - n - 1)` (logic.py:133) -/
def logicRelKey (N n : Nat) : List RawItem :=
  List.replicate n (.slice (some 1) (some 3) Option.none) ++ [.int 0] ++
    List.replicate (N - n - 1) (.slice (some 1) (some 3) Option.none)

/-- `tn.normsq(t2[key_n])` (logic.py:133): the squared norm of the tensor of differences along variable `n`;
    for `N = 1` the indexing returns a scalar `x` and `tn.normsq` of it is `x · x` (metrics.py:68-69) -/
def Tensor.logicRelNormsq (t : Tensor R) (n : Nat) : Except IdxErr R := do
  let t2 := t.logicDiff
  match ← t2.getitem (logicRelKey t2.length n) with
  | .inl u => pure u.normsqTab
  | .inr x => pure (x * x)

/-- the list comprehension of logic.py:130-135 over the variables `ns` -/
def logicRelGo (thr : R) (t : Tensor R) : List Nat → Except IdxErr (List Nat)
  | [] => pure []
  | n :: ns => do
    let x ← t.logicRelNormsq n
    let r ← logicRelGo thr t ns
    pure (if logicNormGt thr x then n :: r else r)

/-- `relevant_symbols(t)` (logic.py:118-135); `thr` is the literal `1e-10` -/
def Tensor.relevantSymbols (thr : R) (t : Tensor R) : Except IdxErr (List Nat) :=
  logicRelGo thr t (List.range t.length)

/-- `irrelevant_symbols(t)` (logic.py:138-148) -/
def Tensor.irrelevantSymbols (thr : R) (t : Tensor R) : Except IdxErr (List Nat) := do
  let rel ← t.relevantSymbols thr
  pure ((List.range t.length).filter fun n => !rel.contains n)

/-- `only(t) = tn.mask(t, absence(t.dim(), irrelevant_symbols(t)))` (logic.py:151-166); `tn.mask` is `Tensor.maskWith`
    (Model/PartialSet) with the default annotation `idxs[n] = arange(shape[n])` (tensor.py:433-435) -/
def Tensor.only (thr : R) (t : Tensor R) : Except IdxErr (Tensor R) := do
  let irr ← t.irrelevantSymbols thr
  let m ← logicAbsence t.length (irr.map Int.ofNat)
  pure (t.maskWith (t.shape.map List.range) m)
end rel
end order

end TN
