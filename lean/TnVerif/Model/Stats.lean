import TnVerif.Model.Tools
import TnVerif.Model.Anova
/-
  Statistics built on `sum`, `dot`, scalar addition and element-wise product
  (metrics.py: `sum(_normalize=True)` 198-232, `mean` 235-261, `var` 264-280).
  Scalars need a division (`1.0 / I`, `marg / marg.sum()`, `… / t.numel()`).
-/
namespace TN
variable {R : Type}

/-- what the statistics routines can raise -/
inductive StatErr where
  /-- `1.0 / t.shape[d]` with an empty mode: Python's `ZeroDivisionError` (metrics.py:221) -/
  | zeroDivision
  /-- `assert len(marginals) == t.dim()` (metrics.py:275) -/
  | assertLen
  /-- raised inside the indexing that `tn.squeeze` performs -/
  | idx (e : IdxErr)
  deriving Repr, DecidableEq

/-- some mode listed in `dims` has size 0 -/
def flaggedZero : List Bool → List Nat → Bool
  | true :: ds, n :: ns => n == 0 || flaggedZero ds ns
  | false :: ds, _ :: ns => flaggedZero ds ns
  | _, _ => false

/-- every mode is listed (`dim=None`) -/
def allDims (t : Tensor R) : List Bool := t.map fun _ => true

section
variable [Zero R] [One R] [Add R] [Mul R] [Neg R] [Div R]

/-- a Python `int` used as a float (`1.0 / t.shape[d]`, `torch.tensor(self.shape).double()`): `n` as `1 + … + 1` -/
def natR : Nat → R
  | 0 => 0
  | n + 1 => natR n + 1

/-- the vector `(1.0 / t.shape[d]) * torch.ones(t.shape[d])` of `tn.sum(…, _normalize=True)` (metrics.py:220-224),
    read as the one-row matrix `tn.ttm` makes of it (`factor[None, ...]`, tools.py:312-313) -/
def meanL (n : Nat) : Nat → Nat → R := fun _ _ => (1 / natR n) * 1

/-- `result = tn.ttm(t, us, dim)` with the normalised vectors (metrics.py:228) -/
def Tensor.meanRows (t : Tensor R) (dims : List Bool) : Tensor R :=
  t.ttm (List.zipWith (fun b (m : TMode R) => if b then some (1, meanL m.n) else Option.none) dims t)

/-- `tn.mean(t, dim, keepdim=True)` = `tn.sum(t, dim, keepdim=True, _normalize=True)` (metrics.py:261, 220-230):
    building the vectors divides the Python float `1.0` by each listed mode size (an empty listed mode raises
    `ZeroDivisionError`), then `tn.ttm` -/
def Tensor.meanKeep (t : Tensor R) (dims : List Bool) : Except StatErr (Tensor R) :=
  if flaggedZero dims t.shape then .error .zeroDivision else .ok (t.meanRows dims)

/-- `tn.mean(t, dim)` without marginals and without keepdim (metrics.py:261, 220-232):
    normalised `ttm`, then `tn.squeeze` = integer 0 at the listed modes -/
def Tensor.mean (t : Tensor R) (dims : List Bool) : Except StatErr (Tensor R ⊕ R) := do
  let k ← t.meanKeep dims
  match k.getitem (squeezeKey dims) with
  | .ok r => .ok r
  | .error e => .error (.idx e)

/-- one core of `pdf` in `tn.mean(…, marginals=…)` (metrics.py:248-257): `torch.ones(1, sh, 1)`, replaced by
    `marg[None, :, None] / marg.sum()` (`normW` of Model/Anova) on the modes that got a marginal vector (given
    with its length) -/
def pdfMode (sh : Nat) : Option (Nat × (Nat → R)) → TMode R
  | Option.none => { core := .tt 1 sh 1 (fun _ _ _ => 1), U := Option.none }
  | some (len, w) => { core := .tt 1 len 1 (fun _ j _ => normW len w j), U := Option.none }

/-- the rank-one tensor `pdf` (metrics.py:248-258); `margs` has one entry per mode:
    `some (len, marg)` for the modes `zip(dim, marginals)` reaches, `none` for the others -/
def pdfT : List Nat → List (Option (Nat × (Nat → R))) → Tensor R
  | sh :: shs, w :: ws => pdfMode sh w :: pdfT shs ws
  | sh :: shs, [] => pdfMode sh Option.none :: pdfT shs []
  | [], _ => []

/-- `tn.mean(t, dim, marginals, keepdim=True)` (metrics.py:247-259): `tn.sum(t * pdf, dim, keepdim=True)` -/
def Tensor.meanMargKeep (t : Tensor R) (dims : List Bool) (margs : List (Option (Nat × (Nat → R)))) : Tensor R :=
  (t.mul (pdfT t.shape margs)).sumKeep dims

/-- `tn.mean(t, dim, marginals)` (metrics.py:247-259): `tn.sum(t * pdf, dim)` -/
def Tensor.meanMarg (t : Tensor R) (dims : List Bool) (margs : List (Option (Nat × (Nat → R)))) :
    Except IdxErr (Tensor R ⊕ R) :=
  (t.mul (pdfT t.shape margs)).sum dims

/-- `Tensor.numel()` (tensor.py:2341-2348): the product of the mode sizes, taken in floating point -/
def Tensor.numelR (t : Tensor R) : R := t.shape.foldl (fun acc s => acc * natR s) 1

/-- `tn.var(t)` (metrics.py:280): `tn.normsq(t - tn.mean(t)) / t.numel()`; `t - μ` is `t + (-1 * μ)`
    (tensor.py:674-676), a scalar addition.  `tn.mean(t)` is a scalar because every mode is indexed by an
    integer; the other branch cannot be reached for a tensor with at least one mode. -/
def Tensor.var (t : Tensor R) : Except StatErr R := do
  match ← t.mean (allDims t) with
  | .inr μ => pure ((t.scalarAdd (-1 * μ)).normsq / t.numelR)
  | .inl _ => .error (.idx .tooMany)

/-- `tn.var(t, marginals)` (metrics.py:274-278): `assert len(marginals) == t.dim()`, centre with the weighted
    mean, then `tn.dot(tcentered * pdf, tcentered)` with `pdf` the rank-one tensor of normalised marginals -/
def Tensor.varMarg (t : Tensor R) (margs : List (Nat × (Nat → R))) : Except StatErr R :=
  if margs.length ≠ t.length then .error .assertLen else
  match t.meanMarg (allDims t) (margs.map some) with
  | .error e => .error (.idx e)
  | .ok (.inr μ) =>
    let tc := t.scalarAdd (-1 * μ)
    let pdf : Tensor R := margs.map fun p => pdfMode 0 (some p)
    .ok ((tc.mul pdf).dot tc)
  | .ok (.inl _) => .error (.idx .tooMany)

end
end TN
