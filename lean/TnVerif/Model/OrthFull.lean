import TnVerif.Model.Ortho
import TnVerif.Model.OrthSweep
/-
  The general call `Tensor.orthogonalize(mu)` (tensor.py:1990-2016) on TT-Tucker tensors:

      self._cp_to_tt()
      for i in range(mu):                     R = self.left_orthogonalize(i)
      for i in range(self.dim() - 1, mu, -1): L = self.right_orthogonalize(i)

  where `left_orthogonalize(i)` (tensor.py:1907-1941) = `factor_orthogonalize(i)` (tensor.py:1878-1905: QR of the
  Tucker factor if there is one, `R_U` pushed into core `i`), then QR of the left unfolding of core `i`, `Q` stored,
  `R` multiplied into core `i+1`; `right_orthogonalize(i)` (tensor.py:1943-1988) likewise with the right unfolding
  and core `i-1`.  Every `torch.linalg.qr` answer is an ARGUMENT (DESIGN §2.4).
-/
namespace TN
variable {R : Type}

/-- the kernel answers recorded during one `left_orthogonalize(i)` / `right_orthogonalize(i)` call:
    `fac = some (Q_U, R_U)` iff `factor_orthogonalize(i)` ran a QR (i.e. `Us[i] is not None`), and the QR of the
    core's unfolding.  For a left step `Q` is `rows × k` (rows = `r0·s`, row `a·s + i`) and `Rm` is `k × r1`;
    for a right step (after the two `permute`s of tensor.py:1965-1966) `Q` is `k × (s·r1)` and `Rm = L` is `r0 × k`. -/
structure OrthAns (R : Type) where
  fac : Option (Mat R × Mat R)
  Q : Mat R
  Rm : Mat R

/-- the core-QR answer in the `QRAns` form of the factor-free sweep (`Model/OrthSweep.lean`) -/
def OrthAns.toQRAns (A : OrthAns R) : QRAns R := { k := A.Q.cols, Q := A.Q.f, Rm := A.Rm.f }

section
variable [Zero R] [One R] [Add R] [Mul R]

/-- the right unfolding `core.reshape(r0, -1)` of a TT core (`tn.right_unfolding`): column `i·r1 + b` -/
def Core.rightUnf : Core R → Nat → Nat → R
  | .tt _ _ r1 f => fun a col => f a (col / r1) (col % r1)
  | .cp _ _ _ => fun _ _ => 0

/-- `self.factor_orthogonalize(i)` with the recorded answer (tensor.py:1878-1905); returns at once when `Us[i] is None` -/
def OrthAns.facStep (A : OrthAns R) (m : TMode R) : TMode R :=
  match A.fac with
  | some (q, r) => m.factorOrth q r
  | Option.none => m

/-- one `left_orthogonalize(i)` on the pair (mode `i`, mode `i+1`) (tensor.py:1922-1941) -/
def orthLeftStep (A : OrthAns R) (m n : TMode R) : TMode R × TMode R :=
  leftOrthPair A.Q A.Rm (A.facStep m) n

/-- one `right_orthogonalize(i)` on the pair (mode `i-1`, mode `i`) (tensor.py:1958-1988) -/
def orthRightStep (A : OrthAns R) (p m : TMode R) : TMode R × TMode R :=
  rightOrthPair A.Q A.Rm p (A.facStep m)

/-- `for i in range(mu): self.left_orthogonalize(i)` (tensor.py:2012-2013): one answer per visited mode, in call order;
    the loop runs as long as there are answers (`mu` of them) and a right neighbour -/
def orthLeftPart : List (OrthAns R) → Tensor R → Tensor R
  | A :: as, m :: n :: rest => (orthLeftStep A m n).1 :: orthLeftPart as ((orthLeftStep A m n).2 :: rest)
  | _, t => t

/-- `for i in range(N-1, mu, -1): self.right_orthogonalize(i)` (tensor.py:2014-2015) on the suffix `cores[mu:]`;
    the answers are listed by POSITION here (the one of mode `mu+1` first), i.e. the recursion reaches the end of the
    chain first and performs the steps on the way back, as the loop does -/
def orthRightPart : List (OrthAns R) → Tensor R → Tensor R
  | A :: as, p :: m :: rest =>
    match orthRightPart as (m :: rest) with
    | m' :: rest' => (orthRightStep A p m').1 :: (orthRightStep A p m').2 :: rest'
    | [] => [p]
  | _, t => t

/-- `Tensor.orthogonalize(mu)` for `0 ≤ mu < N` (tensor.py:1990-2016).  `asL` = answers of the `mu` left steps in call
    order (modes `0 … mu-1`), `asR` = answers of the `N-1-mu` right steps in call order (modes `N-1 … mu+1`). -/
def Tensor.orthFull (mu : Nat) (asL asR : List (OrthAns R)) (t : Tensor R) : Tensor R :=
  let t1 := cpToTTAll t
  let t2 := orthLeftPart (asL.take mu) t1
  t2.take mu ++ orthRightPart asR.reverse (t2.drop mu)

/-- the `mu` argument as Python passes it: `if mu < 0: mu += self.dim()`; out-of-range values hit the `assert`s of
    `left_orthogonalize` / `right_orthogonalize` (`none` here) -/
def Tensor.orthFullInt (mu : Int) (asL asR : List (OrthAns R)) (t : Tensor R) : Option (Tensor R) :=
  let mu' := if mu < 0 then mu + t.length else mu
  if 0 ≤ mu' ∧ mu' < t.length then some (t.orthFull mu'.toNat asL asR) else Option.none

end
end TN
