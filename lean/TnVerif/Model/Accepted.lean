import TnVerif.Model.Tensor
import TnVerif.Model.Format
/-
  `accepted_inputs(t)` (automata.py:84-129): depth-first enumeration of the strings accepted by a
  weighted automaton (= the indices of the non-zero entries of a non-negative integer tensor, each
  repeated as many times as its value), with pruning by pre-computed right-product chains and rounding
  of the counts.

  The rounding `per_point.double().round()` … `.long()` (and Python's `round(...)` of the total) is the
  parameter `toNat : R → Nat`.  (Counts are modelled as naturals: a negative count is outside this
  model — see REPORT.md.)

  Two models of the recursion are given:
  * `acceptedArr`  — array level: the exact writes `Xs[bound + c[i] : bound + c[i+1], mu] = i` into the
                     output matrix with the code's `bound` / `c` bookkeeping;
  * `acceptedList` — list level: the block of rows of every symbol, of height `per_point[i]` (the number
                     of rows the code reserves), filled with what the sub-recursion produces.
-/
namespace TN
variable {R : Type}

/-- the output matrix `Xs`, given as a function row → column → entry (wrapped in a structure so that the
    compiled driver runs every call of the recursion once) -/
structure NatMat where
  get : Nat → Nat → Nat

/-- `Xs[lo:hi, mu] = i` (automata.py:114).
    (Torch clamps the slice at the number of rows; rows beyond it are never read back.) -/
def writeCol (X : NatMat) (lo hi mu i : Nat) : NatMat :=
  ⟨fun r c => if lo ≤ r ∧ r < hi ∧ c = mu then i else X.get r c⟩

/-- a block of `p` reserved rows (of the zero-initialised `Xs`, automata.py:123) of which the first
    `sub.length` are filled with the rows `sub`; the others stay zero -/
def padRows (p width : Nat) (sub : List (List Nat)) : List (List Nat) :=
  (List.range p).map fun k => sub.getD k (List.replicate width 0)

/-- `c = cat([0], per_point.cumsum(0)).long()` (automata.py:107-109): `c[i] = Σ_{j<i} per_point[j]` -/
def cumCount (p : Nat → Nat) (i : Nat) : Nat := sumTo i p

/-- read a matrix back as `nrows` rows of `ncols` entries -/
def matRows (X : NatMat) (nrows ncols : Nat) : List (List Nat) :=
  (List.range nrows).map fun r => (List.range ncols).map fun c => X.get r c

/-- a vector (`left`, `rights[mu]`), given as a function index → entry.  (A structure rather than a bare
    function so that the compiled driver evaluates a vector once, when it is built.) -/
structure Vec (R : Type) where
  get : Nat → R

/-- tabulate the first `n` entries of a vector into an array.  Semantically the identity
    (`Vec.tab_get` in `Lemmas/Accepted`): it only makes the compiled driver evaluate every entry of the
    vectors `left` and `rights[mu]` once, as the code does, instead of re-evaluating nested closures. -/
def Vec.tab (n : Nat) (f : Nat → R) : Vec R :=
  let arr : Array R := Array.ofFn (n := n) fun k => f k.val
  ⟨fun a => if h : a < n then arr[a]'(by simp [arr]; exact h) else f a⟩

section
variable [Zero R] [One R] [Add R] [Mul R]

/-- `torch.ones(1)` (automata.py:124, 128) -/
def Vec.ones : Vec R := ⟨fun _ => 1⟩

/-- `torch.sum(core, dim=1)` (automata.py:126) -/
def Core.sumMat (c : Core R) (a b : Nat) : R := sumTo c.spatial fun i => c.get a i b

/-- `torch.matmul(torch.sum(core, dim=1), rights[-1])` (automata.py:126) -/
def Core.rightStep (c : Core R) (r : Vec R) : Vec R :=
  Vec.tab c.rl fun a => sumTo c.rr fun b => c.sumMat a b * r.get b

/-- the pre-computed right-product chains (automata.py:124-127), already reversed:
    `rightsList cores[mu:] = [rights[mu], …, rights[N]]`, with `rights[N] = ones(1)`; each step
    multiplies the mode-summed core into the last vector appended so far -/
def rightsList : Tensor R → List (Vec R)
  | [] => [Vec.ones]
  | m :: ms =>
    let rs := rightsList ms
    m.core.rightStep (rs.headD Vec.ones) :: rs

/-- `fiber = einsum('ijk,k->ij', cores[mu], rights[mu+1])` (automata.py:103) -/
def Core.fiber (c : Core R) (r : Vec R) (a i : Nat) : R := sumTo c.rr fun k => c.get a i k * r.get k

/-- `per_point = matmul(left, fiber).double().round()` (automata.py:105), entry `i` -/
def perPoint (toNat : R → Nat) (c : Core R) (left r : Vec R) (i : Nat) : Nat :=
  toNat (sumTo c.rl fun a => left.get a * c.fiber r a i)

/-- `torch.matmul(left, cores[mu][..., i, :])` (automata.py:117) -/
def Core.leftStep (c : Core R) (left : Vec R) (i : Nat) : Vec R :=
  Vec.tab c.rr fun b => sumTo c.rl fun a => left.get a * c.get a i b

/-- **list-level model** of `recursion` (automata.py:97-121).  Arguments: the cores `cores[mu:]`, the
    vectors `rights[mu+1:]`, and `left`.  Returns the rows the call fills in (columns `mu…N-1`), in
    order: for every symbol `i` in increasing order whose count is non-zero, a block of
    `per_point[i]` rows that start with `i` and continue with the rows the sub-recursion fills in
    (the reserved rows it does not fill keep their zeros).  At `mu = N` nothing is written. -/
def acceptedList (toNat : R → Nat) : Tensor R → List (Vec R) → Vec R → List (List Nat)
  | m :: ms, r :: rs, left =>
    (List.range m.core.spatial).flatMap fun i =>
      let p := perPoint toNat m.core left r i
      if p = 0 then [] else
        (padRows p ms.length (acceptedList toNat ms rs (m.core.leftStep left i))).map (i :: ·)
  | _, _, _ => []

/-- **array-level model** of `recursion(Xs, left, rights, bound, mu)` (automata.py:97-121): the matrix
    `Xs` after the call.  The loop over the symbols is a left fold that threads the matrix; symbol `i`
    is skipped when `c[i] = c[i+1]`, else column `mu` of rows `bound + c[i] … bound + c[i+1] - 1` is
    set to `i` and the recursion continues with `left @ core[:, i, :]`, `bound + c[i]`, `mu + 1`. -/
def acceptedArr (toNat : R → Nat) : Tensor R → List (Vec R) → Vec R → Nat → Nat → NatMat → NatMat
  | m :: ms, r :: rs, left, bound, mu, X =>
    (List.range m.core.spatial).foldl (fun X i =>
      let c := cumCount (perPoint toNat m.core left r)
      if c i = c (i + 1) then X else
        acceptedArr toNat ms rs (m.core.leftStep left i) (bound + c i) (mu + 1)
          (writeCol X (bound + c i) (bound + c (i + 1)) mu i)) X
  | _, _, _, _, _, X => X

/-- running product of `tn.sum(t)`: the remaining 1 × r × r' cores of `tn.ttm(t, ones)` are multiplied
    into the matrix `M` left to right (`t[0, …, 0]`, tensor.py:1362-1372); the final matrix is summed -/
def sumAllGo : Tensor R → Nat → Nat → (Nat → Nat → R) → R
  | [], rows, cols, M => sumTo rows fun a => sumTo cols fun b => M a b
  | m :: ms, rows, cols, M => sumAllGo ms rows m.core.rr (fun a b => sumTo cols fun k => M a k * m.core.sumMat k b)

/-- `tn.sum(t)` of a pure-TT tensor (metrics.py:198-232): every core is contracted with a vector of
    ones along its spatial axis, the singleton modes are squeezed away -/
def sumAllTT : Tensor R → R
  | [] => 1
  | m :: ms => sumAllGo ms m.core.rl m.core.rr m.core.sumMat

/-- every core is a 3-D TT core without Tucker factor (what `t.tt()` returns) -/
def Tensor.isPureTT (t : Tensor R) : Bool := t.all fun m => m.U.isNone && !m.core.isCP

/-- the shapes `matmul(ones(1), fiber)` and `matmul(sum(core, 1), ones(1))` require: first and last TT
    rank equal to 1 (otherwise torch raises a size-mismatch error) -/
def Tensor.boundaryOne (t : Tensor R) : Bool :=
  match t, t.getLast? with
  | m :: _, some l => m.core.rl == 1 && l.core.rr == 1
  | _, _ => false

/-- `accepted_inputs(t)` (automata.py:84-129), list-level: `t.tt()`, the row count
    `round(tn.sum(t))`, the chains `rights`, the recursion from `left = ones(1)`; the result is the
    `round(tn.sum(t)) × N` zero matrix with the rows of the recursion filled in from the top.
    `none` = torch raises (boundary ranks other than 1). -/
def Tensor.acceptedInputs (toNat : R → Nat) (t : Tensor R) : Option (List (List Nat)) :=
  let t' := t.tt
  if t'.boundaryOne then
    some (padRows (toNat (sumAllTT t')) t'.length (acceptedList toNat t' (rightsList t').tail Vec.ones))
  else none

/-- `accepted_inputs(t)`, array-level: the same with the exact writes into the zero matrix `Xs` -/
def Tensor.acceptedInputsArr (toNat : R → Nat) (t : Tensor R) : Option (List (List Nat)) :=
  let t' := t.tt
  if t'.boundaryOne then
    some (matRows (acceptedArr toNat t' (rightsList t').tail Vec.ones 0 0 ⟨fun _ _ => 0⟩)
      (toNat (sumAllTT t')) t'.length)
  else none

end
end TN
