import TnVerif.Model.Basic
/-
  `Tensor.orthogonalize(N-1)` on TT cores (tensor.py: `for i in range(0, mu): self.left_orthogonalize(i)`), at the
  level of the semantic chain: each step QR-factorises the left unfolding of core `i` (kernel answer = ARGUMENT),
  stores `Q` as the new core and multiplies `R` into core `i+1`.
-/
namespace TN
variable {R : Type}

/-- answer of the QR kernel for one left unfolding (`rows = rl·n`, row index `a·n + i`) -/
structure QRAns (R : Type) where
  k : Nat
  Q : Nat → Nat → R
  Rm : Nat → Nat → R

section
variable [Zero R] [One R] [Add R] [Mul R]

def orthStep (m nx : Mode R) (A : QRAns R) : Mode R × Mode R :=
  ({ rl := m.rl, rr := A.k, n := m.n, G := fun i a b => A.Q (a * m.n + i) b },
   { rl := A.k, rr := nx.rr, n := nx.n, G := fun j c b => sumTo m.rr fun d => A.Rm c d * nx.G j d b })

/-- the left-to-right sweep: one answer per step; stops when the answers or the pairs run out -/
def leftSweep : List (Mode R) → List (QRAns R) → List (Mode R)
  | m :: nx :: rest, A :: as => (orthStep m nx A).1 :: leftSweep ((orthStep m nx A).2 :: rest) as
  | l, _ => l

end
end TN
