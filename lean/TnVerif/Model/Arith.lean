import TnVerif.Model.Tensor
/-
  `Tensor.__add__`, `__mul__`, scalar operations, `repeat`, `_broadcast`
  (tensor.py:445-803, 2254-2320), non-batch.
-/
namespace TN
variable {R : Type}

section
variable [Zero R] [One R] [Add R] [Mul R]

/-- `Tensor.repeat` on one mode: the factor's rows (if any) or else the core's spatial axis are tiled -/
def TMode.repeatN (k : Nat) (m : TMode R) : TMode R :=
  match m.U with
  | some U => { m with U := some { rows := U.rows * k, cols := U.cols, f := fun i j => U.f (i % U.rows) j } }
  | none =>
    match m.core with
    | .tt r0 s r1 f => { core := .tt r0 (s * k) r1 (fun a i b => f a (i % s) b), U := none }
    | .cp s r f => { core := .cp (s * k) r (fun i c => f (i % s) c), U := none }

/-- `Tensor.repeat(*rep)` without trailing new modes -/
def Tensor.repeatT : List Nat → Tensor R → Tensor R
  | k :: ks, m :: ms => m.repeatN k :: Tensor.repeatT ks ms
  | _, _ => []

/-- repetition count `_broadcast` uses for a broadcast-compatible pair of sizes -/
def bcRep (s1 s2 : Nat) : Nat := if s1 = s2 then 1 else if s1 = 1 then s2 else 1

/-- size-1 broadcast compatibility of two shapes -/
def bcOK : List Nat → List Nat → Bool
  | [], [] => true
  | a :: as, b :: bs => (a == b || a == 1 || b == 1) && bcOK as bs
  | _, _ => false

/-- `_broadcast(a, b)` -/
def broadcast (t u : Tensor R) : Tensor R × Tensor R :=
  if t.shape = u.shape then (t, u)
  else (t.repeatT (List.zipWith bcRep t.shape u.shape), u.repeatT (List.zipWith bcRep u.shape t.shape))

/-- `torch.cat((U1, U2), dim=1)` -/
def Fac.hcat (U1 U2 : Fac R) : Fac R :=
  { rows := U1.rows, cols := U1.cols + U2.cols,
    f := fun i j => if j < U1.cols then U1.f i j else U2.f i (j - U1.cols) }

/-- `einsum('ij,ik->ijk', U1, U2).reshape(I, -1)` : row-wise Kronecker (Khatri-Rao) product -/
def Fac.krao (U1 U2 : Fac R) : Fac R :=
  { rows := U1.rows, cols := U1.cols * U2.cols,
    f := fun i j => U1.f i (j / U2.cols) * U2.f i (j % U2.cols) }

/-- `__add__`, branch "decompress spatially, then stack" (tensor.py:622-654).  Entries are written
    through `Core.get` (a CP factor read as its diagonal core), so `c.get k j k` is entry `[j,k]`
    of a CP factor. -/
def addPlain (x y : TMode R) : TMode R :=
  let d1 := x.decomp; let d2 := y.decomp
  if x.core.isCP && y.core.isCP then
    { core := .cp d1.spatial (d1.rr + d2.rr) (fun j k =>
        if k < d1.rr then d1.get k j k else d2.get (k - d1.rr) j (k - d1.rr)), U := none }
  else
    { core := .tt (d1.rl + d2.rl) d1.spatial (d1.rr + d2.rr) (fun a j b =>
        if a < d1.rl then (if b < d1.rr then d1.get a j b else 0)
        else (if b < d1.rr then 0 else d2.get (a - d1.rl) j (b - d1.rr))),
      U := none }

/-- `__add__`, branch "both operands carry a factor" (tensor.py:515-620): 3-way block layout,
    factors concatenated side by side -/
def addFac (c1 c2 : Core R) (U1 U2 : Fac R) : TMode R :=
  let U : Fac R := U1.hcat U2
  if c1.isCP && c2.isCP then
    { core := .cp (c1.spatial + c2.spatial) (c1.rr + c2.rr) (fun j k =>
        if j < c1.spatial then (if k < c1.rr then c1.get k j k else 0)
        else (if k < c1.rr then 0 else c2.get (k - c1.rr) (j - c1.spatial) (k - c1.rr))), U := some U }
  else
    { core := .tt (c1.rl + c2.rl) (c1.spatial + c2.spatial) (c1.rr + c2.rr) (fun a j b =>
        if j < c1.spatial then (if a < c1.rl then (if b < c1.rr then c1.get a j b else 0) else 0)
        else (if a < c1.rl then 0 else (if b < c1.rr then 0 else c2.get (a - c1.rl) (j - c1.spatial) (b - c1.rr)))),
      U := some U }

/-- one mode of `__add__` (before the boundary collapse) -/
def addMode (x y : TMode R) : TMode R :=
  match x.U, y.U with
  | some U1, some U2 => addFac x.core y.core U1 U2
  | _, _ => addPlain x y

/-- `core.sum(dim=0, keepdim=True)` for a TT core; CP cores are left alone -/
def Core.sumL : Core R → Core R
  | .tt r0 s r1 f => .tt 1 s r1 (fun _ j b => sumTo r0 fun a => f a j b)
  | c => c
/-- `core.sum(dim=2, keepdim=True)` for a TT core; CP cores are left alone -/
def Core.sumR : Core R → Core R
  | .tt r0 s r1 f => .tt r0 s 1 (fun a j _ => sumTo r1 fun b => f a j b)
  | c => c

def Tensor.collapseFirst : Tensor R → Tensor R
  | [] => []
  | m :: ms => { m with core := m.core.sumL } :: ms

def Tensor.collapseLast : Tensor R → Tensor R
  | [] => []
  | [m] => [{ m with core := m.core.sumR }]
  | m :: ms => m :: Tensor.collapseLast ms

/-- `a + b` for two compressed tensors of broadcast-compatible shapes -/
def Tensor.add (t u : Tensor R) : Tensor R :=
  let (t', u') := broadcast t u
  Tensor.collapseLast (Tensor.collapseFirst (List.zipWith addMode t' u'))

/-- `core.shape[1]` : the spatial size of a TT core, but the *rank* of a CP factor
    (`__mul__` uses it in its "would it blow up" test, tensor.py:741) -/
def Core.shape1 : Core R → Nat
  | .tt _ s _ _ => s
  | .cp _ r _ => r

/-- `__mul__`, branch "decompress spatially, then slice-wise Kronecker product" (`_core_kron`) -/
def mulPlain (x y : TMode R) : TMode R :=
  let d1 := x.decomp; let d2 := y.decomp
  if x.core.isCP && y.core.isCP then
    { core := .cp d1.spatial (d1.rr * d2.rr) (fun j k =>
        d1.get (k / d2.rr) j (k / d2.rr) * d2.get (k % d2.rr) j (k % d2.rr)), U := none }
  else
    { core := .tt (d1.rl * d2.rl) d1.spatial (d1.rr * d2.rr) (fun a j b =>
        d1.get (a / d2.rl) j (b / d2.rr) * d2.get (a % d2.rl) j (b % d2.rr)), U := none }

/-- `__mul__`, branch "product on the three axes" (tensor.py:751-759); the new factor is the
    row-wise Kronecker (Khatri-Rao) product of the factors -/
def mulFac (c1 c2 : Core R) (U1 U2 : Fac R) : TMode R :=
  let U : Fac R := U1.krao U2
  if c1.isCP && c2.isCP then
    { core := .cp (c1.spatial * c2.spatial) (c1.rr * c2.rr) (fun j k =>
        c1.get (k / c2.rr) (j / c2.spatial) (k / c2.rr) * c2.get (k % c2.rr) (j % c2.spatial) (k % c2.rr)),
      U := some U }
  else
    { core := .tt (c1.rl * c2.rl) (c1.spatial * c2.spatial) (c1.rr * c2.rr) (fun a j b =>
        c1.get (a / c2.rl) (j / c2.spatial) (b / c2.rr) * c2.get (a % c2.rl) (j % c2.spatial) (b % c2.rr)),
      U := some U }

/-- one mode of `__mul__` -/
def mulMode (x y : TMode R) : TMode R :=
  match x.U, y.U with
  | some U1, some U2 =>
    if x.core.shape1 * y.core.shape1 < U1.rows then mulFac x.core y.core U1 U2 else mulPlain x y
  | _, _ => mulPlain x y

/-- `a * b` for two compressed tensors -/
def Tensor.mul (t u : Tensor R) : Tensor R :=
  let (t', u') := broadcast t u
  List.zipWith mulMode t' u'

/-- multiply all entries of a core by a scalar -/
def Core.scale (c : R) : Core R → Core R
  | .tt r0 s r1 f => .tt r0 s r1 (fun a j b => c * f a j b)
  | .cp s r f => .cp s r (fun j k => c * f j k)

def TMode.scale (c : R) (m : TMode R) : TMode R := { m with core := m.core.scale c }

/-- `t * scalar` (tensor.py:689-697): every core is multiplied by `ρ = |c|^(1/N)` (an argument:
    §2.4, contract `ρ^N = |c|`), the first one additionally by `sign c`. -/
def Tensor.scalarMul (ρ sgn : R) : Tensor R → Tensor R
  | [] => []
  | m :: ms => (m.scale ρ).scale sgn :: ms.map (TMode.scale ρ)

/-- the constant tensor `__add__` builds for a scalar operand: ones cores, first one times `c` -/
def Tensor.constLike (c : R) (shape : List Nat) : Tensor R :=
  match shape with
  | [] => []
  | s :: ss => { core := .tt 1 s 1 (fun _ _ _ => c), U := none } ::
              ss.map (fun s => { core := .tt 1 s 1 (fun _ _ _ => 1), U := none })

/-- `t + scalar` -/
def Tensor.scalarAdd (c : R) (t : Tensor R) : Tensor R := t.add (Tensor.constLike c t.shape)

/-- `-t = -1 * t` : `|−1|^(1/N) = 1`, sign `−1` -/
def Tensor.neg [Neg R] (t : Tensor R) : Tensor R := t.scalarMul 1 (-1)
/-- `a - b = a + -1 * b` (tensor.py:676-678) -/
def Tensor.sub [Neg R] (t u : Tensor R) : Tensor R := t.add u.neg

end

end TN
