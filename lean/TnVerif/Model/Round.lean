/-
  Rank selection of `truncated_svd` (round.py:147-158) and the error-budget split of `Tensor.round`
  (tensor.py:2085-2098).  Pure decision logic on the list of squared singular values (descending);
  the SVD itself is a kernel whose answer is the argument `S`.
-/
namespace TN
variable {R : Type}

section
variable [Zero R] [Add R] [LE R] [DecidableRel (α := R) (· ≤ ·)]

/-- sum of the entries from position `r` on (the discarded tail at rank `r`) -/
def tailSum : List R → Nat → R
  | [], _ => 0
  | x :: xs, 0 => x + tailSum xs 0
  | _ :: xs, r + 1 => tailSum xs r

/-- least `r ≤ len` whose discarded tail is within the budget `δ²`, scanning `r = 0, 1, …`
    (`torch.where(cumsum(S[reverse]) <= delta**2)`: the largest discardable suffix) -/
def leastRank (S : List R) (d2 : R) : Nat → Nat → Nat
  | 0, r => r
  | fuel + 1, r => if tailSum S r ≤ d2 then r else leastRank S d2 fuel (r + 1)

/-- `rank = max(1, min(rmax, len(S) - 1 - where[-1]))`, resp. `max(1, min(rmax, len(S)))` when nothing can be discarded -/
def rankSelect (S : List R) (d2 : R) (rmax : Nat) : Nat :=
  max 1 (min rmax (leastRank S d2 S.length 0))

end
end TN
