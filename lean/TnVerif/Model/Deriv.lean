import TnVerif.Model.Tools
/-
  Finite differences (derivatives.py): `partial` applies, along the chosen mode, the central-difference
  stencil with linearly extrapolated (or periodic) boundary, divided by that mode's own step.
-/
namespace TN
variable {R : Type}

section
variable [Zero R] [One R] [Add R] [Mul R] [Neg R]

/-- stencil matrix of one central difference on `n` points, times `c = 1/step`:
    interior rows `(x_{i+1} − x_{i−1})·c`, linearly extrapolated ends `2(x_1 − x_0)·c`, `2(x_{n−1} − x_{n−2})·c` (`n ≥ 2`; zero for `n = 1`);
    periodic: indices wrap around -/
def stencilL (n : Nat) (c : R) (periodic : Bool) : Nat → Nat → R := fun i j =>
  if periodic then
    (if j = (i + 1) % n then c else 0) + (if j = (i + n - 1) % n then -c else 0)
  else if n = 1 then 0        -- a single point: the padded fibre is `[x0, x0, x0]`, both extrapolations add 0, the difference is 0
  else if i = 0 then
    (if j = 1 then c + c else 0) + (if j = 0 then -(c + c) else 0)
  else if i + 1 = n then
    (if j = i then c + c else 0) + (if j + 1 = i then -(c + c) else 0)
  else
    (if j = i + 1 then c else 0) + (if j + 1 = i then -c else 0)

/-- `tn.partial(t, dim=d, order=1)` with `c = 1/step`, `step = (b1 − b0)/(I_d + 1)·2` -/
def Tensor.partial1 (t : Tensor R) (d : Nat) (c : R) (periodic : Bool) : Tensor R :=
  t.linModes ((List.range t.length).map fun k =>
    if k = d then some (t.shape.getD d 0, stencilL (t.shape.getD d 0) c periodic) else Option.none)

/-- `tn.partial(t, dim=d, order=k)` : the stencil is applied `k` times -/
def Tensor.partialN (t : Tensor R) (d : Nat) (c : R) (periodic : Bool) : Nat → Tensor R
  | 0 => t
  | k + 1 => (Tensor.partialN t d c periodic k).partial1 d c periodic

end
end TN
