import TnVerif.Model.Tensor
import TnVerif.Model.Arith
/-
  `Tensor._process_key` and `Tensor.__getitem__` (tensor.py:1019-1434), non-batch.
  Output-faithful model of the indexing state machine: per key entry the same cores and factors
  are produced, entry for entry.
-/
namespace TN
variable {R : Type}

inductive IdxErr where
  | outOfRange | tooMany | twoEllipsis | runBroken | lenMismatch | badStep
  deriving Repr, DecidableEq

/-- a key entry as the user writes it -/
inductive RawItem where
  | int (k : Int)
  | slice (start stop step : Option Int)
  | none
  | ellipsis
  | arr (l : List Int)

/-- a key entry after `_process_key` and bounds normalisation against its mode size -/
inductive Item where
  | int (k : Nat)                          -- normalised, in range
  | slice (start step count : Nat)         -- selects start + j*step for j < count
  | none
  | arr (l : List Nat)                     -- normalised, in range

def sliceAll : RawItem := .slice Option.none Option.none Option.none

def RawItem.isNone : RawItem → Bool | .none => true | _ => false
def RawItem.isEllipsis : RawItem → Bool | .ellipsis => true | _ => false

/-- `_process_key`: expand the first Ellipsis, reject a second one, reject too many entries, pad with `:` -/
def processKey (N : Nat) (key : List RawItem) : Except IdxErr (List RawItem) :=
  let nonecount := (key.filter RawItem.isNone).length
  let rec expand : List RawItem → List RawItem
    | [] => []
    | .ellipsis :: rest => List.replicate (N + 1 - (key.length - nonecount)) sliceAll ++ rest
    | x :: rest => x :: expand rest
  let key1 := expand key
  if key1.any RawItem.isEllipsis then .error .twoEllipsis
  else if N < key1.length - nonecount then .error .tooMany
  else .ok (key1 ++ List.replicate (N - (key1.length - nonecount)) sliceAll)

/-- Python's `slice.indices(n)` for a positive step -/
def normSlice (start stop step : Option Int) (n : Nat) : Except IdxErr (Nat × Nat × Nat) :=
  let st : Int := step.getD 1
  if st ≤ 0 then .error .badStep else
  let clip (v : Int) : Nat := if v < 0 then (max (v + n) 0).toNat else min v.toNat n
  let a : Nat := match start with | Option.none => 0 | some v => clip v
  let b : Nat := match stop with | Option.none => n | some v => clip v
  let s := st.toNat
  .ok (a, s, if a < b then (b - a + s - 1) / s else 0)

def normInt (k : Int) (n : Nat) : Except IdxErr Nat :=
  let k' := if k < 0 then k + n else k
  if 0 ≤ k' ∧ k' < n then .ok k'.toNat else .error .outOfRange

/-- pending factor left by integer entries: a vector (CP / diagonal) or a matrix -/
inductive PInt (R : Type) where
  | vec (n : Nat) (f : Nat → R)
  | mat (r c : Nat) (f : Nat → Nat → R)

section
variable [Zero R] [One R] [Add R] [Mul R]

/-- `get_key(counter, int)` -/
def getInt (m : TMode R) (k : Nat) : PInt R :=
  match m.decomp with
  | .tt r0 _ r1 f => .mat r0 r1 (fun a b => f a k b)
  | .cp _ r f => .vec r (fun a => f k a)

/-- `get_key(counter, index array)` : a core whose spatial axis enumerates the zipped positions -/
def getArr (m : TMode R) (l : List Nat) : Core R :=
  match m.decomp with
  | .tt r0 _ r1 f => .tt r0 l.length r1 (fun a p b => f a (l.getD p 0) b)
  | .cp _ r f => .cp l.length r (fun p a => f (l.getD p 0) a)

/-- two successive integer entries (tensor.py:1362-1372) -/
def PInt.comb : PInt R → PInt R → PInt R
  | .vec n f, .vec _ g => .vec n (fun a => f a * g a)
  | .vec _ f, .mat r c g => .mat r c (fun a b => f a * g a b)
  | .mat r c f, .vec _ g => .mat r c (fun a b => f a b * g b)
  | .mat r c f, .mat _ c' g => .mat r c' (fun a b => sumTo c fun j => f a j * g j b)

/-- `join_cores(c1, c2)` (tensor.py:1110-1132): pending integer factor times the next core -/
def joinCores : PInt R → Core R → Core R
  | .vec _ v, .cp s r f => .cp s r (fun j a => v a * f j a)
  | .mat r c M, .cp s _ f => .tt r s c (fun a j b => M a b * f j b)
  | .vec _ v, .tt r0 s r1 f => .tt r0 s r1 (fun a j b => v a * f a j b)
  | .mat r c M, .tt _ s r1 f => .tt r s r1 (fun a j b => sumTo c fun k => M a k * f k j b)

/-- two successive index arrays (tensor.py:1324-1331) -/
def combArr : Core R → Core R → Core R
  | .cp p r f, .cp _ _ g => .cp p r (fun q a => f q a * g q a)
  | .cp p r f, .tt _ _ r1 g => .tt r p r1 (fun i q j => f q i * g i q j)
  | .tt r0 p r1 f, .cp _ _ g => .tt r0 p r1 (fun i q j => f i q j * g q j)
  | .tt r0 p r1 f, .tt _ _ r1' g => .tt r0 p r1' (fun i q k => sumTo r1 fun j => f i q j * g j q k)

/-- trailing integer factor absorbed into the last emitted core (tensor.py:1403-1418) -/
def absorbLast : Core R → PInt R → Core R
  | .cp s r f, .vec _ v => .cp s r (fun j a => f j a * v a)
  | .cp s r f, .mat _ c M => .tt r s c (fun i j k => f j i * M i k)
  | .tt r0 s r1 f, .vec _ v => .cp s r0 (fun j i => sumTo r1 fun k => f i j k * v k)
  | .tt r0 s r1 f, .mat _ c M => .tt r0 s c (fun i j k => sumTo r1 fun l => f i j l * M l k)

/-- `core[..., slice, :]` -/
def Core.slice (start step count : Nat) : Core R → Core R
  | .tt r0 _ r1 f => .tt r0 count r1 (fun a j b => f a (start + j * step) b)
  | .cp _ r f => .cp count r (fun j a => f (start + j * step) a)

def Fac.slice (start step count : Nat) (U : Fac R) : Fac R :=
  { rows := count, cols := U.cols, f := fun i j => U.f (start + i * step) j }

/-- the mode a slice entry emits (before any join): slice the factor if there is one, else the core -/
def TMode.slice (start step count : Nat) (m : TMode R) : TMode R :=
  match m.U with
  | some U => { core := m.core, U := some (U.slice start step count) }
  | Option.none => { core := m.core.slice start step count, U := Option.none }

/-- the identity core a `None` entry inserts: `eye(r)[:, None, :]` -/
def eyeCore (r : Nat) : TMode R := { core := .tt r 1 r (fun a _ b => if a = b then 1 else 0), U := Option.none }

/-- key entries with the contiguous run of index arrays grouped into one item -/
inductive GItem where
  | int (k : Nat)
  | slice (start step count : Nat)
  | none
  | run (ls : List (List Nat))

def groupKey : List Item → List GItem
  | [] => []
  | .int k :: ks => .int k :: groupKey ks
  | .slice a s c :: ks => .slice a s c :: groupKey ks
  | .none :: ks => .none :: groupKey ks
  | .arr l :: ks =>
    match groupKey ks with
    | .run ls :: r => .run (l :: ls) :: r
    | r => .run [l] :: r

/-- left TT rank of the next unprocessed mode (`ranks_tt[counter]`) -/
def nextRank (rest : Tensor R) (lastRR : Nat) : Nat :=
  match rest with
  | m :: _ => m.core.rl
  | [] => lastRR

def PInt.combOpt : Option (PInt R) → PInt R → PInt R
  | some q, p => q.comb p
  | Option.none, p => p

def joinOpt : Option (PInt R) → TMode R → TMode R
  | some p, m => { m with core := joinCores p m.core }
  | Option.none, m => m

/-- emit a mode in front of an already processed suffix; a trailing integer factor left by the
    suffix is absorbed into this mode if it is the last one emitted (tensor.py:1379-1418) -/
def emitJoin (p : Option (PInt R)) (m : TMode R) (r : List (TMode R) × Option (PInt R)) :
    List (TMode R) × Option (PInt R) :=
  let m' := joinOpt p m
  match r with
  | ([], some q) => ([{ m' with core := absorbLast m'.core q }], Option.none)
  | (l, _) => (m' :: l, Option.none)

/-- the index core of a run: `get_key` of the first array, then `combArr` with each following one -/
def runCore (c : Core R) : List (List Nat) → Tensor R → Except IdxErr (Core R × Tensor R)
  | [], rest => .ok (c, rest)
  | l :: ls, m :: rest =>
    if c.spatial ≠ l.length then .error .lenMismatch else runCore (combArr c (getArr m l)) ls rest
  | _ :: _, [] => .error .tooMany

/-- the indexing state machine, written as a recursion over the (grouped) key: `p` is the pending
    integer factor (`factors["int"]`), `done` is `factors["index_done"]`.  Returns the emitted modes
    and, if no mode was emitted, the pending integer factor. -/
def goKey (lastRR : Nat) : Bool → Option (PInt R) → List GItem → Tensor R →
    Except IdxErr (List (TMode R) × Option (PInt R))
  | _, p, [], _ => .ok ([], p)
  | d, p, .int k :: ks, m :: rest => goKey lastRR d (some (PInt.combOpt p (getInt m k))) ks rest
  | d, p, .slice a s c :: ks, m :: rest => do
      let r ← goKey lastRR d Option.none ks rest
      pure (emitJoin p (m.slice a s c) r)
  | d, p, .none :: ks, rest => do
      let r ← goKey lastRR d Option.none ks rest
      pure (emitJoin p (eyeCore (nextRank rest lastRR)) r)
  | d, p, .run (l :: ls) :: ks, m :: rest =>
      if d then .error .runBroken else do
        let (c, rest') ← runCore (getArr m l) ls rest
        let r ← goKey lastRR true Option.none ks rest'
        pure (emitJoin p { core := c, U := Option.none } r)
  | _, _, .run [] :: _, _ => .error .runBroken
  | _, _, _ :: _, [] => .error .tooMany

/-- bounds normalisation of the processed key against the mode sizes -/
def normKey : List RawItem → List Nat → Except IdxErr (List Item)
  | [], _ => .ok []
  | .none :: ks, sh => do let r ← normKey ks sh; pure (.none :: r)
  | .int k :: ks, n :: sh => do let k' ← normInt k n; let r ← normKey ks sh; pure (.int k' :: r)
  | .slice a b s :: ks, n :: sh => do
      let (a', s', c) ← normSlice a b s n
      let r ← normKey ks sh
      pure (.slice a' s' c :: r)
  | .arr l :: ks, n :: sh => do
      let l' ← l.mapM (fun k => normInt k n)
      let r ← normKey ks sh
      pure (.arr l' :: r)
  | .ellipsis :: _, _ => .error .twoEllipsis
  | _ :: _, [] => .error .tooMany

def PInt.total : PInt R → R
  | .vec n f => sumTo n f
  | .mat r c f => sumTo r fun a => sumTo c fun b => f a b

/-- `t[key]` : a tensor, or a plain scalar when every mode is indexed by an integer -/
def Tensor.getitem (t : Tensor R) (key : List RawItem) : Except IdxErr (Tensor R ⊕ R) := do
  let key1 ← processKey t.length key
  let items ← normKey key1 t.shape
  let lastRR := match t.getLast? with | some m => m.core.rr | Option.none => 1
  let r ← goKey lastRR false Option.none (groupKey items) t
  match r with
  | ([], some p) => pure (.inr p.total)
  | (l, _) => pure (.inl l)

end
end TN
