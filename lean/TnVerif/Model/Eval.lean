import TnVerif.Model.Tensor
/-
  Execution support (DESIGN §2.6): evaluation through functions that return *data*
  (`Array R`), and re-materialisation of cores into array-backed closures.  Both are
  extensionally the identity / equal to the semantic definitions (see Lemmas/Eval).
-/
namespace TN
variable {R : Type}

section
variable [Zero R] [One R] [Add R] [Mul R]

/-- `tail` for all left indices at once, as an array of length `m.rl` (or `p` for the empty chain) -/
def tailA : List (Mode R) → List Nat → Nat → Array R
  | [], _, p => Array.ofFn (n := p) fun _ => 1
  | m :: ms, i :: is, _ =>
      let v := tailA ms is m.rr
      Array.ofFn (n := m.rl) fun a => sumTo m.rr fun b => m.G i a.val b * v.getD b 0
  | _ :: _, [], p => Array.ofFn (n := p) fun _ => 0

def denseA (ms : List (Mode R)) (is : List Nat) : R :=
  match ms with
  | [] => 1
  | m :: _ => let v := tailA ms is m.rl; sumTo m.rl (fun a => v.getD a 0)

/-- all index lists of a box, row-major -/
def allIdx : List Nat → List (List Nat)
  | [] => [[]]
  | n :: ns => (List.range n).flatMap fun i => (allIdx ns).map (i :: ·)

def Tensor.denseAll (t : Tensor R) : List R :=
  let ms := t.modes
  (allIdx t.shape).map fun idx => denseA ms idx

/-- the entries of a 3-index function on a box, row-major, as DATA -/
def tab3 (d1 d2 d3 : Nat) (f : Nat → Nat → Nat → R) : Array R :=
  Array.ofFn (n := d1 * d2 * d3) fun k => f (k.val / (d2 * d3)) (k.val / d3 % d2) (k.val % d3)

def tab2 (d1 d2 : Nat) (f : Nat → Nat → R) : Array R :=
  Array.ofFn (n := d1 * d2) fun k => f (k.val / d2) (k.val % d2)

/-- re-materialise a core into an array-backed closure (identity in range).  The array is bound by a `let` in front of the
    CONSTRUCTOR, so it is computed once and captured by the closure (a definition that returns a function would be eta-expanded
    by the compiler and rebuild the array on every call). -/
def Core.memo : Core R → Core R
  | .tt r0 s r1 f =>
    let arr := tab3 r0 s r1 f
    .tt r0 s r1 (fun a j b => if a < r0 ∧ j < s ∧ b < r1 then arr.getD ((a * s + j) * r1 + b) 0 else f a j b)
  | .cp s r f =>
    let arr := tab2 s r f
    .cp s r (fun a b => if a < s ∧ b < r then arr.getD (a * r + b) 0 else f a b)

def Fac.memo (U : Fac R) : Fac R :=
  let arr := tab2 U.rows U.cols U.f
  { U with f := fun a b => if a < U.rows ∧ b < U.cols then arr.getD (a * U.cols + b) 0 else U.f a b }

def TMode.memo (m : TMode R) : TMode R := { core := m.core.memo, U := m.U.map Fac.memo }

def Tensor.memo (t : Tensor R) : Tensor R := t.map TMode.memo
end
end TN
