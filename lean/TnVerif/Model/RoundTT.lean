import TnVerif.Model.Basic
import TnVerif.Model.Round
/-
  The truncation sweep of `Tensor.round_tt` (tensor.py, `for mu in range(N - 1, 0, -1)`) on the chain of
  cores, written on the REVERSED chain (`cur :: p :: rest` = cores `mu, mu-1, …, 0`), for
  `algorithm='svd'`, `left_ortho=False`:

      M            = right_unfolding(cores[mu])                   -- rows a, columns (i, β)
      U, S, Vh     = torch.linalg.svd(M)                          -- kernel answer, an ARGUMENT here
      r            = rankSelect(S², δ², rmax)                      -- Model/Round
      cores[mu]    = Vh[:r].reshape(r, s, r1)
      cores[mu-1]  = einsum('ijk,kl', cores[mu-1], U[:, :r] * S[:r])

  `δ² = eps²·‖cores[-1]‖² / max(1, N-1)` is computed once before the sweep.
  The special case `S[0] < 1e-13` (zero matrix → rank-1 zero factors) is modelled by `stepAns`.
-/
namespace TN
variable {R : Type}

/-- the answer of the SVD kernel for one right unfolding -/
structure SVDAns (R : Type) where
  n : Nat
  U : Nat → Nat → R
  S : Nat → R
  Vh : Nat → Nat → Nat → R

section
variable [Zero R] [One R] [Add R] [Mul R]

/-- one truncation step at rank `r`: the new core `mu-1` and the new core `mu` -/
def roundStep (p cur : Mode R) (A : SVDAns R) (r : Nat) : Mode R × Mode R :=
  ({ rl := p.rl, rr := r, n := p.n, G := fun i c k => sumTo p.rr fun a => p.G i c a * (A.U a k * A.S k) },
   { rl := r, rr := cur.rr, n := cur.n, G := fun i k b => A.Vh k i b })

/-- what `truncated_svd` does with a matrix it considers zero: rank-1 zero factors -/
def SVDAns.zeroed (A : SVDAns R) : SVDAns R := { n := A.n, U := A.U, S := fun _ => 0, Vh := fun _ _ _ => 0 }

/-- `‖cores[-1]‖²` -/
def lastNormSq (cur : Mode R) : R :=
  sumTo cur.n fun i => sumTo cur.rr fun b => sumTo cur.rl fun a => cur.G i a b * cur.G i a b

/-- `δ² = (eps / max(1, sqrt(N-1)) · ‖cores[-1]‖)²  =  eps²·‖cores[-1]‖² / max(1, N-1)` -/
def budget2 [Div R] [NatCast R] (eps : R) (cur : Mode R) (steps : Nat) : R :=
  eps * eps * lastNormSq cur / ((max 1 steps : Nat) : R)

variable [LE R] [DecidableRel (α := R) (· ≤ ·)]

/-- squared singular values as a list -/
def SVDAns.sq (A : SVDAns R) : List R := (List.range A.n).map fun l => A.S l * A.S l

/-- `if svd[1][0] < thr: <zero factors>` -/
def stepAns (thr : R) (A : SVDAns R) : SVDAns R := if thr ≤ A.S 0 then A else A.zeroed

def stepRank (thr d2 : R) (A : SVDAns R) (rmax : Nat) : Nat :=
  if thr ≤ A.S 0 then rankSelect A.sq d2 rmax else 1

/-- the whole sweep on the reversed chain; one `(answer, rmax)` per step -/
def sweepRev (thr d2 : R) : List (Mode R) → List (SVDAns R × Nat) → List (Mode R)
  | cur :: p :: rest, (A, rmax) :: as =>
      (roundStep p cur (stepAns thr A) (stepRank thr d2 A rmax)).2 ::
        sweepRev thr d2 ((roundStep p cur (stepAns thr A) (stepRank thr d2 A rmax)).1 :: rest) as
  | l, _ => l

end
end TN
