import TnVerif.Model.Tensor
import TnVerif.Model.Arith
import TnVerif.Model.Index
import TnVerif.Model.Tools
import TnVerif.Model.Ortho
/-
  `tn.cat` for any number of operands (tools.py:56-118), following the Python loop.
-/
namespace TN
variable {R : Type}

section
variable [Zero R] [One R] [Add R] [Mul R]

/-- tools.py:89-105: `core = torch.zeros(.., total, ..)` followed by
    `core[..., off : off + s, :] += old_core` (`s` = the old spatial size): rows `off ≤ i < off + s`
    receive the old rows, all others stay zero.  (`0 + x` is written `x`.) -/
def Core.embedRows (total off : Nat) : Core R → Core R
  | .tt r0 s r1 f => .tt r0 total r1 (fun a i b => if off ≤ i ∧ i < off + s then f a (i - off) b else 0)
  | .cp s r f => .cp total r (fun i k => if off ≤ i ∧ i < off + s then f (i - off) k else 0)

/-- tools.py:106-113: `U = torch.zeros(total, U.shape[-1])`, `U[off : off + rows, :] += old_U` -/
def Fac.embedRows (total off : Nat) (U : Fac R) : Fac R :=
  { rows := total, cols := U.cols, f := fun i c => if off ≤ i ∧ i < off + U.rows then U.f (i - off) c else 0 }

/-- tools.py:89-113, the body of the loop for one operand at mode `dim`: the Tucker factor is embedded if
    the mode has one (`t.Us[dim] is not None`), else the core (TT core or CP factor) -/
def TMode.embedAt (total off : Nat) (m : TMode R) : TMode R :=
  match m.U with
  | Option.none => { core := m.core.embedRows total off, U := Option.none }
  | some U => { core := m.core, U := some (U.embedRows total off) }

/-- tools.py:88-113: `t = ts[i].clone()` with mode `dim` embedded at rows `[off, off + n)` of `total` -/
def Tensor.embedDim (total off dim : Nat) (t : Tensor R) : Tensor R := t.atMode (TMode.embedAt total off) dim

/-- `t.shape[dim]` (tools.py:85) -/
def catSize (dim : Nat) (t : Tensor R) : Nat := t.shape.getD dim 0

/-- tools.py:86-117, iterations `i ≥ 1` of the loop: `result += embed(ts[i])`, the offset being the running
    sum `sumshapes[i]` of the operands' sizes along `dim` (`np.cumsum`) -/
def catGo (dim total : Nat) : Tensor R → Nat → List (Tensor R) → Tensor R
  | acc, _, [] => acc
  | acc, off, t :: ts => catGo dim total (acc.add (t.embedDim total off dim)) (off + catSize dim t) ts

/-- `tn.cat(ts, dim)` for a non-negative in-range `dim` after the guards (tools.py:68-118): a single
    operand is cloned; otherwise every operand is embedded in zeros of the TOTAL size `sumshapes[-1]` along
    `dim` at its own offset and the embedded operands are accumulated with `+` from the left. -/
def Tensor.catN (ts : List (Tensor R)) (dim : Nat) : Tensor R :=
  match ts with
  | [] => []
  | [t] => t
  | t0 :: rest =>
    let total := ((t0 :: rest).map (catSize dim)).sum
    catGo dim total (t0.embedDim total 0 dim) (catSize dim t0) rest

/-- how `tn.cat` fails: no operand (`ts[0]` → IndexError / UnboundLocalError), `dim` outside `[-N, N)`
    (`np.delete` → IndexError), an operand with a different number of modes (IndexError on `t.shape[n]`, or
    ValueError "Cannot broadcast" from `+=`), shapes that differ off `dim` (the explicit ValueError) -/
inductive CatErr where
  | empty | dimRange | modes | shape
  deriving DecidableEq, Repr

/-- `tn.cat(ts, dim)` with its guards, in the order Python evaluates them (tools.py:66-85, 117):
    1. no operand: error; one operand: `ts[0].clone()` — `dim` is not looked at;
    2. `np.delete(range(N), dim)` with `N = ts[0].dim()`: `dim` must lie in `[-N, N)` (negative = from the end);
    3. the guard reads `t.shape[n]` for every later operand and every `n < N`, `n ≠ dim`: IndexError if the operand
       has too few modes, else ValueError if any of those sizes differs from `ts[0].shape[n]`;
    4. an operand whose number of modes still differs from `N` fails later (`t.shape[dim]` or `result += t`). -/
def Tensor.cat (ts : List (Tensor R)) (dim : Int) : Except CatErr (Tensor R) :=
  match ts with
  | [] => .error .empty
  | [t] => .ok t
  | t0 :: rest =>
    match normInt dim t0.length with
    | .error _ => .error .dimRange
    | .ok d =>
      if rest.any (fun t => (List.range t0.length).any fun n => n != d && decide (t.length ≤ n)) then .error .modes
      else if rest.any (fun t => (List.range t0.length).any fun n => n != d && t.shape.getD n 0 != t0.shape.getD n 0)
        then .error .shape
      else if rest.any (fun t => t.length != t0.length) then .error .modes
      else .ok (Tensor.catN (t0 :: rest) d)

end
end TN
