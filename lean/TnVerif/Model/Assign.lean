import TnVerif.Model.Index
import TnVerif.Model.Format
/-
  `Tensor.__setitem__` / `_setitem` (non-batch):  `self - (self restricted to the region) + (value embedded in zeros)`.
-/
namespace TN
variable {R : Type}

/-- one mode of an assignment key after normalisation: selects `start + i·step`, `i < count`;
    `isInt` records that the user wrote an integer (the value has no mode there) -/
structure Sel where
  start : Nat
  step : Nat
  count : Nat
  isInt : Bool

/-- is spatial index `j` selected, and if so which position of the value does it receive -/
def Sel.mem (s : Sel) (j : Nat) : Bool :=
  decide (s.start ≤ j) && decide ((j - s.start) % s.step = 0) && decide ((j - s.start) / s.step < s.count)
def Sel.pos (s : Sel) (j : Nat) : Nat := (j - s.start) / s.step

/-- assignment keys contain integers and slices only -/
def normAKey : List Item → Except IdxErr (List Sel)
  | [] => .ok []
  | .int k :: ks => do let r ← normAKey ks; pure ({ start := k, step := 1, count := 1, isInt := true } :: r)
  | .slice a s c :: ks => do let r ← normAKey ks; pure ({ start := a, step := s, count := c, isInt := false } :: r)
  | _ :: _ => .error .runBroken

section
variable [Zero R] [One R] [Add R] [Mul R] [Neg R]

/-- `zeros_like(core)[..., key, :] = core[..., key, :]` -/
def Core.restrict (s : Sel) : Core R → Core R
  | .tt r0 n r1 f => .tt r0 n r1 (fun a j b => if s.mem j then f a j b else 0)
  | .cp n r f => .cp n r (fun j a => if s.mem j then f j a else 0)

/-- value core embedded in zeros along a mode of size `n` -/
def Core.embed (s : Sel) (n : Nat) : Core R → Core R
  | .tt r0 _ r1 f => .tt r0 n r1 (fun a j b => if s.mem j then f a (s.pos j) b else 0)
  | .cp _ r f => .cp n r (fun j a => if s.mem j then f (s.pos j) a else 0)

/-- the ones-on-the-region core a scalar assignment adds (same kind as the tensor's own core) -/
def scalarCore (s : Sel) (n : Nat) (c : R) (isCP : Bool) : Core R :=
  if isCP then .cp n 1 (fun j _ => if s.mem j then c else 0)
  else .tt 1 n 1 (fun _ j _ => if s.mem j then c else 0)

def restrictT : List Sel → Tensor R → Tensor R
  | s :: ss, m :: ms => { core := m.core.restrict s, U := Option.none } :: restrictT ss ms
  | _, _ => []

def embedT : List Sel → List Nat → Tensor R → Tensor R
  | s :: ss, n :: ns, m :: ms => { core := m.core.embed s n, U := Option.none } :: embedT ss ns ms
  | _, _, _ => []

def scalarT (c : R) : Bool → List Sel → Tensor R → Tensor R
  | first, s :: ss, m :: ms =>
      { core := scalarCore s m.n (if first then c else 1) m.core.isCP, U := Option.none } :: scalarT c false ss ms
  | _, _, _ => []

/-- the value of an assignment -/
inductive AValue (R : Type) where
  | scalar (c : R)
  | dense (shape : List Nat) (x : Nat → R)        -- row-major entries
  | tensor (v : Tensor R)

/-- `tn.unsqueeze(value, int_dims)` : a `None` entry at every integer position of the key -/
def unsqueezeKey : List Sel → List RawItem
  | [] => []
  | s :: ss => (if s.isInt then RawItem.none else sliceAll) :: unsqueezeKey ss

def selShape : List Sel → List Nat
  | [] => []
  | s :: ss => if s.isInt then selShape ss else s.count :: selShape ss

/-- `t[key] = value` -/
def Tensor.setitem (t : Tensor R) (key : List RawItem) (value : AValue R) : Except IdxErr (Tensor R) := do
  let key1 ← processKey t.length key
  let items ← normKey key1 t.shape
  let sels ← normAKey items
  let full := sels.map (·.count)
  -- shape check of the value happens before anything is touched
  match value with
  | .dense sh _ => if sh ≠ selShape sels then throw .lenMismatch
  | .tensor v => if v.shape ≠ selShape sels then throw .lenMismatch
  | .scalar _ => pure ()
  if full.any (· == 0) then return t
  let this := if t.any (fun m => m.U.isSome) then t.decompAll else t
  let sub := restrictT sels this
  let add ← match value with
    | .scalar c => pure (scalarT c true sels this)
    | .dense _ x => pure (embedT sels t.shape (fullRankTT full x))
    | .tensor v =>
        if sels.any (·.isInt) then
          match v.getitem (unsqueezeKey sels) with
          | .ok (.inl v') => pure (embedT sels t.shape v'.decompAll)
          | _ => throw .tooMany
        else pure (embedT sels t.shape v.decompAll)
  pure ((this.sub sub).add add)

end
end TN
