import TnVerif.Model.Basic
import TnVerif.Model.Maxvol
/-
  `py_rect_maxvol` (maxvol.py:30-112): rectangular 2-volume maximisation, after its call to `py_maxvol`
  (line 74), whose answer `(tmp_index, C)` is the initial state (a kernel with a contract, as in Model/Maxvol.lean).
  Here `C` is stored as the routine holds it: `N × K`, `C l k` = coefficient of the `k`-th chosen row for row `l`
  (`py_maxvol` returns `C.T`, so the start is the transpose of `MVState.C`).
  Also the early return `N <= r` of both routines (maxvol.py:51-52 and 126-127).

  Vectors and matrices of the running state are tabulated into arrays (`RmvVec.tab`, `RmvMat.tab`): semantically
  the identity (`RmvVec.tab_get`, `RmvMat.tab_get` in Lemmas/RectMaxvol), they only make the compiled driver
  evaluate every entry once per iteration, as the code does.
-/
namespace TN
variable {R : Type}

/-- a vector: the tabulated leading entries and the rule for the others.  (Two fields on purpose: a structure whose only
    field is a function is compiled to that function, and a tabulation returning it would be redone at every access.) -/
structure RmvVec (R : Type) where
  arr : Array R
  ext : Nat → R

/-- entry `a` -/
def RmvVec.get (v : RmvVec R) (a : Nat) : R := if h : a < v.arr.size then v.arr[a] else v.ext a

/-- tabulate the first `n` entries (identity on the entries) -/
def RmvVec.tab (n : Nat) (f : Nat → R) : RmvVec R := ⟨Array.ofFn (n := n) fun k => f k.val, f⟩

/-- a matrix: the tabulated leading block as an array of rows and the rule for the other entries -/
structure RmvMat (R : Type) where
  arr : Array (Array R)
  ext : Nat → Nat → R

/-- entry `(a, b)` -/
def RmvMat.get (M : RmvMat R) (a b : Nat) : R :=
  if h : a < M.arr.size then (if h2 : b < M.arr[a].size then M.arr[a][b] else M.ext a b) else M.ext a b

/-- tabulate the leading `n × m` block (identity on the entries) -/
def RmvMat.tab (n m : Nat) (f : Nat → Nat → R) : RmvMat R :=
  ⟨Array.ofFn (n := n) fun a => Array.ofFn (n := m) fun b => f a.val b.val, f⟩

/-- a matrix given by a rule only -/
def RmvMat.ofFn (f : Nat → Nat → R) : RmvMat R := ⟨#[], f⟩

/-- the normalised parameters of `py_rect_maxvol` -/
structure RectParams where
  maxK : Nat
  minK : Nat
  top : Nat
deriving Repr, DecidableEq

/-- the parameter normalisation, maxvol.py:53-69 (`None` = `none`; `top_k_index = -1` is the default).
    All three results are non-negative after the clamps, so they are returned as naturals. -/
def rectmvParams (N r : Nat) (maxK minAddK minK : Option Int) (topK : Int) : RectParams :=
  let Ni : Int := N
  let ri : Int := r
  -- if maxK is None or maxK > N: maxK = N
  let mx : Int := match maxK with
    | none => Ni
    | some m => if m > Ni then Ni else m
  -- if maxK < r: maxK = r
  let mx := if mx < ri then ri else mx
  -- if minK is None or minK < r: minK = r
  let mn : Int := match minK with
    | none => ri
    | some m => if m < ri then ri else m
  -- if minK > N: minK = N
  let mn := if mn > Ni then Ni else mn
  -- if min_add_K is not None: minK = max(minK, r + min_add_K)
  let mn := match minAddK with
    | none => mn
    | some a => if mn < ri + a then ri + a else mn
  -- if minK > maxK: minK = maxK
  let mn := if mn > mx then mx else mn
  -- if top_k_index == -1 or top_k_index > N: top_k_index = N
  let tp : Int := if topK = -1 ∨ topK > Ni then Ni else topK
  -- if top_k_index < r: top_k_index = r
  let tp := if tp < ri then ri else tp
  ⟨mx.toNat, mn.toNat, tp.toNat⟩

/-- `-inf < x`, `x < y` on values extended by `-inf` (= `none`): the order `argmax` uses on
    `np.where(chosen > 0, row_norm_sqr, -np.inf)` -/
def rectmvLt [LT R] [DecidableRel (α := R) (· < ·)] : Option R → Option R → Bool
  | none, some _ => true
  | some a, some b => decide (a < b)
  | _, none => false

/-- `argmax` of `w[0:n]`: first position of the largest value (the scan replaces the candidate only on a strict
    improvement).  For `n = 0` NumPy raises; the callers exclude that case. -/
def rectmvArgmaxTo [LT R] [DecidableRel (α := R) (· < ·)] (w : Nat → Option R) : Nat → Nat
  | 0 => 0
  | n + 1 => let b := rectmvArgmaxTo w n
             if rectmvLt (w b) (w n) then n else b

section
variable [Zero R] [One R] [Add R] [Sub R] [Neg R] [Mul R] [Div R] [LT R] [DecidableRel (α := R) (· < ·)]

/-- `np.where(chosen > 0, row_norm_sqr, -np.inf)` (maxvol.py:83, 106) -/
def rectmvMasked (chosen rns : RmvVec R) : Nat → Option R :=
  fun l => if 0 < chosen.get l then some (rns.get l) else none

/-- `np.where(chosen > 0, row_norm_sqr, -np.inf).argmax()` over the `top_k_index` candidate rows -/
def rectmvArgmax (top : Nat) (chosen rns : RmvVec R) : Nat :=
  rectmvArgmaxTo (rectmvMasked chosen rns) top

/-- the running state of the augmentation loop -/
structure RMVState (R : Type) where
  /-- number of chosen rows -/
  K : Nat
  /-- coefficients, `N × K` -/
  C : RmvMat R
  /-- `index` (only `index[:K]` is meaningful) -/
  index : RmvVec Nat
  /-- `chosen`: 1 for a candidate row not chosen yet, 0 for a chosen one (`top_k_index` entries) -/
  chosen : RmvVec R
  /-- `row_norm_sqr` (`top_k_index` entries) -/
  rns : RmvVec R
  /-- the current `argmax` -/
  i : Nat

/-- the state before the loop, maxvol.py:72-84: `index[:r] = tmp_index`, `chosen = ones; chosen[tmp_index] = 0`,
    `row_norm_sqr[i] = chosen[i] * ‖C[i]‖²`, first `argmax`, `K = r`.  (`tmp`, `C0`) is the answer of `py_maxvol`. -/
def rectmvInit (N r top : Nat) (tmp : Nat → Nat) (C0 : Nat → Nat → R) : RMVState R :=
  let index : RmvVec Nat := RmvVec.tab r fun k => if k < r then tmp k else 0
  let chosen : RmvVec R := RmvVec.tab top fun l => if (List.range r).any (fun k => tmp k == l) then 0 else 1
  let C : RmvMat R := RmvMat.tab N r C0
  let rns : RmvVec R := RmvVec.tab top fun l => chosen.get l * sumTo r fun k => C.get l k * C.get l k
  ⟨r, C, index, chosen, rns, rectmvArgmax top chosen rns⟩

/-- one augmentation, maxvol.py:95-107: row `i` enters, `c = C[i]`, `v = C c`, `l = 1/(1+v[i])`,
    `C ← [C − l·v⊗c , l·v]`, `row_norm_sqr ← (row_norm_sqr − l·v²)·chosen`, next `argmax`, `K += 1` -/
def rectmvStep (N top : Nat) (s : RMVState R) : RMVState R :=
  let i := s.i
  let K := s.K
  let index : RmvVec Nat := RmvVec.tab (K + 1) fun k => if k = K then i else s.index.get k
  let chosen : RmvVec R := RmvVec.tab top fun l => if l = i then 0 else s.chosen.get l
  let c : RmvVec R := RmvVec.tab K fun k => s.C.get i k
  let v : RmvVec R := RmvVec.tab N fun l => sumTo K fun k => s.C.get l k * c.get k
  let lam : R := 1 / (1 + v.get i)
  let C : RmvMat R := RmvMat.tab N (K + 1) fun l k =>
    if k < K then s.C.get l k + (-lam) * v.get l * c.get k else lam * v.get l
  let rns : RmvVec R := RmvVec.tab top fun l => (s.rns.get l + -(lam * v.get l * v.get l)) * chosen.get l
  ⟨K + 1, C, index, chosen, rns, rectmvArgmax top chosen rns⟩

/-- the guard `(row_norm_sqr[i] > tol2 and K < maxK) or K < minK` -/
def rectmvGuard (maxK minK : Nat) (tol2 : R) (s : RMVState R) : Bool :=
  (decide (tol2 < s.rns.get s.i) && decide (s.K < maxK)) || decide (s.K < minK)

/-- the loop, maxvol.py:92-107 (fuel `maxK − r` is enough: every pass has `K < maxK`, see `rect_loop_exit`) -/
def rectmvLoop (N top maxK minK : Nat) (tol2 : R) : Nat → RMVState R → RMVState R
  | 0, s => s
  | fuel + 1, s =>
    if rectmvGuard maxK minK tol2 s then rectmvLoop N top maxK minK tol2 fuel (rectmvStep N top s) else s

/-- `C[index[:K]] = np.eye(K)` (maxvol.py:110-111), row after row: for a row listed twice the later one stays -/
def rectmvSetRows (index : Nat → Nat) (C : Nat → Nat → R) : Nat → Nat → Nat → R
  | 0 => C
  | k + 1 => fun l c => if l = index k then (if k = c then 1 else 0) else rectmvSetRows index C k l c

/-- what both routines return -/
structure RectResult (R : Type) where
  index : List Nat
  K : Nat
  C : RmvMat R

/-- `np.arange(N), np.eye(N)`: the early return of both routines for `N <= r` (maxvol.py:51-52, 126-127) -/
def rectmvAll (N : Nat) : RectResult R :=
  ⟨List.range N, N, RmvMat.ofFn fun l k => if l = k then 1 else 0⟩

/-- `py_rect_maxvol(A, tol, maxK, min_add_K, minK, start_maxvol_iters, identity_submatrix, top_k_index)` for an
    `N × r` matrix, given the answer `(tmp, C0)` of the inner `py_maxvol(A, 1.05, start_maxvol_iters, top_k_index)`.
    `none`: NumPy raises (`argmax` of an empty sequence, only for `r = 0 = top_k_index`). -/
def pyRectMaxvol (N r : Nat) (tol : R) (maxK minAddK minK : Option Int) (identitySubmatrix : Bool) (topK : Int)
    (tmp : Nat → Nat) (C0 : Nat → Nat → R) : Option (RectResult R) :=
  let tol2 := tol * tol
  if N ≤ r then some (rectmvAll N)
  else
    let p := rectmvParams N r maxK minAddK minK topK
    if p.top = 0 then none
    else
      let s := rectmvLoop N p.top p.maxK p.minK tol2 (p.maxK - r) (rectmvInit N r p.top tmp C0)
      let C : RmvMat R :=
        if identitySubmatrix then RmvMat.tab N s.K (rectmvSetRows s.index.get s.C.get s.K) else s.C
      some ⟨(List.range s.K).map s.index.get, s.K, C⟩

/-- `py_maxvol(A, tol, max_iters, top_k_index)` for an `N × r` matrix with its early return (maxvol.py:126-127),
    given the state `start` after the LAPACK start; `C` is returned transposed (`C.T`, maxvol.py:171) -/
def pyMaxvol (N r : Nat) (tol : R) (maxIters : Nat) (topK : Int) (start : MVState R) : RectResult R :=
  -- if tol < 1: tol = 1.0
  let tol := if tol < 1 then 1 else tol
  if N ≤ r then rectmvAll N
  else
    let tp : Int := if topK = -1 ∨ topK > (N : Int) then N else topK
    let tp := if tp < (r : Int) then (r : Int) else tp
    let s := (mvLoop r tp.toNat tol maxIters start []).1
    ⟨(List.range r).map s.idx, r, RmvMat.ofFn fun l k => s.C k l⟩

end
end TN
