/-
  Semantic core (DESIGN §2.1).  Core Lean only — no Mathlib import — so that the
  line-protocol driver can be compiled as a `lean_exe`.

  A compressed tensor is a chain of `Mode`s.  Mode n carries, for every spatial index i,
  an `rl × rr` matrix `G i`.  The represented array is

      T[i_1,…,i_N] = 1ᵀ · G_1(i_1) · G_2(i_2) ⋯ G_N(i_N) · 1 .

  This is exactly what `Tensor.torch()` (tensor.py:1639-1687) computes for every format
  (TT core, CP factor, with/without Tucker factor, boundary ranks > 1 summed).
-/
namespace TN
variable {R : Type}

/-- `Σ_{k<n} f k`, by recursion (bridged to `Finset.sum (range n)` in `Lemmas/Sum`). -/
def sumTo [Zero R] [Add R] : Nat → (Nat → R) → R
  | 0, _ => 0
  | n+1, f => sumTo n f + f n

structure Mode (R : Type) where
  rl : Nat
  rr : Nat
  n  : Nat
  G  : Nat → Nat → Nat → R      -- G i a b

section sem
variable [Zero R] [One R] [Add R] [Mul R]

/-- column vector `G_k(i_k) ⋯ G_N(i_N) · 1` -/
def tail : List (Mode R) → List Nat → Nat → R
  | [], _, _ => 1
  | m :: ms, i :: is, a => sumTo m.rr (fun b => m.G i a b * tail ms is b)
  | _ :: _, [], _ => 0

/-- the represented array -/
def dense (ms : List (Mode R)) (is : List Nat) : R :=
  match ms with
  | [] => 1
  | m :: _ => sumTo m.rl (fun a => tail ms is a)

/-- block-diagonal combination (what `+` builds) -/
def Mode.add (x y : Mode R) : Mode R :=
  { rl := x.rl + y.rl, rr := x.rr + y.rr, n := x.n,
    G := fun i a b =>
      if a < x.rl then (if b < x.rr then x.G i a b else 0)
      else (if b < x.rr then 0 else y.G i (a - x.rl) (b - x.rr)) }

/-- slice-wise Kronecker product (what `*` builds; index `a·r_y + a'` as `_core_kron` reshapes) -/
def Mode.kron (x y : Mode R) : Mode R :=
  { rl := x.rl * y.rl, rr := x.rr * y.rr, n := x.n,
    G := fun i a b => x.G i (a / y.rl) (b / y.rr) * y.G i (a % y.rl) (b % y.rr) }

/-- apply a linear map `L` (rows × m.n) along the spatial index of one mode -/
def Mode.lin (rows : Nat) (L : Nat → Nat → R) (m : Mode R) : Mode R :=
  { m with n := rows, G := fun i a b => sumTo m.n fun j => L i j * m.G j a b }

/-- multiply every matrix of the mode by a scalar -/
def Mode.scale (c : R) (m : Mode R) : Mode R :=
  { m with G := fun i a b => c * m.G i a b }

/-- sum the rows of every matrix (left boundary collapse: `cores[0].sum(dim=0, keepdim=True)`) -/
def Mode.collapseL (m : Mode R) : Mode R :=
  { m with rl := 1, G := fun i _ b => sumTo m.rl fun a => m.G i a b }

/-- sum the columns of every matrix (right boundary collapse) -/
def Mode.collapseR (m : Mode R) : Mode R :=
  { m with rr := 1, G := fun i a _ => sumTo m.rr fun b => m.G i a b }

/-- transpose every matrix (used for chain reversal, L6) -/
def Mode.transp (m : Mode R) : Mode R :=
  { rl := m.rr, rr := m.rl, n := m.n, G := fun i a b => m.G i b a }

/-- `Σ` over the index box with the given mode sizes -/
def boxSum : List Nat → (List Nat → R) → R
  | [], f => f []
  | n :: ns, f => sumTo n (fun i => boxSum ns (fun is => f (i :: is)))

/-- right interface matrix of two chains — the recursion `tn.dot` performs -/
def iface : List (Mode R) → List (Mode R) → Nat → Nat → R
  | m :: ms, m' :: ms', a, a' =>
      sumTo m.n fun i => sumTo m.rr fun b => sumTo m'.rr fun b' =>
        m.G i a b * m'.G i a' b' * iface ms ms' b b'
  | _, _, _, _ => 1

/-- per-mode linear maps applied to every mode -/
def linAll : List (Nat × (Nat → Nat → R)) → List (Mode R) → List (Mode R)
  | (rows, L) :: Ls, m :: ms => m.lin rows L :: linAll Ls ms
  | _, _ => []

/-- `Π_n L_n[i_n, j_n]` -/
def wprod : List (Nat × (Nat → Nat → R)) → List Nat → List Nat → R
  | (_, L) :: Ls, i :: is, j :: js => L i j * wprod Ls is js
  | _, _, _ => 1

/-- selection matrix of an index map `φ : output index ↦ input index` -/
def sel (φ : Nat → Nat) : Nat → Nat → R := fun i j => if j = φ i then 1 else 0

def selAll : List (Nat × (Nat → Nat)) → List (Nat × (Nat → Nat → R))
  | [] => []
  | (rows, φ) :: r => (rows, sel φ) :: selAll r

end sem

def mapIdx : List (Nat × (Nat → Nat)) → List Nat → List Nat
  | (_, φ) :: r, i :: is => φ i :: mapIdx r is
  | _, _ => []

/-- every selected input index is inside the box -/
def inBox : List (Nat × (Nat → Nat)) → List Nat → List Nat → Prop
  | (_, φ) :: r, i :: is, s :: ss => φ i < s ∧ inBox r is ss
  | [], [], [] => True
  | _, _, _ => False

/-- chain well-formedness with the incoming rank as a parameter -/
def wf (p : Nat) : List (Mode R) → Prop
  | [] => True
  | m :: ms => m.rl = p ∧ wf m.rr ms

/-- same length and same mode sizes -/
def compat : List (Mode R) → List (Mode R) → Prop
  | [], [] => True
  | x :: xs, y :: ys => x.n = y.n ∧ compat xs ys
  | _, _ => False

/-- index list inside the box of the chain -/
def inRange : List (Mode R) → List Nat → Prop
  | [], [] => True
  | m :: ms, i :: is => i < m.n ∧ inRange ms is
  | _, _ => False

end TN
