import TnVerif.Model.Sobol
/-
  The `mask is not None` branch of `tn.dimension_distribution` (anova.py:209-213):

      mask2 = tn.mask(tn.weight_one_hot(t.dim(), order + 1), mask)
      return tn.sobol(t, mask2, marginals=marginals).torch()[1:] / tn.sobol(t, mask, marginals=marginals)

  Built from the existing models of `tn.weight_one_hot` (Model/Automata), `tn.mask` (`Tensor.sobolMaskBy`,
  Model/Sobol) and `tn.sobol` (`Tensor.sobol`, Model/Sobol).
-/
namespace TN
variable {R : Type}

section
variable [Zero R] [One R] [Add R] [Mul R] [Neg R] [Div R]

/-- anova.py:210: `mask2 = tn.mask(tn.weight_one_hot(t.dim(), order + 1), mask)` — the one-hot weight automaton with
    `order + 1` states over `N` two-symbol modes, multiplied (`tn.mask`: re-index the mask's spatial axes by the clamped
    `arange`, then `t * mask'`, tools.py:347-373) with the user's mask.  The product keeps the open trailing bond of the
    automaton (its size is `(order + 1) ·` the trailing rank of `mask`). -/
def dimDistMask2 (N order : Nat) (mask : Tensor R) : Tensor R :=
  ((weightOneHot (order + 1) (List.replicate N 2)).sobolMaskBy mask).memo

/-- `tn.dimension_distribution(t, mask=mask, order=order, marginals=marginals)` with a mask (anova.py:203-204, 209-213;
    `order=None` is `t.dim()`):
    * `mask2` as above (`dimDistMask2`);
    * first `tn.sobol(t, mask2, marginals)` — `mask2` has an open trailing bond, so the call returns a one-mode tensor `v`
      (anything else is reported as the error `tooMany`: a scalar has no `.torch()[1:]`);
    * then `tn.sobol(t, mask, marginals)` with the SAME marginals — for a closed mask a scalar `s` (a mask with an open
      bond would make it a tensor; `torch vector / tn.Tensor` is not modelled: error `tooMany`);
    * `.torch()[1:] / s`: the entries `1 .. len-1` of `v`, each divided by `s`.
    Kernel answers (DESIGN §2.4): `ρ sgn` with `sgn · ρ^N = a[(0,)*N]` — both `sobol` calls multiply the indicator tensor
    with the same scalar (same `t`, same marginals), the kernel gives the same answer twice, so the same pair is handed to
    both calls; `ρ2 sgn2` with `sgn2 · ρ2^1 = 1/D` is used by the first call only (the closed-mask call divides scalars). -/
def Tensor.dimensionDistributionMask (t mask : Tensor R) (order : Nat) (margs : List (Option (Nat → R)))
    (ρ sgn ρ2 sgn2 : R) : Except IdxErr (List R) :=
  let mask2 := dimDistMask2 t.length order mask
  match t.sobol mask2 margs true ρ sgn ρ2 sgn2 with
  | .error e => .error e
  | .ok (.inr _) => .error .tooMany
  | .ok (.inl v) =>
    match t.sobol mask margs true ρ sgn ρ2 sgn2 with
    | .error e => .error e
    | .ok (.inl _) => .error .tooMany
    | .ok (.inr s) =>
      match v.shape with
      | [n] => .ok ((List.range (n - 1)).map fun k => v.dense [k + 1] / s)
      | _ => .error .tooMany

end
end TN
