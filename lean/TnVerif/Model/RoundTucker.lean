import TnVerif.Model.Basic
import TnVerif.Model.Round
import TnVerif.Model.RoundTT
import TnVerif.Model.OrthSweep
/-
  The truncation sweep of `Tensor.round_tucker` (tensor.py:2020-2113, non-batch, `algorithm='svd'`) on the state
  that `self.orthogonalize(-1)` (tensor.py:2051) leaves behind, written on the REVERSED chain
  (`cur :: p :: rest` = modes `mu, mu-1, …, 0`), one mode = Tucker factor `Us[mu]` (`I × s`) + TT core `cores[mu]`
  (`r0 × s × r1`).  For `mu = N-1 … 0`:

      Us[mu]      = eye(I)  if None                                   -- `TkMode.ofMode`
      Q, R        = qr(cores[mu].permute(0,2,1).reshape(-1, s))       -- kernel answer `A.qr`   (rows a·r1+b)
      cores[mu]   = Q.reshape(r0, r1, k).permute(0,2,1)               -- `tkGauge`
      Us[mu]      = Us[mu] @ R.T
      left, right = truncated_svd(Us[mu], eps=eps/sqrt(len(dim)), rmax=rmax[mu], left_ortho=True)
                      -- kernel answer `A.svd` of `Us[mu]`; `delta² = eps²·‖Us[mu]‖²/len(dim)`; rank = `rankSelect`;
                      -- `left = U[:, :r]`, `right = leftᵀ @ Us[mu]`;  zero special case `S[0] < 1e-13`
      Us[mu]      = left
      cores[mu]   = einsum('ijk,aj->iak', cores[mu], right)           -- `tkTrunc`
      if mu > 0: right_orthogonalize(mu)                              -- `tkRegauge`:
          Qf, Rf    = qr(Us[mu]);  Us[mu] = Qf;  cores[mu] = einsum('ijk,aj->iak', cores[mu], Rf)   -- `A.fq`
          Q2, L     = qr(right_unfolding(cores[mu]).T)                                               -- `A.rq`
          cores[mu] = Q2.T.reshape(k2, kf, r1);  cores[mu-1] = left_unfolding(cores[mu-1]) @ L.T

  The kernels' answers are ARGUMENTS (`TkAns`), exactly as in Model/RoundTT and Model/OrthSweep.
-/
namespace TN
variable {R : Type}

/-- one mode of a TT-Tucker tensor at the level of the semantic chain: factor `U` (`rows × core.n`) and TT core
    (`core.G j a b = cores[mu][a, j, b]`) -/
structure TkMode (R : Type) where
  rows : Nat
  U : Nat → Nat → R
  core : Mode R

/-- the four kernel answers of one iteration of the loop of `round_tucker` (tensor.py:2052-2113) -/
structure TkAns (R : Type) where
  /-- `torch.linalg.qr` of the core's mode unfolding (tensor.py:2083-2087): `Q` is `(r0·r1) × k` (row `a·r1 + b`), `Rm` is `k × s` -/
  qr : QRAns R
  /-- `torch.linalg.svd` of the factor inside `truncated_svd` (round.py:96): `U` is `I × n`, `Vh l j 0` is `n × k` -/
  svd : SVDAns R
  /-- `torch.linalg.qr(Us[mu])` in `factor_orthogonalize` called by `right_orthogonalize(mu)` (tensor.py:1890); unused for `mu = 0` -/
  fq : QRAns R
  /-- `torch.linalg.qr(right_unfolding(cores[mu]).permute(1, 0))` in `right_orthogonalize` (tensor.py:1968-1970); `Q` is `(kf·r1) × k2`
      (row `l·r1 + b`), `Rm` is `k2 × r0` (the transpose of the code's `L`); unused for `mu = 0` -/
  rq : QRAns R

section
variable [Zero R] [One R] [Add R] [Mul R]

/-- the semantic mode: the core with its factor applied (`einsum('ijk,aj->iak', core, U)`) -/
def TkMode.toMode (m : TkMode R) : Mode R := m.core.lin m.rows m.U

/-- `self.Us[mu] = torch.eye(self.shape[mu])` for a mode without factor (tensor.py:2053-2064) -/
def TkMode.ofMode (m : Mode R) : TkMode R :=
  { rows := m.n, U := fun i j => if i = j then 1 else 0, core := m }

/-- "send non-orthogonality to factor" (tensor.py:2066-2092): `cores[mu] = Q` reshaped, `Us[mu] = Us[mu] @ R.T` -/
def tkGauge (m : TkMode R) (A : QRAns R) : TkMode R :=
  { rows := m.rows,
    U := fun i l => sumTo m.core.n fun j => m.U i j * A.Rm l j,
    core := { rl := m.core.rl, rr := m.core.rr, n := A.k, G := fun l a b => A.Q (a * m.core.rr + b) l } }

/-- `M2 = left.permute @ M` of `truncated_svd` (round.py:174): row `k` is `U[:, k]ᵀ · Us[mu]` -/
def tkRight (g : TkMode R) (B : SVDAns R) : Nat → Nat → R :=
  fun k l => sumTo g.rows fun i => B.U i k * g.U i l

/-- the factor replaced by the first `r` left singular vectors, the remainder `right` pushed into the core
    (tensor.py:2103-2109: `einsum('ijk,aj->iak', cores[mu], right)`) -/
def tkTrunc (g : TkMode R) (B : SVDAns R) (r : Nat) : TkMode R :=
  { rows := g.rows,
    U := fun i k => B.U i k,
    core := { rl := g.core.rl, rr := g.core.rr, n := r,
              G := fun k a b => sumTo g.core.n fun l => g.core.G l a b * tkRight g B k l } }

/-- what `truncated_svd` returns for a matrix it considers zero (round.py:139-148): `zeros(I, 1)`, `zeros(1, k)` -/
def tkTruncZero (g : TkMode R) : TkMode R :=
  { rows := g.rows, U := fun _ _ => 0,
    core := { rl := g.core.rl, rr := g.core.rr, n := 1, G := fun _ _ _ => 0 } }

/-- `torch.norm(M)²` of the factor handed to `truncated_svd` -/
def tkFacNormSq (g : TkMode R) : R :=
  sumTo g.rows fun i => sumTo g.core.n fun l => g.U i l * g.U i l

/-- `delta² = (eps / sqrt(len(dim)) · ‖Us[mu]‖)² = eps²·‖Us[mu]‖² / len(dim)` (tensor.py:2097, round.py:80) -/
def tkBudget2 [Div R] [NatCast R] (eps : R) (nd : Nat) (g : TkMode R) : R :=
  eps * eps * tkFacNormSq g / ((nd : Nat) : R)

/-- `right_orthogonalize(mu)` (tensor.py:1943-1988) on the pair (mode `mu-1`, mode `mu`): factor QR `Af`, transposed QR `Aq` of the
    right unfolding of `Rf ×₂ core`; returns (new mode `mu-1`, new mode `mu`) -/
def tkRegauge (p t : TkMode R) (Af Aq : QRAns R) : TkMode R × TkMode R :=
  ({ rows := p.rows, U := p.U,
     core := { rl := p.core.rl, rr := Aq.k, n := p.core.n,
               G := fun j a c => sumTo p.core.rr fun a' => p.core.G j a a' * Aq.Rm c a' } },
   { rows := t.rows, U := fun i l => Af.Q i l,
     core := { rl := Aq.k, rr := t.core.rr, n := Af.k, G := fun l c b => Aq.Q (l * t.core.rr + b) c } })

/-- the core the second QR of `right_orthogonalize` is computed from: `einsum('ijk,aj->iak', cores[mu], Rf)` (tensor.py:1903-1905) -/
def tkCore3 (t : TkMode R) (Af : QRAns R) : Nat → Nat → Nat → R :=
  fun l a b => sumTo t.core.n fun k => Af.Rm l k * t.core.G k a b

variable [Div R] [NatCast R] [LE R] [DecidableRel (α := R) (· ≤ ·)]

/-- the rank `truncated_svd` selects for the gauged factor of `cur` -/
def tkStepRank (thr eps : R) (nd : Nat) (cur : TkMode R) (A : TkAns R) (rmax : Nat) : Nat :=
  stepRank thr (tkBudget2 eps nd (tkGauge cur A.qr)) A.svd rmax

/-- gauge + truncation of one mode (everything of the loop body before `right_orthogonalize`) -/
def tkStepCore (thr eps : R) (nd : Nat) (cur : TkMode R) (A : TkAns R) (rmax : Nat) : TkMode R :=
  if thr ≤ A.svd.S 0 then tkTrunc (tkGauge cur A.qr) A.svd (tkStepRank thr eps nd cur A rmax)
  else tkTruncZero (tkGauge cur A.qr)

/-- one full iteration for `mu > 0`: (new mode `mu-1`, final mode `mu`) -/
def tuckerStep (thr eps : R) (nd : Nat) (p cur : TkMode R) (A : TkAns R) (rmax : Nat) : TkMode R × TkMode R :=
  tkRegauge p (tkStepCore thr eps nd cur A rmax) A.fq A.rq

/-- the whole loop `for mu in range(N-1, -1, -1)` on the reversed chain; one `(answers, rmax[mu])` per mode -/
def tuckerSweepRev (thr eps : R) (nd : Nat) : List (TkMode R) → List (TkAns R × Nat) → List (TkMode R)
  | [cur], (A, rmax) :: _ => [tkStepCore thr eps nd cur A rmax]
  | cur :: p :: rest, (A, rmax) :: as =>
      (tuckerStep thr eps nd p cur A rmax).2 ::
        tuckerSweepRev thr eps nd ((tuckerStep thr eps nd p cur A rmax).1 :: rest) as
  | l, _ => l

/-- forward form: reverse, sweep, reverse back (`len(dim) = N`, the default `dim='all'`) -/
def roundTuckerSem (thr eps : R) (ms : List (TkMode R)) (as : List (TkAns R × Nat)) : List (TkMode R) :=
  (tuckerSweepRev thr eps ms.length ms.reverse as).reverse

end
end TN
