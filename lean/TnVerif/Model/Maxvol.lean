/-
  `py_maxvol` (maxvol.py:114-170) after its LAPACK start: the swap loop on the coefficient matrix.
  `C` is stored transposed as in the code: `r × N`, `C k l` = coefficient of chosen row `k` for row `l`.
  The LU start (`getrf`/`trtrs`) is a kernel: its answer (index, C) is the initial state.
-/
namespace TN
variable {R : Type}

structure MVState (R : Type) where
  C : Nat → Nat → R          -- r × N
  idx : Nat → Nat            -- r chosen rows

section
variable [Zero R] [One R] [Add R] [Sub R] [Mul R] [Div R] [Neg R] [LT R] [DecidableRel (α := R) (· < ·)]

def absR (x : R) : R := if x < 0 then -x else x

/-- `divmod(abs(C).argmax(), N)`: first position (row-major) of the largest modulus -/
def argmaxAbs (C : Nat → Nat → R) (r N : Nat) : Nat × Nat :=
  Id.run do
    let mut best : Nat × Nat := (0, 0)
    let mut bv : R := absR (C 0 0)
    for k in [0:r] do
      for l in [0:N] do
        let v := absR (C k l)
        if bv < v then
          best := (k, l); bv := v
    return best

/-- one swap: row `j` replaces the `i`-th chosen row, `C -= (C[:, j] − e_i) ⊗ C[i, :] / C[i, j]` -/
def mvSwap (s : MVState R) (i j : Nat) : MVState R :=
  { C := fun k l => s.C k l - (s.C k j - (if k = i then 1 else 0)) * s.C i l / s.C i j,
    idx := fun k => if k = i then j else s.idx k }

/-- `while abs(C[i, j]) > tol and iters < max_iters` -/
def mvLoop (r N : Nat) (tol : R) : Nat → MVState R → List (Nat × Nat) → MVState R × List (Nat × Nat)
  | 0, s, acc => (s, acc.reverse)
  | fuel + 1, s, acc =>
    let (i, j) := argmaxAbs s.C r N
    if tol < absR (s.C i j) then mvLoop r N tol fuel (mvSwap s i j) ((i, j) :: acc)
    else (s, acc.reverse)

end
end TN
