import TnVerif.Model.Tensor
/-
  Weight automata (automata.py): `weight_one_hot`, `weight_mask`, `weight`.
-/
namespace TN
variable {R : Type}

section
variable [Zero R] [One R] [Add R] [Mul R]

/-- natural number as a scalar (repeated addition of 1) -/
def natCast' : Nat → R
  | 0 => 0
  | n + 1 => natCast' n + 1

/-- shift-register core of `weight_one_hot`: state `a`, symbol `s` → state `a + s` (overflow dropped) -/
def shiftCore (r ns : Nat) : TMode R :=
  { core := .tt r ns r (fun a s b => if b = a + s then 1 else 0), U := Option.none }

/-- `weight_one_hot(N, r, nsymbols)` : first core is row 0 of the shift register; the trailing bond
    (size `r`) stays open and carries the one-hot vector of the sum of the symbols -/
def weightOneHot (r : Nat) : List Nat → Tensor R
  | [] => []
  | ns :: rest =>
    { core := .tt 1 ns r (fun _ s b => if b = s then 1 else 0), U := Option.none } :: rest.map (shiftCore r)

/-- number of occurrences of `k` in the weight list -/
def countW (W : List Nat) (k : Nat) : R := natCast' (W.count k)

/-- `weight_mask(N, W, nsymbols)` : the last core of the one-hot automaton (with `r = max W + 1`) has
    its columns `W` summed -/
def weightMask (W : List Nat) (r : Nat) : List Nat → Tensor R
  | [] => []
  | [ns] => [{ core := .tt 1 ns 1 (fun _ s _ => countW W s), U := Option.none }]
  | ns :: rest =>
    let rec go : List Nat → Tensor R
      | [] => []
      | [l] => [{ core := .tt r l 1 (fun a s _ => countW W (a + s)), U := Option.none }]
      | x :: xs => shiftCore r x :: go xs
    { core := .tt 1 ns r (fun _ s b => if b = s then 1 else 0), U := Option.none } :: go rest

/-- `weight(N, nsymbols)` : 2 × 2 accumulator cores `[[1, 0], [s, 1]]`, first core its row 1, last its column 0 -/
def weightT (ns : Nat) : Nat → Tensor R
  | 0 => []
  | 1 => [{ core := .tt 1 ns 1 (fun _ s _ => natCast' s), U := Option.none }]
  | n + 2 =>
    let mid : TMode R := { core := .tt 2 ns 2 (fun a s b => if a = 1 ∧ b = 0 then natCast' s else if a = b then 1 else 0), U := Option.none }
    let last : TMode R := { core := .tt 2 ns 1 (fun a s _ => if a = 1 then natCast' s else 1), U := Option.none }
    { core := .tt 1 ns 2 (fun _ s b => if b = 0 then natCast' s else 1), U := Option.none } ::
      (List.replicate n mid ++ [last])

end
end TN
