import TnVerif.Model.Tools
/-
  ANOVA decomposition (anova.py): `anova_decomposition` gives every mode a factor
  `[E; U − E]` (row 0: weighted mean of the rows of `U`, rows 1..I: the rows minus that mean; `U` is the
  mode's factor or the identity); `undo_anova_decomposition` adds row 0 back to the rows 1..I.
-/
namespace TN
variable {R : Type}

section
variable [Zero R] [One R] [Add R] [Mul R] [Neg R] [Div R]

/-- normalised weight `w_i / Σ w` -/
def normW (I : Nat) (w : Nat → R) (i : Nat) : R := w i / sumTo I w

/-- the ANOVA operator on one mode: `(I+1) × I`, row 0 = weights, row `i+1` = `e_i − weights` -/
def anovaL (I : Nat) (wn : Nat → R) : Nat → Nat → R := fun r j =>
  if r = 0 then wn j else (if j + 1 = r then 1 else 0) + -(wn j)

/-- its left inverse: row `i` picks row `i+1` plus row 0 -/
def undoL : Nat → Nat → R := fun i r => (if r = i + 1 then 1 else 0) + (if r = 0 then 1 else 0)

/-- `anova_decomposition` on one mode: the new factor is `anovaL · U` with `U` the factor or the identity -/
def TMode.anova (wn : Nat → R) (m : TMode R) : TMode R :=
  let I := m.n
  match m.U with
  | some U => { core := m.core, U := some (U.lmul (I + 1) (anovaL I wn)) }
  | Option.none => { core := m.core, U := some { rows := I + 1, cols := I, f := anovaL I wn } }

/-- `anova_decomposition(t, marginals)` with one weight vector per mode (uniform = all ones) -/
def Tensor.anova : List (Nat → R) → Tensor R → Tensor R
  | w :: ws, m :: ms => m.anova (normW m.n w) :: Tensor.anova ws ms
  | _, _ => []

/-- `undo_anova_decomposition` on one mode -/
def TMode.undoAnova (m : TMode R) : TMode R := m.spatialLin (m.n - 1) undoL

def Tensor.undoAnova (a : Tensor R) : Tensor R := a.map TMode.undoAnova

end
end TN
