import TnVerif.Model.Basic
/-
  Cross-approximation (cross.py): the index bookkeeping of the right-to-left sweep.

  cross.py:423-451: for j = N-1 … 1 the pivots `local` (flat positions in the `I_j × R_{j+1}` unfolding, from maxvol) are
  unravelled (`np.unravel_index(local, [Is[j], Rs[j + 1]])`: `local_i = local / R_{j+1}`, `local_r = local % R_{j+1}`) and the
  right index set of the previous bond becomes `rsets[j-1][k] = local_i[k] :: rsets[j][local_r[k]]` (`np.c_`).  The code
  keeps a dummy trailing column `0` (`rsets[N-1] = [[0]]`); the model leaves it out.
-/
namespace TN

/-- `rsets[j-1]` for the chain of levels `j, j+1, …, N-1`; a level is `(R_{j+1}, local_j)` -/
def rsetsOf : List (Nat × (Nat → Nat)) → Nat → List Nat
  | [] => fun _ => []
  | (rr, loc) :: rest => fun k => (loc k / rr) :: rsetsOf rest (loc k % rr)

/-- all right index sets, one per level, each listed for `k < count` (what `info["rsets"]` holds) -/
def rsetsAll : List (Nat × Nat × (Nat → Nat)) → List (List (List Nat))
  | [] => []
  | (cnt, rr, loc) :: rest =>
    ((List.range cnt).map (rsetsOf ((rr, loc) :: rest.map fun l => (l.2.1, l.2.2)))) :: rsetsAll rest

end TN
