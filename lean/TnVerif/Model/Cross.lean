import TnVerif.Model.Basic
/-
  Cross-approximation (cross.py): the index bookkeeping of the right-to-left sweep.

  cross.py:423-451: for j = N-1 … 1 the pivots `local` (flat positions in the `I_j × R_{j+1}` unfolding, from maxvol) are
  unravelled (`np.unravel_index(local, [Is[j], Rs[j + 1]])`: `local_i = local / R_{j+1}`, `local_r = local % R_{j+1}`) and the
  right index set of the previous bond becomes `rsets[j-1][k] = local_i[k] :: rsets[j][local_r[k]]` (`np.c_`).  The code
  keeps a dummy trailing column `0` (`rsets[N-1] = [[0]]`); the model leaves it out.
-/
namespace TN

/-- `rsets[j-1]` for the chain of levels `j, j+1, …, N-1`; a level is `(R_{j+1}, local_j)` -/
def rsetsOf : List (Nat × (Nat → Nat)) → Nat → List Nat
  | [] => fun _ => []
  | (rr, loc) :: rest => fun k => (loc k / rr) :: rsetsOf rest (loc k % rr)

/-- all right index sets, one per level, each listed for `k < count` (what `info["rsets"]` holds) -/
def rsetsAll : List (Nat × Nat × (Nat → Nat)) → List (List (List Nat))
  | [] => []
  | (cnt, rr, loc) :: rest =>
    ((List.range cnt).map (rsetsOf ((rr, loc) :: rest.map fun l => (l.2.1, l.2.2)))) :: rsetsAll rest

end TN

namespace TN
variable {R : Type}

/-- `lsets[j]` (without the code's dummy leading column), listed from the LAST mode to the first: the levels are given latest
    first as `(I_{j-1}, local_{j-1}) :: …`; cross.py:404-405 `local_r, local_i = unravel_index(local, [Rs[j], Is[j]])`,
    `lsets[j+1] = c_[lsets[j][local_r, :], local_i]` -/
def lsetsRev : List (Nat × (Nat → Nat)) → Nat → List Nat
  | [] => fun _ => []
  | (n, loc) :: earlier => fun k => (loc k % n) :: lsetsRev earlier (loc k / n)

/-- all left index sets in the code's orientation (first mode first), one list of rows per level, earliest level first -/
def lsetsAll : List (Nat × Nat × (Nat → Nat)) → List (List (List Nat))
  | [] => []
  | (cnt, n, loc) :: earlier =>
    lsetsAll earlier ++ [(List.range cnt).map fun k => (lsetsRev ((n, loc) :: earlier.map fun l => (l.2.1, l.2.2)) k).reverse]

section
variable [Zero R] [One R] [Add R] [Mul R]

/-- left interface of an argument tensor (cross.py:406-411, `einsum('ai,iaj->aj', linterface[j][local_r, :], core[:, local_i, :])`),
    levels latest first; `t_linterfaces[k][0] = ones(1, 1)` (cross.py:119-121) -/
def linterface : List (Mode R × (Nat → Nat)) → Nat → Nat → R
  | [] => fun _ _ => 1
  | (m, loc) :: earlier => fun a q => sumTo m.rl fun p => linterface earlier (loc a / m.n) p * m.G (loc a % m.n) p q

/-- right interface of an argument tensor (cross.py:441-446, `einsum('iaj,ja->ia', core[:, local_i, :], rinterface[j][:, local_r])`);
    a level is `(mode of the argument tensor, R_{j+1} of the RESULT (the unravel divisor), local_j)` -/
def rinterface : List (Mode R × Nat × (Nat → Nat)) → Nat → Nat → R
  | [] => fun _ _ => 1
  | (m, rr, loc) :: rest => fun p a => sumTo m.rr fun q => m.G (loc a / rr) p q * rinterface rest q (loc a % rr)

/-- the argument handed to the user's function for fibre `(a, i, b)` of mode `j` (cross.py:313-318,
    `einsum('ai,ibj,jc->abc', linterface[j], core[j], rinterface[j])`) -/
def evalPoint (L : Nat → Nat → R) (m : Mode R) (Rt : Nat → Nat → R) (a i b : Nat) : R :=
  sumTo m.rl fun p => sumTo m.rr fun q => L a p * m.G i p q * Rt q b
end
end TN
