/-
  A small heap machine for value semantics (C14): storages hold bytes, every live object (tensor or
  caller-owned array) reaches a set of storages, its observable value is a function of the contents of
  exactly those storages.  An API operation is summarised by its *effect*: the storages it writes in
  place, the storages it allocates, and what the receiver / the new object reach afterwards.
-/
namespace TN

abbrev StorId := Nat
abbrev ObjId := Nat

structure Heap (V : Type) where
  mem : StorId → V
  reach : ObjId → List StorId
  live : List ObjId

/-- effect summary of one operation -/
structure Effect (V : Type) where
  receiver : Option ObjId                 -- the object an in-place method is applied to
  writes : List (StorId × V)              -- storages written in place, with their new contents
  newObj : Option (ObjId × List StorId)   -- a returned object and what it reaches
  recvReach : Option (List StorId)        -- what the receiver reaches afterwards (rebinding of its list slots)

/-- the observable value of an object: the contents of what it reaches -/
def Heap.value {V : Type} (h : Heap V) (o : ObjId) : List V := (h.reach o).map h.mem

def writeMem {V : Type} (mem : StorId → V) : List (StorId × V) → StorId → V
  | [], s => mem s
  | (w, v) :: ws, s => if s = w then v else writeMem mem ws s

/-- apply an effect -/
def Heap.step {V : Type} (h : Heap V) (e : Effect V) : Heap V :=
  { mem := writeMem h.mem e.writes,
    reach := fun o =>
      match e.newObj with
      | some (n, r) => if o = n then r else (if some o = e.receiver then (e.recvReach.getD (h.reach o)) else h.reach o)
      | none => if some o = e.receiver then (e.recvReach.getD (h.reach o)) else h.reach o,
    live := match e.newObj with | some (n, _) => n :: h.live | none => h.live }

/-- **Safe**: every storage written in place is reachable from no live object other than the receiver
    (fresh storages are reachable from nobody), and a returned object gets a fresh identity -/
def Safe {V : Type} (h : Heap V) (e : Effect V) : Prop :=
  (∀ w ∈ e.writes, ∀ o ∈ h.live, some o ≠ e.receiver → w.1 ∉ h.reach o) ∧
  (∀ n r, e.newObj = some (n, r) → n ∉ h.live)

end TN
