import TnVerif.Model.Tools
import TnVerif.Model.Format
/-
  Orthogonalisation (tensor.py:1771-1909).  The QR factorisations are numerical kernels: their answers
  `Q`, `R` enter as arguments (DESIGN §2.4) with contract `Q·R = A` (and `QᵀQ = I` for the gauge clauses).
-/
namespace TN
variable {R : Type}

/-- a plain matrix given with its dimensions -/
structure Mat (R : Type) where
  rows : Nat
  cols : Nat
  f : Nat → Nat → R

section
variable [Zero R] [One R] [Add R] [Mul R]

/-- `factor_orthogonalize(mu)` : `Us[mu] = Q`, `core = core ×₂ R` (`einsum('ijk,aj->iak', core, R)`) -/
def TMode.factorOrth (Q Rm : Mat R) (m : TMode R) : TMode R :=
  match m.U with
  | Option.none => m
  | some _ => { core := m.core.lin Rm.rows Rm.f, U := some { rows := Q.rows, cols := Q.cols, f := Q.f } }

/-- the left unfolding `core.reshape(-1, r1)` of a TT core: row `a·s + i` -/
def Core.leftUnf : Core R → Nat → Nat → R
  | .tt _ s _ f => fun row b => f (row / s) (row % s) b
  | .cp _ _ _ => fun _ _ => 0

/-- `left_orthogonalize(mu)` on the pair (core mu, core mu+1) after the factor step:
    `core_mu = Q.reshape(r0, s, r')`, `core_{mu+1} = (R @ right_unfolding).reshape(r', s', r1')` -/
def leftOrthPair (Q Rm : Mat R) (m n : TMode R) : TMode R × TMode R :=
  match m.core, n.core with
  | .tt r0 s _ _, .tt _ s' r1' g =>
    ({ m with core := .tt r0 s Q.cols (fun a i b => Q.f (a * s + i) b) },
     { n with core := .tt Rm.rows s' r1' (fun a j b => sumTo Rm.cols fun c => Rm.f a c * g c j b) })
  | _, _ => (m, n)

/-- `right_orthogonalize(mu)` on the pair (core mu-1, core mu): `core_mu = Q.reshape(r', s, r1)` (rows of
    `Qᵀ`), `core_{mu-1} = (left_unfolding @ L).reshape(r0, s', r')` -/
def rightOrthPair (Q L : Mat R) (p m : TMode R) : TMode R × TMode R :=
  match p.core, m.core with
  | .tt r0' s' _ g, .tt _ s r1 _ =>
    ({ p with core := .tt r0' s' L.cols (fun a j b => sumTo L.rows fun c => g a j c * L.f c b) },
     { m with core := .tt Q.rows s r1 (fun a i b => Q.f a (i * r1 + b)) })
  | _, _ => (p, m)

/-- apply a pair transformation at positions `mu`, `mu+1` -/
def Tensor.atPair (f : TMode R → TMode R → TMode R × TMode R) : Nat → Tensor R → Tensor R
  | 0, m :: n :: rest => let (m', n') := f m n; m' :: n' :: rest
  | k + 1, m :: rest => m :: Tensor.atPair f k rest
  | _, t => t

def Tensor.atMode (f : TMode R → TMode R) : Nat → Tensor R → Tensor R
  | 0, m :: rest => f m :: rest
  | k + 1, m :: rest => m :: Tensor.atMode f k rest
  | _, t => t

end
end TN
