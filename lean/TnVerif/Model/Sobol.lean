import TnVerif.Model.Stats
import TnVerif.Model.Automata
import TnVerif.Model.Eval
import TnVerif.Model.Format
import TnVerif.Model.TTMatMul
/-
  Sobol indices and the metrics built on them (anova.py: `sobol` 101-160, `mean_dimension` 163-188,
  `dimension_distribution` 191-213), with the routines they call: `tn.mask` (tools.py:347-373) and the
  trailing-dimension branch of `tn.dot` (metrics.py:75-126).

  Scalars need `-` (the empty term is subtracted) and `/` (marginals are normalised, the index is a quotient).
  The real power `|c| ** (1 / N)` of `Tensor.__mul__` with a scalar is a kernel answer (DESIGN §2.4): the routines
  take `ρ sgn` with contract `sgn · ρ^N = c`.
-/
namespace TN
variable {R : Type}

section
variable [Zero R] [One R] [Add R] [Mul R]

/-! ### `tn.mask` (tools.py:347-373) -/

/-- `core[..., idx, :]` for an index array given as a function on `0..rows-1` -/
def Core.sobolGather (rows : Nat) (φ : Nat → Nat) : Core R → Core R
  | .tt r0 _ r1 f => .tt r0 rows r1 (fun a i b => f a (φ i) b)
  | .cp _ r f => .cp rows r (fun i k => f (φ i) k)

/-- `U[idx, :]` -/
def Fac.sobolGather (rows : Nat) (φ : Nat → Nat) (U : Fac R) : Fac R :=
  { rows := rows, cols := U.cols, f := fun i j => U.f (φ i) j }

/-- one pass of the loop of `tn.mask` (tools.py:366-371): the mask's core is gathered along its spatial axis if
    the mask has no factor there, otherwise the core is kept and the rows of the factor are gathered -/
def TMode.sobolGather (rows : Nat) (φ : Nat → Nat) (m : TMode R) : TMode R :=
  match m.U with
  | some U => { core := m.core, U := some (U.sobolGather rows φ) }
  | Option.none => { core := m.core.sobolGather rows φ, U := Option.none }

/-- tools.py:364-365 with `idxs[n] = arange(sh)` (what every tensor built by `Tensor.__init__` without an `idxs`
    argument carries, tensor.py:433-435 — in particular the result of `__add__`, so the annotation
    `[0] + [1] * I` made by `anova_decomposition` is NOT what `sobol` masks with):
    `idx[idx >= mask.shape[n]] = mask.shape[n] - 1`.  On a 2-symbol mask: `0 ↦ 0`, everything else `↦ 1`. -/
def sobolClampIdx (s : Nat) (i : Nat) : Nat := if s ≤ i then s - 1 else i

/-- the re-indexed mask `tn.Tensor(cores, Us)` of tools.py:361-372; first argument: `t.shape` -/
def Tensor.sobolMaskSel : List Nat → Tensor R → Tensor R
  | sh :: shs, m :: ms => m.sobolGather sh (sobolClampIdx m.n) :: Tensor.sobolMaskSel shs ms
  | _, _ => []

/-- `tn.mask(t, mask)` = `t * mask'` (tools.py:373) -/
def Tensor.sobolMaskBy (t mask : Tensor R) : Tensor R := t.mul (Tensor.sobolMaskSel t.shape mask)

/-! ### the pieces of `sobol` -/

/-- anova.py:120-131: `tn.Tensor([cat((ones(1, 1, 1), zeros(1, sh - 1, 1)), dim=1) for sh in a.shape])`, the
    indicator of the all-zero index (the empty tuple of variables) -/
def sobolEmptyT (shape : List Nat) : Tensor R :=
  shape.map fun sh => { core := .tt 1 sh 1 (fun _ j _ => if j = 0 then 1 else 0), U := Option.none }

/-- `core[:, 1:, :] *= m[None, :, None]` (3-D) / `core[1:, :] *= m[:, None]` (2-D), anova.py:142-145 -/
def Core.sobolWrows (w : Nat → R) : Core R → Core R
  | .tt r0 s r1 f => .tt r0 s r1 (fun a j b => if j = 0 then f a j b else f a j b * w (j - 1))
  | .cp s r f => .cp s r (fun j k => if j = 0 then f j k else f j k * w (j - 1))

/-- `U[1:, :] *= m[:, None]`, anova.py:147 -/
def Fac.sobolWrows (w : Nat → R) (U : Fac R) : Fac R :=
  { U with f := fun i j => if i = 0 then U.f i j else U.f i j * w (i - 1) }

/-- one pass of the loop anova.py:135-147 (the three branches) -/
def TMode.sobolWrows (w : Nat → R) (m : TMode R) : TMode R :=
  match m.U with
  | some U => { core := m.core, U := some (U.sobolWrows w) }
  | Option.none => { core := m.core.sobolWrows w, U := Option.none }

/-- `mask.cores[-1].dim() == 3 and mask.cores[-1].shape[-1] > 1` (anova.py:149): the mask keeps an open trailing
    bond (one-hot masks) -/
def Tensor.sobolOpenBond (mask : Tensor R) : Bool :=
  match mask.getLast? with
  | some m => !m.core.isCP && decide (1 < m.core.rr)
  | Option.none => false

/-- `cores[-1].shape[-1]` : the size of the trailing bond (anova.py:152) -/
def sobolLastRR (t : Tensor R) : Nat := match t.getLast? with | some m => m.core.rr | Option.none => 1

/-- `torch.eye(r)[:, :, None]` appended as an extra mode (anova.py:150-155) -/
def sobolEyeLast (r : Nat) : TMode R := { core := .tt r r 1 (fun a j _ => if a = j then 1 else 0), U := Option.none }

/-! ### `tn.dot` with the running matrix held as data, and its trailing-dimension branch (metrics.py:75-126) -/

/-- `dotStep` (Model/Tools) on a tabulated running matrix `Lprod` (`rl' × rl`, row-major): same contraction,
    the result (`m'.rr × m.rr`) is stored -/
def sobolDotStepA (L : FlatArr R) (m m' : Mode R) : FlatArr R :=
  .tab (m'.rr * m.rr) fun p => dotStep (fun b' b => L.get (b' * m.rl + b)) m m' (p / m.rr) (p % m.rr)

/-- `dotGo` (Model/Tools) on tabulated running matrices: sweep, then `torch.sum(Lprod)` -/
def sobolDotGoA (L : FlatArr R) (rl' rl : Nat) : List (Mode R) → List (Mode R) → R
  | m :: ms, m' :: ms' => sobolDotGoA (sobolDotStepA L m m') m'.rr m.rr ms ms'
  | _, _ => sumTo rl' fun b' => sumTo rl fun b => L.get (b' * rl + b)

/-- `tn.dot(t, u)` for two tensors with the same number of modes — the same value as `Tensor.dot`
    (`Lemmas/Sobol.dotA_eq`), at the cost of the Python loop -/
def Tensor.sobolDotA (t u : Tensor R) : R :=
  match t.modes, u.modes with
  | m :: ms, m' :: ms' => sobolDotGoA (.tab (m'.rl * m.rl) fun _ => 1) m'.rl m.rl (m :: ms) (m' :: ms')
  | _, _ => 1

/-- `_project_left(core, Lprod.t())` (metrics.py:60-64, 125): `einsum("sr,rai->sai", M, core)` for a 3-D core,
    `einsum("sr,ar->sar", M, core)` for a 2-D one (read through `Core.get`: both give a 3-D core);
    `M = Lprod.t()` is `rl × rl'` -/
def sobolProjLeftT (L : FlatArr R) (rl' rl : Nat) (c : Core R) : Core R :=
  .tt rl c.spatial c.rr (fun s a i => sumTo rl' fun r => L.get (r * rl + s) * c.get r a i)

/-- `tn.dot(t1, t2)` when `t2` has more modes than `t1` (metrics.py:91-108, 119-126): sweep over the common leading
    modes, then return the trailing modes of `t2` with `Lprod.t()` contracted into the first of them.
    First list: the modes of `t1`; second: `t2`. -/
def sobolDotOpenGo (L : FlatArr R) (rl' rl : Nat) : List (Mode R) → Tensor R → Tensor R
  | m :: ms, m' :: ms' => sobolDotOpenGo (sobolDotStepA L m m'.toMode) m'.core.rr m.rr ms ms'
  | [], m' :: ms' => { core := sobolProjLeftT L rl' rl m'.core, U := m'.U } :: ms'
  | _, [] => []

def Tensor.sobolDotOpen (t u : Tensor R) : Tensor R :=
  match t.modes, u with
  | m :: ms, m' :: ms' => sobolDotOpenGo (.tab (m'.core.rl * m.rl) fun _ => 1) m'.core.rl m.rl (m :: ms) (m' :: ms')
  | _, _ => []

end

section
variable [Zero R] [One R] [Add R] [Mul R] [Neg R] [Div R]

/-- the marginal `anova_decomposition` works with (anova.py:26-30): the given vector, or
    `torch.ones([I]) / float(I)` for `None` -/
def sobolMargA (I : Nat) : Option (Nat → R) → (Nat → R)
  | some w => w
  | Option.none => fun _ => 1 / natR I

/-- the marginal the loop of `sobol` works with (anova.py:136-139): the given vector, or `torch.ones([I])` -/
def sobolMargS : Option (Nat → R) → (Nat → R)
  | some w => w
  | Option.none => fun _ => 1

/-- `tn.anova_decomposition(t, marginals)` with `None` entries allowed (anova.py:23-45); `marginals=None` is the list of
    `None`s (anova.py:24-25, 115-116) -/
def Tensor.sobolAnovaOpt (t : Tensor R) (margs : List (Option (Nat → R))) : Tensor R :=
  t.anova (List.zipWith (fun (m : TMode R) o => sobolMargA m.n o) t margs)

/-- the loop anova.py:135-147: mode `n` of `am` gets its rows `1..I` multiplied by `m / torch.sum(m)`
    (`normW`, Model/Anova); arguments: the marginals, `t.shape`, `am` -/
def Tensor.sobolWeight : List (Option (Nat → R)) → List Nat → Tensor R → Tensor R
  | o :: os, I :: Is, m :: ms => m.sobolWrows (normW I (sobolMargS o)) :: Tensor.sobolWeight os Is ms
  | _, _, _ => []

/-- anova.py:118-133: `a = tn.anova_decomposition(t, marginals)`, then
    `a -= tn.Tensor([...indicator of index 0...]) * a[(0,) * t.dim()]` — "set empty tuple to 0".
    `a[(0,)*N]` is a scalar `c`; `E * c` is `Tensor.scalarMul` with the kernel answers `ρ = |c|^(1/N)`, `sgn = sign c`;
    `a -= X` is `a = a + (-1) * X` (no `__isub__`; tensor.py:674-676).  Intermediate tensors are re-materialised
    (`memo`, the identity: `Lemmas/Sobol.sobol_memo_eq`). -/
def Tensor.sobolA (t : Tensor R) (margs : List (Option (Nat → R))) (ρ sgn : R) : Except IdxErr (Tensor R) :=
  let a0 := (t.sobolAnovaOpt margs).memo
  match a0.getitem (squeezeKey (allDims a0)) with
  | .ok (.inr _) => .ok (a0.sub ((sobolEmptyT a0.shape).scalarMul ρ sgn)).memo
  | .ok (.inl _) => .error .tooMany
  | .error e => .error e

/-- `tn.sobol(t, mask, marginals, normalize)` (anova.py:101-160).
    * `a` : the extended ANOVA tensor with its empty term removed (`sobolA`);
    * `am = a.clone()` with the rows `1..I` of every mode weighted by the normalised marginal (`sobolWeight`);
    * `am_masked = tn.mask(am, mask)` (`sobolMaskBy`);
    * closed mask: `tn.dot(a, am_masked) / tn.dot(a, am)` resp. `tn.dot(a, am_masked)`;
    * mask with an open trailing bond (one-hot masks): an identity core is appended to `am_masked`, `tn.dot` returns the
      one-mode tensor of the values per bond index; with `normalize` it is multiplied by `1.0 / tn.dot(a, am)`
      (`Tensor.__truediv__` = `self * (1.0 / other)`, tensor.py:803-805: `scalarMul` with the kernel answers
      `ρ2 = |1/D|^(1/1)`, `sgn2 = sign (1/D)`; `ρ2 sgn2` are not used in any other branch).
    The result is a scalar (`inr`) or a tensor (`inl`), like `getitem`. -/
def Tensor.sobol (t mask : Tensor R) (margs : List (Option (Nat → R))) (normalize : Bool) (ρ sgn ρ2 sgn2 : R) :
    Except IdxErr (Tensor R ⊕ R) :=
  match t.sobolA margs ρ sgn with
  | .error e => .error e
  | .ok a =>
    let am := (Tensor.sobolWeight margs t.shape a.clone).memo
    let amMasked := (am.sobolMaskBy mask).memo
    if mask.sobolOpenBond then
      let amOpen := amMasked ++ [sobolEyeLast (sobolLastRR amMasked)]
      let num := a.sobolDotOpen amOpen
      if normalize then .ok (.inl (num.scalarMul ρ2 sgn2)) else .ok (.inl num)
    else
      if normalize then .ok (.inr (a.sobolDotA amMasked / a.sobolDotA am)) else .ok (.inr (a.sobolDotA amMasked))

/-- `tn.mean_dimension(t, marginals=marginals)` with `mask=None` (anova.py:183-184):
    `tn.sobol(t, tn.weight(t.dim()), marginals=marginals)`; the mask `weight` is closed, the result a scalar -/
def Tensor.meanDimension (t : Tensor R) (margs : List (Option (Nat → R))) (ρ sgn : R) : Except IdxErr R :=
  match t.sobol (weightT 2 t.length) margs true ρ sgn ρ sgn with
  | .ok (.inr x) => .ok x
  | .ok (.inl _) => .error .tooMany
  | .error e => .error e

/-- `tn.dimension_distribution(t, order=order, marginals=marginals)` with `mask=None` (anova.py:203-208):
    `tn.sobol(t, tn.weight_one_hot(t.dim(), order + 1), marginals).torch()[1:]` (`order=None` is `t.dim()`);
    the result lists the entries `1..order` of the one-mode tensor `sobol` returns -/
def Tensor.dimensionDistribution (t : Tensor R) (order : Nat) (margs : List (Option (Nat → R))) (ρ sgn ρ2 sgn2 : R) :
    Except IdxErr (List R) :=
  match t.sobol (weightOneHot (order + 1) (List.replicate t.length 2)) margs true ρ sgn ρ2 sgn2 with
  | .ok (.inl v) => .ok ((List.range order).map fun k => v.dense [k + 1])
  | .ok (.inr _) => .error .tooMany
  | .error e => .error e

end
end TN
